"""C19 — complexes, linkage classes, weak reversibility and deficiency follow their definitions.

Correspondence: `DeficiencyAnalyzer(H).compute_crn_deficiency()` (complex list, complex graph,
summary, per-class deficiencies) vs the Lean model `SynKitModel/Deficiency.lean`, about which
Props/C19.lean proves `complexes_spec`, `linkage_spec`, `weakrev_spec`, `deficiency_formula`.
Ranks are NumPy's business in the implementation; the harness computes them exactly (fractions),
hands them to the model, and checks the implementation's reported rank against them.  The two
inequalities `delta >= 0` and `sum(delta_l) <= delta` (stated, not proved, in `FullStatement`) are
checked with exact ranks on every case.  An independent Python oracle (union-find, plain
reachability) and the Lean command `spec.def.check` (right-hand sides of the theorems, evaluated
by a transitive-closure computation unrelated to the model's algorithms) decide whether a
difference is a violation of the property or only of the correspondence.

Sessions (streams `session-replace`, `session-random`): the same comparison after HISTORIES — one
analyzer reused after the referenced `CRNHyperGraph` / bipartite DiGraph was edited in place (most
edits keep (n_species, n_reactions), the ids, or the stoichiometric matrix), several analyzers on one
network, copies of analysed networks, compute_summary / compute_linkage_deficiencies /
run_deficiency_one_algorithm / compute_crn_deficiency(run_nondegeneracy=...) / accessors in any order,
non-default `stoich_fn` / `rank_fn`, and the documented alternative spellings of a bipartite graph
(`kind` only, `bipartite` flag only, missing `stoich` = 1, float `stoich`, integer node ids, label-less
species).  The model side of every query is computed from the description of the network at that
moment only.  `as_dict()` agreeing with the summary is part of the comparison.

Arc orientation and graph class of a bipartite input (stream `bip-forms`, and every bipartite session):
the documented convention of a bipartite graph is the `role` / `stoich` attribute of an arc, not its
direction, so the same network is also written with every arc species->reaction, every arc
reaction->species, every arc of the conventional form flipped, and a per-arc pseudo-random direction
(a hash of the session's `oseed`, replayable), as `DiGraph`, `MultiDiGraph`, `MultiGraph` (a species on
both sides of one reaction = two parallel edges) and - without such a species, which an undirected
simple graph cannot hold - `Graph`.  All
quantities of the property are compared with the model exactly as for the conventional spelling
(also the complex vectors of undirected inputs: `_as_bipartite` orients their edges by role; a tree
that keeps both arcs of every undirected edge reports every complex vector doubled, which is a
violation of "the complexes are exactly the reactant and product multisets" and is reported with the
class `undirected-input-complex-vectors-doubled`).

Helpers called directly (stream `direct`, see the block comment above `build_direct`): `_complex_vectors(G)` on the
bipartite graph AS GIVEN in each of the four NetworkX classes (its undirected branch is never reached through
compute_summary, which hands it what `_as_bipartite` returns), `_is_weakly_reversible` on the complex graph it returns,
`_linkage_class_stoich_rank` on every linkage class handed over as any kind of iterable, on the empty class and on a
fresh analyzer; input graphs also written by `hypergraph_to_bipartite` with non-default options, and graphs carrying
nodes / arcs that are not part of the species-reaction network; analyzer option `rank_fn=None`.

Graph inputs and the Lean model of the graph reading (every bipartite session query and every `direct` case): the LIVE NetworkX
object is serialised node by node and edge by edge at the moment it is analysed (`c17.bip_request`), the driver command
`bip.complexes` (`SynKitModel/BipGraph.lean`, `BipGraphViews.lean`) reads the network off it (`netOfGraph`, ordered as the analysis
orders it: `view`), that network must be the described one (harness self-test, `Infra` otherwise) and the EXPECTED complexes /
classes / summary are `def.analyse` of it; theorems `graphComplexes_eq`, `graphComplexesRaw_eq`, `graphSummary_eq` tie the graph-level
model of `_complex_vectors` (on `_as_bipartite(G)` and on the graph as given) to that network-level model, and the driver's own
evaluation of their conclusion on every input is checked (`agrees`).
"""
import hashlib
import itertools
import json
from fractions import Fraction

from ..core import ROOT, Infra
from ..leanscope import build_and_audit_scoped
from ..shrink import shrink_seq
from .. import netio

THEOREMS = [
    "SynKit.Deficiency.complexes_spec",
    "SynKit.Deficiency.linkage_spec",
    "SynKit.Deficiency.weakrev_spec",
    "SynKit.Deficiency.deficiency_formula",
    "SynKit.Deficiency.linkage_deficiency_formula",
    "SynKit.Deficiency.summary_error_iff",
    "SynKit.Deficiency.fullStatement_partial",
    "SynKit.NetGraphAlg.labelling_spec",
    "SynKit.NetGraphAlg.components_spec",
    "SynKit.NetGraphAlg.reachSet_sound",
    "SynKit.NetGraphAlg.reachSet_complete_of_closed",
    "SynKit.NetGraphAlg.reachSet_closed_of_fuel",
    "SynKit.NetGraphAlg.stronglyConnected_iff",
    "SynKit.Deficiency.stoich_rank_le",
    "SynKit.Deficiency.stoich_rank_le_sum_class_ranks",
    "SynKit.Deficiency.deficiency_nonneg",
    "SynKit.Deficiency.linkage_deficiency_sum_le",
    "SynKit.Deficiency.full",
    "SynKit.BipGraph.graphComplexes_eq",
    "SynKit.BipGraph.graphComplexesRaw_eq",
    "SynKit.BipGraph.graphSummary_eq",
    "SynKit.BipGraph.graphComplexes_spec",
    "SynKit.BipGraph.graphComplexes_orientation_invariant",
    "SynKit.BipGraph.graphComplexes_undirected_eq_directed",
    "SynKit.BipGraph.graphComplexes_missing_stoich",
]


# ---------------------------------------------------------------- exact linear algebra
def exact_rank(rows):
    m = [[Fraction(x) for x in r] for r in rows if any(r)]
    rank = 0
    ncols = len(m[0]) if m else 0
    for c in range(ncols):
        piv = next((i for i in range(rank, len(m)) if m[i][c] != 0), None)
        if piv is None:
            continue
        m[rank], m[piv] = m[piv], m[rank]
        for i in range(len(m)):
            if i != rank and m[i][c] != 0:
                f = m[i][c] / m[rank][c]
                m[i] = [a - f * b for a, b in zip(m[i], m[rank])]
        rank += 1
    return rank


# ---------------------------------------------------------------- independent oracle
def oracle(desc):
    """The definitions, computed directly from the description (no bipartite view, no NetworkX)."""
    net = netio.to_net_json(desc)
    sp = net["species"]
    if not sp or not net["reactions"]:
        return {"error": "ValueError"}

    def vec(side):
        d = dict(map(tuple, side))
        return tuple(d.get(s, 0) for s in sp)
    complexes = []
    arcs = set()
    for r in net["reactions"]:
        y, y2 = vec(r["r"]), vec(r["p"])
        for v in (y, y2):
            if v not in complexes:
                complexes.append(v)
        arcs.add((y, y2))
    parent = {c: c for c in complexes}

    def find(x):
        while parent[x] != x:
            parent[x] = parent[parent[x]]
            x = parent[x]
        return x
    for a, b in arcs:
        parent[find(a)] = find(b)
    classes = {}
    for c in complexes:
        classes.setdefault(find(c), set()).add(c)
    classes = [frozenset(v) for v in classes.values()]

    def reach(a, allowed):
        seen, todo = {a}, [a]
        while todo:
            x = todo.pop()
            for u, v in arcs:
                if u == x and v in allowed and v not in seen:
                    seen.add(v)
                    todo.append(v)
        return seen
    wr = all(reach(a, C) == set(C) for C in classes for a in C)
    S = [[dict(map(tuple, r["p"])).get(s, 0) - dict(map(tuple, r["r"])).get(s, 0) for r in net["reactions"]] for s in sp]
    rank = exact_rank(S)
    lc = {}
    for C in classes:
        diffs = [[b - a for a, b in zip(u, v)] for u, v in arcs if u in C and v in C]
        lc[C] = len(C) - 1 - exact_rank(diffs)
    return {"complexes": set(complexes), "arcs": arcs, "classes": set(classes), "weakly_reversible": wr,
            "n_species": len(sp), "n_reactions": len(net["reactions"]), "n_complexes": len(complexes),
            "n_linkage_classes": len(classes), "stoich_rank": rank,
            "deficiency": len(complexes) - len(classes) - rank, "linkage": lc}


# ---------------------------------------------------------------- implementation adapter
def observe(an):
    """What an analyzer currently reports (its own complex list / complex graph / summary / per-class list)."""
    import networkx as nx

    cs = [tuple(int(x) for x in c) for c in an._complexes]
    CG = an._complex_graph
    comps = [sorted(c) for c in nx.connected_components(CG.to_undirected())]
    s = an.summary
    d = an.as_dict()
    summ = {"n_species": int(s.n_species), "n_reactions": int(s.n_reactions), "n_complexes": int(s.n_complexes),
            "n_linkage_classes": int(s.n_linkage_classes), "stoich_rank": int(s.stoich_rank),
            "deficiency": int(s.deficiency), "weakly_reversible": bool(s.weakly_reversible)}
    lds = an.linkage_deficiencies
    return {"complexes": cs, "arcs": sorted([int(u), int(v)] for u, v in CG.edges()), "nodes": sorted(int(x) for x in CG.nodes()),
            "classes": comps, "summary": summ, "as_dict_agrees": all(d.get(k) == v for k, v in summ.items()),
            "linkage_deficiencies": [int(x) for x in (lds or [])],
            "as_dict_linkage": [int(x) for x in d.get("linkage_deficiencies", [])]}


def impl_analyse(desc):
    from synkit.CRN.Props.deficiency import DeficiencyAnalyzer

    H = netio.to_hypergraph(desc)
    try:
        an = DeficiencyAnalyzer(H).compute_crn_deficiency()
    except ValueError:
        return {"error": "ValueError"}
    except Exception as e:  # noqa: BLE001 - an analysis that raises on a network is an answer too (compared with the model's)
        return {"error": "raised " + type(e).__name__}
    return observe(an)


def canon(res):
    """What the property determines, keyed by content (complex vectors), not by index."""
    if "error" in res:
        return res
    cs = [tuple(c) for c in res["complexes"]]
    classes = [frozenset(cs[i] for i in C) for C in res["classes"]]
    lds = res["linkage_deficiencies"]
    return {"complexes": sorted(cs), "dup": len(set(cs)) != len(cs),
            "arcs": sorted((cs[u], cs[v]) for u, v in res["arcs"]),
            "classes": sorted(sorted(C) for C in classes),
            "summary": res["summary"],
            # as_dict() is the second observation point of the property: it must carry the same numbers
            "as_dict_summary": bool(res.get("as_dict_agrees", True)),
            "as_dict_linkage": res.get("as_dict_linkage", lds) == lds,
            "linkage": sorted((sorted(C), d) for C, d in zip(classes, lds)) if len(lds) == len(classes) else "length-mismatch"}


def diff(ci, cm, linkage=True):
    """`linkage=False`: the per-class list is not looked at (a session query that only recomputed the summary)."""
    if ("error" in ci) or ("error" in cm):
        return None if ci == cm else f"impl={ci} model={cm}"
    for k in ("complexes", "dup", "arcs", "classes", "as_dict_summary") + (("linkage", "as_dict_linkage") if linkage else ()):
        if ci[k] != cm[k]:
            return f"{k}: impl={ci[k]} model={cm[k]}"
    for k, v in cm["summary"].items():
        if ci["summary"][k] != v:
            return f"summary.{k}: impl={ci['summary'][k]} model={v}"
    return None


def spec_lean(ctx, desc, impl):
    """The right-hand sides of complexes_spec / linkage_spec / weakrev_spec on the reported data (Lean)."""
    rep = ctx.lean().ok([{"cmd": "spec.def.check", "net": netio.to_net_json(desc), "complexes": [list(c) for c in impl["complexes"]],
                          "arcs": impl["arcs"], "classes": impl["classes"], "weakly_reversible": impl["summary"]["weakly_reversible"]}])[0]
    if not rep["holds"]:
        bad = [k for k in ("complexes_ok", "arcs_ok", "classes_ok", "weakrev_ok") if not rep[k]]
        return f"Lean specification rejects the reported {', '.join(bad)} (complexes={impl['complexes']}, classes={impl['classes']}, weakly_reversible={impl['summary']['weakly_reversible']})"
    return None


def spec_numbers(o, impl, linkage=True):
    """The numbers against the definition oracle `o`, the two inequalities, as_dict()."""
    s = impl["summary"]
    for k in ("n_species", "n_reactions", "n_complexes", "n_linkage_classes", "stoich_rank", "deficiency", "weakly_reversible"):
        if s[k] != o[k]:
            return f"{k} = {s[k]}, the definition gives {o[k]}"
    if s["deficiency"] < 0:
        return f"negative deficiency {s['deficiency']}"
    if not impl["as_dict_agrees"]:
        return "as_dict() differs from the summary object"
    if not linkage:
        return None
    cs = impl["complexes"]
    if len(impl["classes"]) != len(impl["linkage_deficiencies"]):
        return f"{len(impl['linkage_deficiencies'])} linkage-class deficiencies for {len(impl['classes'])} linkage classes"
    got = {frozenset(cs[i] for i in C): d for C, d in zip(impl["classes"], impl["linkage_deficiencies"])}
    if got != o["linkage"]:
        return (f"linkage-class deficiencies {sorted((sorted(C), d) for C, d in got.items())}, "
                f"the definition gives {sorted((sorted(C), d) for C, d in o['linkage'].items())}")
    if sum(got.values()) > s["deficiency"]:
        return f"linkage-class deficiencies sum to {sum(got.values())} > deficiency {s['deficiency']}"
    if impl["as_dict_linkage"] != impl["linkage_deficiencies"]:
        return "as_dict() differs from the summary object"
    return None


def spec_check(ctx, desc, impl, linkage=True, numbers_first=False):
    """-> None when the implementation's answer satisfies C19 on this input, else a description."""
    o = oracle(desc)
    if "error" in impl or "error" in o:
        return None if impl.get("error") == o.get("error") else f"impl={impl.get('error', 'result')} definition={o.get('error', 'result')}"
    if numbers_first:
        return spec_numbers(o, impl, linkage) or spec_lean(ctx, desc, impl)
    return spec_lean(ctx, desc, impl) or spec_numbers(o, impl, linkage)


def run_cases(ctx, descs, tag):
    if not descs:
        return
    nets = [netio.to_net_json(d) for d in descs]
    ph1 = ctx.lean().ok([{"cmd": "def.analyse", "net": n} for n in nets], shards=8)
    reqs = []
    for d, n, m in zip(descs, nets, ph1):
        S = [[dict(map(tuple, r["p"])).get(s, 0) - dict(map(tuple, r["r"])).get(s, 0) for r in n["reactions"]] for s in n["species"]]
        if S != m["stoich_rows"]:
            ctx.violation("model stoichiometric matrix differs from products - reactants", d, {"model": m["stoich_rows"], "own": S}, no_input=True)
            return
        if not m["stable"]:
            ctx.violation("model reach sets not stabilised (contradicts stronglyConnectedStable_true)", d, None, no_input=True)
            return
        reqs.append({"cmd": "def.analyse", "net": n, "rank": exact_rank(S), "class_ranks": [exact_rank(x) for x in m["class_diffs"]]})
    ph2 = ctx.lean().ok(reqs, shards=8)
    for d, n, m in zip(descs, nets, ph2):
        msg = netio.check_encoding(d) if n["reactions"] else None
        if msg is not None:
            ctx.violation("network encoder and bipartite view disagree (harness assumption, not the property)", d, {"detail": msg}, no_input=True)
            continue
        impl = impl_analyse(d)
        if "error" in m:
            model = {"error": m["error"]}
        else:
            model = {"complexes": [tuple(c) for c in m["complexes"]], "arcs": m["arcs"], "classes": m["classes"],
                     "summary": m["summary"], "linkage_deficiencies": m["linkage_deficiencies"]}
        ci, cm = canon(impl), canon(model)
        ctx.count(f"cases[{tag}]")
        if "error" in cm:
            ctx.count("error:ValueError")
        else:
            s = cm["summary"]
            ctx.count(f"deficiency={min(s['deficiency'], 3)}{'+' if s['deficiency'] >= 3 else ''}")
            ctx.count(f"linkage_classes={min(s['n_linkage_classes'], 4)}{'+' if s['n_linkage_classes'] >= 4 else ''}")
            ctx.count("weakly_reversible=" + str(s["weakly_reversible"]))
            tot = sum(x for _, x in cm["linkage"])
            ctx.count("sum(delta_l)" + ("=" if tot == s["deficiency"] else "<") + "delta")
            # the two inequalities of the FullStatement, with exact ranks, on the model's numbers
            if s["deficiency"] < 0 or tot > s["deficiency"]:
                ctx.violation("inequality of C19 fails on the model with exact ranks (delta >= 0, sum delta_l <= delta)", d,
                              {"summary": s, "linkage": cm["linkage"]}, no_input=True)
                return
            # the oracle agrees with the model (guards the oracle used for classification)
            o = oracle(d)
            if (o["complexes"] != set(cm["complexes"]) or o["classes"] != {frozenset(map(tuple, C)) for C in cm["classes"]}
                    or o["weakly_reversible"] != s["weakly_reversible"] or o["deficiency"] != s["deficiency"]
                    or sorted(o["linkage"].values()) != sorted(x for _, x in cm["linkage"])):
                ctx.violation("independent oracle and Lean model disagree (harness or model defect)", d,
                              {"oracle": {k: str(v) for k, v in o.items()}, "model": str(cm)}, no_input=True)
                return
        nontrivial = "error" not in cm and len(n["reactions"]) >= 2 and cm["summary"]["n_complexes"] >= 3
        ctx.case(["c19", d], nontrivial, sample={"stream": tag, "net": netio.fmt(d), "summary": cm.get("summary", cm)} if len(d["reactions"]) <= 2 else None)
        df = diff(ci, cm)
        if df is None:
            continue
        sp = spec_check(ctx, d, impl)
        if sp is not None:
            def fails(rs):
                if not rs:
                    return False
                dd = dict(d, reactions=rs)
                try:
                    return spec_check(ctx, dd, impl_analyse(dd)) is not None
                except Exception:
                    return False
            small = dict(d, reactions=shrink_seq(d["reactions"], fails, budget=80))
            for r in small["reactions"]:
                for side in ("r", "p"):
                    for ent in list(r[side]):
                        old = ent[1]
                        if old > 1:
                            ent[1] = 1
                            if not fails(small["reactions"]):
                                ent[1] = old
            simpl = impl_analyse(small)
            ctx.violation("complexes / linkage classes / weak reversibility / deficiency do not follow their definitions", small,
                          {"spec": spec_check(ctx, small, simpl), "impl": {k: (str(v) if k == "complexes" else v) for k, v in simpl.items()},
                           "net": netio.fmt(small), "stream": tag, "original": netio.fmt(d)})
        else:
            ctx.violation("correspondence C19: impl and model differ although the specification holds", d,
                          {"diff": df, "stream": tag}, no_input=True)
        if len(ctx.violations) >= 5:
            return


# ---------------------------------------------------------------- generators
def sides3(maxsum=None):
    out = []
    for v in itertools.product([0, 1, 2], repeat=3):
        if maxsum is None or sum(v) <= maxsum:
            out.append([[s, c] for s, c in zip("ABC", v) if c])
    return out


def reactions3(maxsum=None):
    S = sides3(maxsum)
    return [{"r": r, "p": p} for r in S for p in S if r or p]


def with_ids(rs):
    return [dict(r, id=f"r_{i + 1}", rule="r") for i, r in enumerate(rs)]


def perm_canonical(rs):
    """True when the (unordered) reaction set is the smallest among its images under the 6 species permutations."""
    def key(rs, pm):
        return sorted((sorted((pm[s], c) for s, c in r["r"]), sorted((pm[s], c) for s, c in r["p"])) for r in rs)
    base = key(rs, {"A": "A", "B": "B", "C": "C"})
    for p in itertools.permutations("ABC"):
        if key(rs, dict(zip("ABC", p))) < base:
            return False
    return True


def random_desc(rnd):
    sp = list("ABCDEF")[: rnd.randint(1, 6)]
    rs = []
    pool = []
    for i in range(rnd.randint(1, 6)):
        def side():
            k = rnd.choice([0, 1, 1, 2, 2, 3])
            return [[s, rnd.choice([1, 1, 2, 3])] for s in rnd.sample(sp, min(k, len(sp)))]
        r = rnd.choice(pool) if pool and rnd.random() < 0.45 else side()
        p = rnd.choice(pool) if pool and rnd.random() < 0.45 else side()
        if rnd.random() < 0.15 and r:  # catalyst
            p = [e for e in p if e[0] != r[0][0]] + [[r[0][0], rnd.choice([1, 2])]]
        if not r and not p:
            p = [[sp[0], 1]]
        pool += [r, p]
        rid = rnd.choice([f"r_{i + 1}", f"x{9 - i}", f"R_{i}", f"r_{12 - i}"])
        rs.append({"id": rid, "rule": rnd.choice(["r", "R1"]), "r": [list(e) for e in r], "p": [list(e) for e in p]})
    if len({r["id"] for r in rs}) < len(rs):
        rs = with_ids(rs)
    if rnd.random() < 0.3 and len(rs) >= 2:  # reverse of an existing reaction: weak reversibility
        r0 = rnd.choice(rs)
        if r0["r"] or r0["p"]:
            rs.append({"id": "zz_rev", "rule": "r", "r": [list(e) for e in r0["p"]], "p": [list(e) for e in r0["r"]]})
    return {"reactions": rs, "isolated": ["Z"] if rnd.random() < 0.1 else []}


def parse(lines):
    rs = []
    for i, ln in enumerate(lines):
        def side(t):
            out = []
            for tok in t.split("+"):
                tok = tok.strip()
                if not tok or tok == "0":
                    continue
                k = 0
                while k < len(tok) and tok[k].isdigit():
                    k += 1
                out.append([tok[k:].strip(), int(tok[:k]) if k else 1])
            return out
        l, r = ln.split(">>")
        rs.append({"id": f"r_{i + 1}", "rule": "r", "r": side(l), "p": side(r)})
    return {"reactions": rs}


TEXTBOOK = [
    # (name, reactions, expected deficiency, expected weakly reversible)
    ("reversible A+B<->C", ["A+B>>C", "C>>A+B"], 0, True),
    ("Edelstein", ["A>>2A", "2A>>A", "A+B>>C", "C>>A+B", "C>>B", "B>>C"], 1, True),
    ("futile cycle (one site)", ["S+E>>SE", "SE>>S+E", "SE>>P+E", "P+F>>PF", "PF>>P+F", "PF>>S+F"], 1, False),
    ("double futile cycle", ["S0+E>>S0E", "S0E>>S0+E", "S0E>>S1+E", "S1+E>>S1E", "S1E>>S1+E", "S1E>>S2+E",
                             "S2+F>>S2F", "S2F>>S2+F", "S2F>>S1+F", "S1+F>>S1F", "S1F>>S1+F", "S1F>>S0+F"], 2, False),
    ("Michaelis-Menten", ["E+S>>ES", "ES>>E+S", "ES>>E+P"], 0, False),
    ("cycle A->B->C->A", ["A>>B", "B>>C", "C>>A"], 0, True),
    ("Lotka-Volterra", ["X>>2X", "X+Y>>2Y", "Y>>0"], 1, False),
    ("two classes, deficiency one (Feinberg)", ["2A>>A+B", "A+B>>2B", "2B>>2A", "A>>C", "C>>A"], 1, True),
]


# ================================================================ sessions (hidden state between calls)
# A session is a replayable JSON value: one or more networks (a `CRNHyperGraph` edited through its
# public API, or a hand-built bipartite DiGraph edited in place), analyzers constructed on them at
# various moments with various options, and queries in any order.  The specification side is computed
# from the network description AT THE TIME OF THE QUERY only (the Lean model is a pure function of
# the network), so whatever an analyzer, the class or the module remembers cannot influence it.
#
#   {"kind": "hyper" | "bip", "flavor": {...}, "init": desc,
#    "steps": [{"op": "an", "name": "a0", "net": "n0", "opt": "default"},
#              {"op": "q", "an": "a0", "m": "crn"},
#              {"op": "rm", "net": "n0", "id": "r_2"}, {"op": "add", "net": "n0", "rxn": {...}},
#              {"op": "set", "net": "n0", "rxn": {...}},          # replace the reaction with this id, in place
#              {"op": "iso", "net": "n0", "sp": "Z"}, {"op": "rmsp", "net": "n0", "sp": "Z"},
#              {"op": "fork", "net": "n0", "as": "n1"}, ...]}
#
# What is gated after a query: the analyzer's state is claimed to describe the CURRENT network only as
# far as the documented call protocol makes it so: the summary / complex list / complex graph when the
# last successful compute_summary() of this analyzer ran on the current version of its network, the
# per-class list when additionally the last compute_linkage_deficiencies() used that complex graph.
# Calls whose result is stale by the protocol itself (compute_linkage_deficiencies() alone after an
# edit, run_deficiency_one_algorithm() on old numbers) are made, but nothing is demanded of them.
OPTS = ("default", "stoich_none", "stoich_list", "rank_lambda")
SUMMARY_METHODS = ("crn", "crn_nd", "summary", "summary_linkage")
METHODS = SUMMARY_METHODS + ("linkage", "one", "peek")
# bipartite inputs: how the arcs are directed and which NetworkX class holds them (flavor keys "orient", "oseed", "gtype")
ORIENTS = ("conv", "s2r", "r2s", "flip", "rand")
GTYPES = ("DiGraph", "MultiDiGraph", "Graph", "MultiGraph")


class InvalidSession(Exception):
    pass


def _copy_rxn(r):
    return {"id": r["id"], "rule": r.get("rule") or "r", "r": [[s, int(c)] for s, c in r["r"]], "p": [[s, int(c)] for s, c in r["p"]]}


def _used(desc):
    return {s for r in desc["reactions"] for side in ("r", "p") for s, _ in r[side]}


def _rxn_ok(r):
    for side in ("r", "p"):
        keys = [s for s, _ in r[side]]
        if len(set(keys)) != len(keys) or any(int(c) <= 0 for _, c in r[side]):
            return False
    return bool(r["r"] or r["p"])


def apply_desc(kind, desc, op):
    """The effect of an edit on the description (pure bookkeeping, shared by generator and executor).
    hyper: `isolated` = species kept in the store without a reaction; remove_rxn prunes orphans.
    bip:   `isolated` = every species node of the graph (nodes never disappear by themselves)."""
    rs = desc["reactions"]
    ids = [r["id"] for r in rs]
    o = op["op"]
    if o in ("add", "set"):
        r = _copy_rxn(op["rxn"])
        if not _rxn_ok(r):
            raise InvalidSession("malformed reaction")
        if o == "add":
            if r["id"] in ids:
                raise InvalidSession("duplicate id")
            rs.append(r)
        else:
            if r["id"] not in ids:
                raise InvalidSession("unknown id")
            if kind == "hyper":  # remove_rxn + add_rxn: the edge moves to the end of the store
                old = rs.pop(ids.index(r["id"]))
                rs.append(r)
                gone = {s for side in ("r", "p") for s, _ in old[side]} - _used(desc)
                desc["isolated"] = [s for s in desc["isolated"] if s not in gone]
            else:
                rs[ids.index(r["id"])] = r
        if kind == "bip":
            for side in ("r", "p"):
                for s, _ in r[side]:
                    if s not in desc["isolated"]:
                        desc["isolated"].append(s)
    elif o == "rm":
        if op["id"] not in ids:
            raise InvalidSession("unknown id")
        old = rs.pop(ids.index(op["id"]))
        if kind == "hyper":
            gone = {s for side in ("r", "p") for s, _ in old[side]} - _used(desc)
            desc["isolated"] = [s for s in desc["isolated"] if s not in gone]
    elif o == "iso":
        if op["sp"] in desc["isolated"] or op["sp"] in _used(desc):
            raise InvalidSession("species exists")
        desc["isolated"].append(op["sp"])
    elif o == "rmsp":
        if kind != "bip" or op["sp"] not in desc["isolated"] or op["sp"] in _used(desc):
            raise InvalidSession("species not removable")
        desc["isolated"].remove(op["sp"])
    else:
        raise InvalidSession("unknown edit " + str(o))


class _Net:
    """A live network object plus the harness's own description of it."""

    def __init__(self, kind, flavor):
        self.kind, self.flavor, self.ver = kind, dict(flavor or {}), 0
        self.desc = {"reactions": [], "isolated": []}
        self.spnode, self.rnode, self.counter = {}, {}, 0
        if kind == "hyper":
            from synkit.CRN.Hypergraph.hypergraph import CRNHyperGraph
            self.obj = CRNHyperGraph()
        else:
            import networkx as nx
            gt = self.flavor.get("gtype", "DiGraph")
            if gt not in GTYPES or self.flavor.get("orient", "conv") not in ORIENTS:
                raise InvalidSession("unknown graph class / orientation")
            self.obj = getattr(nx, gt)()

    @property
    def undirected(self):
        return self.kind == "bip" and self.flavor.get("gtype", "DiGraph") in ("Graph", "MultiGraph")

    def fork(self):
        import copy
        n = _Net.__new__(_Net)
        n.kind, n.flavor, n.ver = self.kind, dict(self.flavor), 0
        n.desc = copy.deepcopy(self.desc)
        n.spnode, n.rnode, n.counter = dict(self.spnode), dict(self.rnode), self.counter
        n.obj = self.obj.copy()
        return n

    # ---- bipartite graph details (all variants are documented spellings of the same network)
    def _sp(self, s):
        if s not in self.spnode:
            f = self.flavor
            if f.get("intid"):
                node, self.counter = self.counter, self.counter + 1
            elif f.get("nolabel"):
                node = s
            else:
                node = "S:" + s
            attrs = {"kind": "species", "bipartite": 0}
            if f.get("mark") == "kind":
                del attrs["bipartite"]
            elif f.get("mark") == "flag":
                del attrs["kind"]
            if not (f.get("nolabel") and not f.get("intid")):
                attrs["label"] = s
            self.obj.add_node(node, **attrs)
            self.spnode[s] = node
        return self.spnode[s]

    def _species_to_reaction(self, rid, s, role):
        """Direction in which the arc is written (the role attribute, not the direction, tells the side)."""
        o = self.flavor.get("orient", "conv")
        if o == "conv":
            return role == "reactant"
        if o == "s2r":
            return True
        if o == "r2s":
            return False
        if o == "flip":
            return role == "product"
        h = hashlib.sha256(f"{self.flavor.get('oseed', 0)}|{rid}|{s}|{role}".encode()).digest()  # "rand": per arc, replayable
        return bool(h[0] & 1)

    def _arcs(self, rn, r):
        f = self.flavor
        for side, role in (("r", "reactant"), ("p", "product")):
            for s, c in r[side]:
                attrs = {"role": role}
                if not (f.get("omit1") and int(c) == 1):
                    attrs["stoich"] = float(c) if f.get("float") else int(c)
                u = self._sp(s)
                a, b = (u, rn) if self._species_to_reaction(r["id"], s, role) else (rn, u)
                if not self.obj.is_multigraph() and self.obj.has_edge(a, b):
                    # a species on both sides of this reaction: a simple DiGraph has room for one arc per direction
                    a, b = b, a
                self.obj.add_edge(a, b, **attrs)

    def edit(self, op):
        before = json.dumps(self.desc, sort_keys=True)
        if (self.kind == "bip" and self.flavor.get("gtype") == "Graph" and op["op"] in ("add", "set")
                and {x for x, _ in op["rxn"]["r"]} & {x for x, _ in op["rxn"]["p"]}):
            raise InvalidSession("an undirected simple graph cannot hold a species on both sides of one reaction")
        apply_desc(self.kind, self.desc, op)  # raises InvalidSession before anything is touched
        o = op["op"]
        if self.kind == "hyper":
            H = self.obj
            if o in ("rm", "set"):
                H.remove_rxn(op["id"] if o == "rm" else op["rxn"]["id"])
            if o in ("add", "set"):
                r = op["rxn"]
                H.add_rxn(dict((s, int(c)) for s, c in r["r"]), dict((s, int(c)) for s, c in r["p"]), rule=r.get("rule"), edge_id=r["id"])
            if o == "iso":
                H.add_rxn({op["sp"]: 1}, {}, edge_id=f"__iso_{self.counter}")
                self.counter += 1
                H.remove_species(op["sp"], prune_orphans=False)
        else:
            G = self.obj
            if o == "rm":
                G.remove_node(self.rnode.pop(op["id"]))
            elif o == "add":
                r = op["rxn"]
                if self.flavor.get("intid"):
                    rn, self.counter = self.counter, self.counter + 1
                else:
                    rn = "R:" + r["id"]
                attrs = {"kind": "reaction", "bipartite": 1, "label": r.get("rule") or "r"}
                if self.flavor.get("mark") == "kind":
                    del attrs["bipartite"]
                elif self.flavor.get("mark") == "flag":
                    del attrs["kind"]
                G.add_node(rn, **attrs)
                self.rnode[r["id"]] = rn
                self._arcs(rn, r)
            elif o == "set":
                rn = self.rnode[op["rxn"]["id"]]
                G.remove_edges_from((list(G.in_edges(rn)) + list(G.out_edges(rn))) if G.is_directed() else list(G.edges(rn)))
                G.nodes[rn]["label"] = op["rxn"].get("rule") or "r"
                self._arcs(rn, op["rxn"])
            elif o == "iso":
                self._sp(op["sp"])
            elif o == "rmsp":
                G.remove_node(self.spnode.pop(op["sp"]))
        if json.dumps(self.desc, sort_keys=True) != before:
            self.ver += 1

    def net_json(self):
        return netio.to_net_json_raw(self.desc) if self.kind == "bip" else netio.to_net_json(self.desc)

    def check_encoding(self):
        """The description is what the implementation's own view of the live object shows (harness assumption)."""
        if not self.desc["reactions"]:
            return None
        if self.kind == "hyper":
            return netio.check_encoding(self.desc, self.obj)
        from synkit.CRN.Props.utils import _species_order, _split_species_reactions
        G, net = self.obj, self.net_json()
        _, labels, _ = _species_order(G)
        if list(labels) != net["species"]:
            return f"species order {labels} != {net['species']}"
        lab = {v: k for k, v in self.spnode.items()}
        got = []
        for rn in _split_species_reactions(G)[1]:
            # the side is told by the role attribute; the direction of an arc is free (flavor "orient")
            inc = (list(G.in_edges(rn, data=True)) + list(G.out_edges(rn, data=True))) if G.is_directed() else list(G.edges(rn, data=True))
            inc = [(v if u == rn else u, d) for u, v, d in inc]
            if any(d.get("role") not in ("reactant", "product") for _, d in inc):
                return f"arc without a role at reaction node {rn!r}"
            got.append([sorted([lab[x], int(d.get("stoich", 1))] for x, d in inc if d["role"] == "reactant"),
                        sorted([lab[x], int(d.get("stoich", 1))] for x, d in inc if d["role"] == "product")])
        want = [[sorted(r["r"]), sorted(r["p"])] for r in net["reactions"]]
        return None if got == want else f"reaction nodes {got} != {want}"


def _make_analyzer(obj, opt):
    import numpy as np
    from synkit.CRN.Props.deficiency import DeficiencyAnalyzer
    from synkit.CRN.Props.stoich import stoichiometric_matrix

    if opt == "default":
        return DeficiencyAnalyzer(obj)
    if opt == "stoich_none":
        return DeficiencyAnalyzer(obj, stoich_fn=None)
    if opt == "stoich_list":
        return DeficiencyAnalyzer(obj, stoich_fn=lambda g: stoichiometric_matrix(g).tolist())
    if opt == "rank_lambda":
        return DeficiencyAnalyzer(obj, rank_fn=lambda g: int(np.linalg.matrix_rank(stoichiometric_matrix(g))))
    if opt == "rank_none":  # direct stream only: the caller switches the rank computation off (stoich_rank is reported as 0)
        return DeficiencyAnalyzer(obj, rank_fn=None)
    raise InvalidSession("unknown option " + str(opt))


def undouble(impl, desc):
    """Classifier only (nothing is tolerated): an implementation that hands the analyzer a symmetric DiGraph for an
    undirected input meets every incidence twice and reports every complex vector multiplied by 2.  -> (impl with the
    vectors halved, True) exactly when the reported list is not the definition's but its uniform double; else (impl, False)."""
    if "error" in impl:
        return impl, False
    o = oracle(desc)
    cs = [tuple(c) for c in impl["complexes"]]
    if "error" in o or set(cs) == o["complexes"] or any(x % 2 for c in cs for x in c):
        return impl, False
    half = [tuple(x // 2 for x in c) for c in cs]
    if set(half) != o["complexes"]:
        return impl, False
    return dict(impl, complexes=half), True


def exec_session(sess):
    """Run the session against the implementation.  -> list of observations, one per gated query:
    {"step", "an", "m", "opt", "kind", "desc", "net", "impl", "linkage", "enc", "reused", "same_shape"}."""
    import copy

    from .c17 import bip_request

    nets = {"n0": _Net(sess["kind"], sess.get("flavor"))}
    for r in sess["init"]["reactions"]:
        nets["n0"].edit({"op": "add", "rxn": r})
    for s in sess["init"].get("isolated", []):
        if s not in nets["n0"].desc["isolated"] and s not in _used(nets["n0"].desc):
            nets["n0"].edit({"op": "iso", "sp": s})
    nets["n0"].ver = 0
    ans = {}
    out = []
    for k, op in enumerate(sess["steps"]):
        o = op["op"]
        if o == "an":
            if op["net"] not in nets or op["name"] in ans:
                raise InvalidSession("an")
            ans[op["name"]] = {"an": _make_analyzer(nets[op["net"]].obj, op.get("opt", "default")), "net": nets[op["net"]],
                               "opt": op.get("opt", "default"), "sum_ver": None, "link_ver": None, "shape": None}
        elif o == "fork":
            if op["net"] not in nets or op["as"] in nets:
                raise InvalidSession("fork")
            nets[op["as"]] = nets[op["net"]].fork()
        elif o == "q":
            if op["an"] not in ans:
                raise InvalidSession("unknown analyzer")
            a = ans[op["an"]]
            an, net, m = a["an"], a["net"], op["m"]
            if m not in METHODS or (m == "crn_nd" and a["opt"] == "stoich_none"):
                raise InvalidSession("method")
            computes = m in SUMMARY_METHODS or (m == "one" and a["sum_ver"] is None)
            valid_before = a["sum_ver"] == net.ver
            err = None
            try:
                if m == "crn":
                    an.compute_crn_deficiency()
                elif m == "crn_nd":
                    an.compute_crn_deficiency(run_nondegeneracy=True)
                elif m == "summary":
                    an.compute_summary()
                elif m == "summary_linkage":
                    an.compute_summary().compute_linkage_deficiencies()
                elif m == "linkage":
                    an.compute_linkage_deficiencies()
                elif m == "one":
                    an.run_deficiency_one_algorithm()
                else:  # accessors: must not change anything
                    an.as_dict(), an.explain(), repr(an), an.deficiency_one_structural
                    if an.summary is not None:
                        an.check_deficiency_zero(), an.check_regularity()
            except Exception as e:  # noqa: BLE001 - any exception is an observation
                err = type(e).__name__
            n_sp = len(net.net_json()["species"])
            shape = (n_sp, len(net.desc["reactions"]))
            reused = a["sum_ver"] is not None and a["sum_ver"] != net.ver
            if err is not None:
                if not (computes or valid_before):
                    continue  # documented precondition failures of calls on stale / missing state: nothing demanded
                obs_impl, linkage = {"error": err}, True
            else:
                if computes:
                    a["sum_ver"] = net.ver
                    if m != "summary":
                        a["link_ver"] = net.ver
                elif m == "linkage" or (m == "one" and a["link_ver"] is None):
                    a["link_ver"] = a["sum_ver"]
                if a["sum_ver"] != net.ver:
                    continue
                obs_impl, linkage = observe(an), a["link_ver"] == net.ver
            out.append({"bip": bip_request(net.obj) if net.kind == "bip" else None,
                        "doubled": net.undirected and undouble(obs_impl, net.desc)[1], "step": k, "an": op["an"], "m": m, "opt": a["opt"], "kind": net.kind, "desc": copy.deepcopy(net.desc),
                        "net": net.net_json(), "impl": obs_impl, "linkage": linkage, "enc": net.check_encoding(),
                        "reused": reused and computes, "same_shape": reused and computes and a["shape"] == shape})
            if err is None and computes:
                a["shape"] = shape
        else:
            if op.get("net") not in nets:
                raise InvalidSession("unknown net")
            nets[op["net"]].edit(op)
    return out


def lean_models(ctx, nets):
    """def.analyse with exact ranks for a list of network JSONs (deduplicated) -> {key: model dict} or None after a harness alarm."""
    uniq = {}
    for n in nets:
        uniq.setdefault(json.dumps(n, sort_keys=True), n)
    keys = list(uniq)
    ph1 = ctx.lean().ok([{"cmd": "def.analyse", "net": uniq[k]} for k in keys], shards=8)
    reqs = []
    for k, m in zip(keys, ph1):
        n = uniq[k]
        S = [[dict(map(tuple, r["p"])).get(s, 0) - dict(map(tuple, r["r"])).get(s, 0) for r in n["reactions"]] for s in n["species"]]
        if S != m["stoich_rows"] or not m["stable"]:
            ctx.violation("model stoichiometric matrix / reach-set stabilisation check failed on a session network", n,
                          {"model": m["stoich_rows"], "own": S, "stable": m["stable"]}, no_input=True)
            return None
        reqs.append({"cmd": "def.analyse", "net": n, "rank": exact_rank(S), "class_ranks": [exact_rank(x) for x in m["class_diffs"]]})
    out = {}
    for k, m in zip(keys, ctx.lean().ok(reqs, shards=8)):
        out[k] = {"error": m["error"]} if "error" in m else {
            "complexes": [tuple(c) for c in m["complexes"]], "arcs": m["arcs"], "classes": m["classes"],
            "summary": m["summary"], "linkage_deficiencies": m["linkage_deficiencies"]}
    return out


def _sides(r):
    return [sorted([str(a), int(b)] for a, b in r["r"]), sorted([str(a), int(b)] for a, b in r["p"])]


def view_matches(view, net, ordered):
    """Harness self-test: the network the Lean model reads off the graph (`viewNet (netOfGraph g)`: species sorted by label, one
    reaction per reaction node in `G.nodes` order) is the network the description stands for: same species list, same (consumed,
    produced) sides - reaction by reaction when the description fixes the node order, else as a multiset.  Rule labels and ids are
    not part of C19 and not compared."""
    got, want = [_sides(r) for r in view["reactions"]], [_sides(r) for r in net["reactions"]]
    return list(view["species"]) == list(net["species"]) and (got == want if ordered else sorted(got) == sorted(want))


def lean_graph_models(ctx, entries, tag):
    """entries: [(bip_request(G), described network JSON, ordered)] -> per entry None (graph not serialisable) or the `def.analyse`
    model (exact ranks) of the network the Lean model of the graph reading reads off G; None instead of the list after a harness
    alarm of lean_models.  Raises Infra when that network is not the described one, or when the driver's own evaluation
    contradicts graphComplexes_eq / graphComplexesRaw_eq / graphSummary_eq."""
    out = [None] * len(entries)
    uniq = {}
    for i, (bip, net, ordered) in enumerate(entries):
        if "cmd" not in bip:
            ctx.count("bip:graph not serialisable: " + str(bip.get("skip")))
            continue
        req = dict({k: v for k, v in bip.items() if k != "ids"}, cmd="bip.complexes")
        uniq.setdefault(json.dumps(req, sort_keys=True), (req, []))[1].append(i)
        ctx.count(f"bip:graphs serialised[{tag}]")
        ctx.count("bip:class=" + ("Multi" if bip["multi"] else "") + ("DiGraph" if bip["directed"] else "Graph"))
    if not uniq:
        return out
    keys = list(uniq)
    reps = ctx.lean().ok([uniq[k][0] for k in keys], shards=8)
    for k, rep in zip(keys, reps):
        req, idxs = uniq[k]
        if not rep["wfCore"]:
            ctx.count("bip:graph outside the hypotheses of the theorems (WF)", len(idxs))
        elif not rep["agrees"]:
            raise Infra("bip.complexes contradicts graphComplexes_eq / graphComplexesRaw_eq / graphSummary_eq on " + json.dumps(req)[:900])
        for i in idxs:
            if not view_matches(rep["view"], entries[i][1], entries[i][2]):
                raise Infra("netOfGraph (Lean model of the graph reading) differs from the network the case description stands for: "
                            + json.dumps({"view": rep["view"], "described": entries[i][1], "graph": req})[:1500])
        ctx.count("bip:netOfGraph = described network (self-test)", len(idxs))
    models = lean_models(ctx, [rep["view"] for rep in reps])
    if models is None:
        return None
    for k, rep in zip(keys, reps):
        m = models[json.dumps(rep["view"], sort_keys=True)]
        if ("error" in m) != ("error" in rep):
            raise Infra("bip.complexes and def.analyse disagree about the ValueError branch on " + json.dumps(uniq[k][0])[:900])
        if "error" not in m and rep["wfCore"] and (
                [tuple(c) for c in rep["complexes"]] != [tuple(c) for c in m["complexes"]] or rep["arcs"] != m["arcs"]
                or [tuple(c) for c in rep["raw_complexes"]] != [tuple(c) for c in m["complexes"]] or rep["raw_arcs"] != m["arcs"]):
            raise Infra("def.analyse on netOfGraph differs from the graph-level _complex_vectors model of bip.complexes on " + json.dumps(uniq[k][0])[:900])
        for i in uniq[k][1]:
            out[i] = m
    return out


def session_failure(ctx, sess):
    """-> (observation, message) of the first gated query whose answer violates the specification, else None."""
    try:
        obs = exec_session(sess)
    except Exception:  # noqa: BLE001 - an invalid candidate of the shrinker
        return None
    for ob in obs:
        if ob["enc"] is not None:
            return None
        msg = spec_check(ctx, ob["desc"], ob["impl"], linkage=ob["linkage"], numbers_first=True)
        if msg is not None:
            return ob, msg
    return None


def fmt_session(sess):
    lines = [f"{sess['kind']} network n0 = {{{netio.fmt(sess['init'])}}}" + (f" flavor={sess['flavor']}" if sess.get("flavor") else "")]
    for op in sess["steps"]:
        o = op["op"]
        if o == "an":
            lines.append(f"{op['name']} = DeficiencyAnalyzer({op['net']}) [{op.get('opt', 'default')}]")
        elif o == "q":
            lines.append(f"{op['an']}.{op['m']}()")
        elif o in ("add", "set"):
            lines.append(f"{op['net']}: {o} {netio.fmt({'reactions': [op['rxn']]})}")
        elif o == "rm":
            lines.append(f"{op['net']}: remove {op['id']}")
        elif o == "fork":
            lines.append(f"{op['as']} = copy of {op['net']}")
        else:
            lines.append(f"{op['net']}: {o} {op['sp']}")
    return lines


def shrink_session(ctx, sess):
    def fails_steps(steps):
        return session_failure(ctx, dict(sess, steps=steps)) is not None
    small = dict(sess, steps=shrink_seq(sess["steps"], fails_steps, budget=120))

    def fails_init(rs):
        return session_failure(ctx, dict(small, init=dict(small["init"], reactions=rs))) is not None
    small = dict(small, init=dict(small["init"], reactions=shrink_seq(small["init"]["reactions"], fails_init, budget=40)))
    if small.get("flavor") and session_failure(ctx, dict(small, flavor={})) is not None:
        small = dict(small, flavor={})
    for key in sorted(small.get("flavor") or {}):  # spelling options that do not matter for the failure
        fl = {k: v for k, v in small["flavor"].items() if k != key}
        if key != "oseed" and session_failure(ctx, dict(small, flavor=fl)) is not None:
            small = dict(small, flavor=fl)
    if (small.get("flavor") or {}).get("orient") == "rand":  # a fixed orientation reads better than a hash
        for o in ("s2r", "r2s", "flip"):
            fl = {k: v for k, v in small["flavor"].items() if k != "oseed"}
            fl["orient"] = o
            if session_failure(ctx, dict(small, flavor=fl)) is not None:
                small = dict(small, flavor=fl)
                break
    if small["init"].get("isolated") and session_failure(ctx, dict(small, init=dict(small["init"], isolated=[]))) is not None:
        small = dict(small, init=dict(small["init"], isolated=[]))
    return small


def run_sessions(ctx, sessions, tag):
    if not sessions or len(ctx.violations) >= 5:
        return
    runs = []
    for sess in sessions:
        obs = exec_session(sess)  # generated sessions are valid: an exception here is a harness defect
        runs.append((sess, obs))
        ctx.count(f"sessions[{tag}]")
        ctx.count(f"session:kind={sess['kind']}")
        if sess["kind"] == "bip":
            fl = sess.get("flavor") or {}
            ctx.count(f"session:bip:orient={fl.get('orient', 'conv')}")
            ctx.count(f"session:bip:graph={fl.get('gtype', 'DiGraph')}")
    models = lean_models(ctx, [ob["net"] for _, obs in runs for ob in obs])
    if models is None:
        return
    # bipartite sessions: the expected answer comes from the Lean model of the graph reading applied to the live graph
    gobs = [ob for _, obs in runs for ob in obs if ob.get("bip") is not None and ob["enc"] is None]
    gms = lean_graph_models(ctx, [(ob["bip"], ob["net"], True) for ob in gobs], tag)
    if gms is None:
        return
    for ob, gm in zip(gobs, gms):
        if gm is None:
            continue
        if canon(gm) != canon(models[json.dumps(ob["net"], sort_keys=True)]):
            raise Infra("the model of netOfGraph differs from the model of the described network although the networks agree: "
                        + json.dumps(ob["net"])[:900])
        ob["graph_model"] = gm
        ctx.count(f"bip:expected answer from the Lean model of the graph reading[{tag}]")
    for sess, obs in runs:
        for ob in obs:
            if ob["enc"] is not None:
                ctx.violation("network encoder and the implementation's bipartite view disagree in a session (harness assumption, not the property)",
                              {"session": sess}, {"detail": ob["enc"], "step": ob["step"]}, no_input=True)
                return
            model = ob.get("graph_model") or models[json.dumps(ob["net"], sort_keys=True)]
            ci, cm = canon(ob["impl"]), canon(model)
            ctx.count(f"session-queries[{tag}]")
            ctx.count(f"session:method={ob['m']}")
            ctx.count(f"session:opt={ob['opt']}")
            ctx.count("session:gate=" + ("summary+linkage" if ob["linkage"] else "summary"))
            if ob["reused"]:
                ctx.count("session:analyzer reused after an edit")
            if ob["same_shape"]:
                ctx.count("session:analyzer reused after an edit keeping (n_species, n_reactions)")
            if "error" in cm:
                ctx.count("session:error:ValueError")
            nontrivial = "error" not in cm and len(ob["net"]["reactions"]) >= 2 and cm["summary"]["n_complexes"] >= 3
            ctx.case(["c19-session", ob["kind"], sess.get("flavor"), ob["opt"], ob["m"], ob["reused"], ob["net"]], nontrivial,
                     sample={"stream": tag, "session": fmt_session(sess), "summary": cm.get("summary", cm)}
                     if ob["reused"] and len(sess["steps"]) <= 6 else None)
            df = diff(ci, cm, linkage=ob["linkage"])
            if df is None:
                continue
            msg = spec_check(ctx, ob["desc"], ob["impl"], linkage=ob["linkage"], numbers_first=True)
            if msg is None:
                ctx.violation("correspondence C19: impl and model differ in a session although the specification holds",
                              {"session": sess}, {"diff": df, "step": ob["step"], "stream": tag}, no_input=True)
            else:
                small = shrink_session(ctx, dict(sess, steps=sess["steps"][: ob["step"] + 1]))
                f = session_failure(ctx, small)
                fob = f[0] if f is not None else ob
                if f is None:
                    small = sess
                fmsg = spec_check(ctx, fob["desc"], fob["impl"], linkage=fob["linkage"])
                ctx.violation("complexes / linkage classes / weak reversibility / deficiency do not follow their definitions "
                              "(analyzer state after a sequence of edits and calls)", {"session": small},
                              {"spec": fmsg, "history": fmt_session(small), "failing_step": fob["step"],
                               "network_at_failing_step": netio.fmt(fob["desc"]) + "".join(f" (+ isolated species {s})" for s in fob["desc"]["isolated"] if s not in _used(fob["desc"])),
                               "impl": {k: (str(v) if k == "complexes" else v) for k, v in fob["impl"].items()},
                               "definition": {k: str(v) for k, v in oracle(fob["desc"]).items() if k not in ("arcs",)},
                               "stream": tag},
                              classes=("undirected-input-complex-vectors-doubled",) if fob.get("doubled") else ())
            break  # one report per session
        if len(ctx.violations) >= 5:
            return


# ---------------------------------------------------------------- session generators
LABEL_POOLS = [list("ABCD"), list("ABC"), list("ABCDEF"), ["S1", "S10", "S2", "s1", "T"], ["X", "Y"]]
FLAVORS = [{}, {}, {"mark": "kind"}, {"mark": "flag"}, {"float": True}, {"omit1": True}, {"intid": True},
           {"nolabel": True}, {"mark": "flag", "omit1": True, "float": True}, {"intid": True, "mark": "kind", "omit1": True}]


def rand_form(rnd, conventional=0.25):
    """Orientation / graph class of a bipartite input -> (flavor keys, simple undirected graph? i.e. no species on both
    sides of one reaction can be written)."""
    fl = {}
    if rnd.random() >= conventional:
        fl["orient"] = rnd.choice(["s2r", "s2r", "r2s", "flip", "rand", "rand"])
        if fl["orient"] == "rand":
            fl["oseed"] = rnd.randrange(1 << 30)
    g = rnd.choice(["DiGraph"] * 5 + ["MultiDiGraph"] * 2 + ["Graph"] * 2 + ["MultiGraph"])
    if g != "DiGraph":
        fl["gtype"] = g
    return fl, g == "Graph"


def decat(r):
    """The reaction without the product entries of species that are also reactants (what an undirected simple graph can hold)."""
    left = {s for s, _ in r["r"]}
    return dict(r, r=[list(e) for e in r["r"]], p=[list(e) for e in r["p"] if e[0] not in left])


def form_session(rnd, desc, form=None):
    """One network, written as a bipartite graph in one attribute spelling x orientation x graph class, analysed once
    (sometimes by a second analyzer with other options, or after a copy)."""
    fl, und = form if form is not None else rand_form(rnd, conventional=0.1)
    flavor = dict(rnd.choice(FLAVORS), **fl)
    rs = [_copy_rxn(r) for r in desc["reactions"]]
    if und:
        rs = [decat(r) for r in rs]
    opt = rnd.choice(["default"] * 4 + list(OPTS[1:]))
    steps = [{"op": "an", "name": "a0", "net": "n0", "opt": opt},
             {"op": "q", "an": "a0", "m": rnd.choice(["crn", "crn", "crn", "summary_linkage", "one", "crn_nd" if opt != "stoich_none" else "crn"])}]
    x = rnd.random()
    if x < 0.15:
        steps += [{"op": "an", "name": "a1", "net": "n0", "opt": rnd.choice(OPTS)}, {"op": "q", "an": "a1", "m": "crn"}]
    elif x < 0.25:
        steps += [{"op": "fork", "net": "n0", "as": "n1"}, {"op": "an", "name": "a1", "net": "n1", "opt": "default"}, {"op": "q", "an": "a1", "m": "crn"}]
    elif x < 0.35:
        steps.append({"op": "q", "an": "a0", "m": rnd.choice(["crn", "summary", "linkage", "peek"])})
    return {"kind": "bip", "flavor": flavor, "init": {"reactions": rs, "isolated": list(desc.get("isolated", []))}, "steps": steps}


def rand_side(rnd, sp, desc=None):
    if desc is not None and desc["reactions"] and rnd.random() < 0.4:  # an existing complex: linkage classes merge / split
        r = rnd.choice(desc["reactions"])
        return [list(e) for e in r[rnd.choice("rp")]]
    k = rnd.choice([0, 1, 1, 1, 2, 2, 3])
    return [[s, rnd.choice([1, 1, 1, 2, 3])] for s in rnd.sample(sp, min(k, len(sp)))]


def rand_rxn(rnd, sp, desc, rid):
    r, p = rand_side(rnd, sp, desc), rand_side(rnd, sp, desc)
    if not r and not p:
        p = [[rnd.choice(sp), 1]]
    return {"id": rid, "rule": rnd.choice(["r", "r", "R1"]), "r": r, "p": p}


def fresh_id(rnd, desc, k):
    ids = {r["id"] for r in desc["reactions"]}
    for cand in (f"r_{k}", f"x{k}", f"r_{k + 10}", f"a{k}"):
        if cand not in ids and rnd.random() < 0.6:
            return cand
    i = 0
    while f"e{i}" in ids:
        i += 1
    return f"e{i}"


def gen_edit(rnd, kind, desc, pool, k):
    """One edit (a list of ops without the "net" field) valid on `desc`; most keep (n_species, n_reactions)."""
    rs = desc["reactions"]
    used = sorted(_used(desc))
    present = sorted(set(used) | set(desc["isolated"]))
    choice = rnd.choice(["replace"] * 6 + ["reverse", "coef", "coef", "catalyst", "add", "add", "rm", "rm", "iso", "rmsp", "swap_id"])
    if not rs:
        choice = "add"
    if choice == "replace":
        r0 = rnd.choice(rs)
        sp = used if rnd.random() < 0.75 else pool
        if rnd.random() < 0.5:
            return [{"op": "set", "rxn": rand_rxn(rnd, sp, desc, r0["id"])}]
        new = rand_rxn(rnd, sp, desc, fresh_id(rnd, desc, k))
        ops = [{"op": "rm", "id": r0["id"]}, {"op": "add", "rxn": new}]
        return ops if rnd.random() < 0.7 else ops[::-1]
    if choice == "reverse":
        r0 = rnd.choice(rs)
        return [{"op": "set", "rxn": dict(_copy_rxn(r0), r=[list(e) for e in r0["p"]], p=[list(e) for e in r0["r"]])}]
    if choice == "coef":
        r0 = _copy_rxn(rnd.choice(rs))
        side = rnd.choice([s for s in ("r", "p") if r0[s]])
        ent = rnd.choice(r0[side])
        ent[1] = rnd.choice([c for c in (1, 2, 3) if c != ent[1]])
        return [{"op": "set", "rxn": r0}]
    if choice == "catalyst":  # same column of S, different complexes
        r0 = _copy_rxn(rnd.choice(rs))
        x = rnd.choice(present or pool)
        for side in ("r", "p"):
            ent = next((e for e in r0[side] if e[0] == x), None)
            if ent is None:
                r0[side].append([x, 1])
            else:
                ent[1] += 1
        return [{"op": "set", "rxn": r0}]
    if choice == "add":
        return [{"op": "add", "rxn": rand_rxn(rnd, pool if rnd.random() < 0.5 or not used else used, desc, fresh_id(rnd, desc, k))}]
    if choice == "rm":
        return [{"op": "rm", "id": rnd.choice(rs)["id"]}]
    if choice == "swap_id" and len(rs) >= 2:  # two reactions exchange their ids: same id set, same multiset of reactions
        a, b = rnd.sample(rs, 2)
        if kind == "hyper":
            return [{"op": "rm", "id": a["id"]}, {"op": "rm", "id": b["id"]}, {"op": "add", "rxn": dict(_copy_rxn(b), id=a["id"])},
                    {"op": "add", "rxn": dict(_copy_rxn(a), id=b["id"])}]
        return [{"op": "set", "rxn": dict(_copy_rxn(b), id=a["id"])}, {"op": "set", "rxn": dict(_copy_rxn(a), id=b["id"])}]
    if choice == "rmsp" and kind == "bip":
        free = [s for s in desc["isolated"] if s not in used]
        if free:
            return [{"op": "rmsp", "sp": rnd.choice(free)}]
    z = next((s for s in ["Z", "Q", "W"] + pool if s not in present), None)
    return [{"op": "iso", "sp": z}] if z is not None else [{"op": "rm", "id": rnd.choice(rs)["id"]}]


def random_init(rnd):
    """-> (description, label pool for later edits)"""
    if rnd.random() < 0.15:
        d = parse(rnd.choice(TEXTBOOK)[1])
        return {"reactions": d["reactions"], "isolated": []}, sorted(_used(d))
    pool = rnd.choice(LABEL_POOLS)
    d = {"reactions": [], "isolated": []}
    for i in range(rnd.choice([1, 2, 2, 2, 3, 3, 4])):
        d["reactions"].append(rand_rxn(rnd, pool, d, f"r_{i + 1}"))
    if rnd.random() < 0.1:
        d["isolated"] = ["Z"]
    return d, pool


def random_session(rnd):
    import copy

    kind = rnd.choice(["hyper", "hyper", "hyper", "bip", "bip"])
    init, pool = random_init(rnd)
    sess = {"kind": kind, "flavor": dict(rnd.choice(FLAVORS)) if kind == "bip" else {}, "init": init, "steps": []}
    und = False
    if kind == "bip":
        fl, und = rand_form(rnd, conventional=0.3)
        sess["flavor"].update(fl)
    if und:
        init["reactions"] = [decat(r) for r in init["reactions"]]
    shadow = {"n0": copy.deepcopy(init)}
    if kind == "bip":
        shadow["n0"]["isolated"] = sorted(set(init["isolated"]) | _used(init))
    ans = {}  # name -> (net, opt)
    steps = sess["steps"]

    def new_an(net):
        name = f"a{len(ans)}"
        opt = rnd.choice(["default"] * 5 + list(OPTS[1:]))
        ans[name] = (net, opt)
        steps.append({"op": "an", "name": name, "net": net, "opt": opt})
        return name

    def query(name, m=None):
        opt = ans[name][1]
        if m is None:
            m = rnd.choice(["crn"] * 8 + ["summary"] * 3 + ["summary_linkage"] * 2 + ["linkage", "linkage", "one", "one", "peek", "peek", "crn_nd"])
        if m == "crn_nd" and opt == "stoich_none":
            m = "crn"
        steps.append({"op": "q", "an": name, "m": m})

    if rnd.random() < 0.85:
        query(new_an("n0"), rnd.choice(["crn", "crn", "crn", "summary", "summary_linkage", "one", "linkage"]))
    k = 0
    for _ in range(rnd.choice([1, 2, 3, 3, 4, 5, 6, 8])):
        x = rnd.random()
        net = rnd.choice(sorted(shadow))
        if x < 0.45 or not ans:
            k += 1
            for op in gen_edit(rnd, kind, shadow[net], pool, k):
                op = dict(op, net=net)
                if und and "rxn" in op:
                    op["rxn"] = decat(op["rxn"])
                apply_desc(kind, shadow[net], op)
                steps.append(op)
            if not ans or rnd.random() < 0.15:
                new_an(net)
            # the edit is looked at by somebody most of the time
            cands = [a for a, (n, _) in ans.items() if n == net]
            if cands and rnd.random() < 0.8:
                query(rnd.choice(cands))
        elif x < 0.8:
            query(rnd.choice(sorted(ans)))
        elif x < 0.9:
            query(new_an(net))
        elif len(shadow) < 3:
            name = f"n{len(shadow)}"
            shadow[name] = copy.deepcopy(shadow[net])
            steps.append({"op": "fork", "net": net, "as": name})
            if rnd.random() < 0.7:
                query(new_an(name))
    for a in sorted(ans):  # every analyzer is asked for the full analysis of what its network has become
        if rnd.random() < 0.9:
            query(a, "crn")
    return sess


def replace_session(rnd, full, small):
    """Fixed form: analyse {x, y}, turn the network into {x, z} (same id or a new one), analyse again with the same
    analyzer; x, y, z from the exhaustive 3-species reaction tables, so (n_species, n_reactions) often stays."""
    tab = small if rnd.random() < 0.7 else full
    x, y, z = (dict(tab[i]) for i in rnd.sample(range(len(tab)), 3))
    kind = rnd.choice(["hyper", "bip"])
    init = {"reactions": with_ids([x, y]), "isolated": []}
    rid = rnd.choice(["r_2", "r_2", "r_3", "r_0"])
    new = {"id": rid, "rule": "r", "r": z["r"], "p": z["p"]}
    edit = [{"op": "set", "net": "n0", "rxn": new}] if rid == "r_2" else [{"op": "rm", "net": "n0", "id": "r_2"}, {"op": "add", "net": "n0", "rxn": new}]
    first = rnd.choice(["crn", "crn", "summary", "summary_linkage", "one"])
    second = rnd.choice(["crn", "crn", "crn", "summary", "summary_linkage"])
    flavor = {}
    if kind == "bip":
        flavor, und = rand_form(rnd, conventional=0.4)
        if und:
            init["reactions"] = [decat(r) for r in init["reactions"]]
            new = decat(new)
            edit = [dict(op, rxn=new) if "rxn" in op else op for op in edit]
    return {"kind": kind, "flavor": flavor, "init": init,
            "steps": [{"op": "an", "name": "a0", "net": "n0", "opt": "default"}, {"op": "q", "an": "a0", "m": first}] + edit
            + [{"op": "q", "an": "a0", "m": second}, {"op": "q", "an": "a0", "m": "crn"}]}


# ================================================================ helpers called directly / exporter graphs / foreign nodes
# A "direct" case is a replayable JSON value:
#   {"desc": description, "source": "net" | "export", "flavor": {...} (source net: attribute spelling, orientation,
#    graph class as in the sessions), "export": {...keyword options of hypergraph_to_bipartite...}, "wrap": graph
#    class the exported DiGraph is rewritten into (source export), "junk": None | {"nodes": [[name, attrs]],
#    "edges": [[end, end, attrs]]} with end = ["R", k] (k-th reaction node) | ["S", k] (k-th species node) |
#    ["J", name], "opt": analyzer option, "iter": how a linkage class is handed to _linkage_class_stoich_rank}
# What is compared (expected values: the Lean model `def.analyse` of the network; classification by `oracle`):
#   A  `an._complex_vectors(G)` on the graph AS GIVEN (an undirected Graph / MultiGraph reaches the helper's own
#      undirected branch, which compute_summary never does because `_as_bipartite` hands it a directed graph):
#      complex list (no duplicates, idx_map consistent), complex graph, its components, and
#      `DeficiencyAnalyzer._is_weakly_reversible(CG)`;
#   B  the full analysis compute_crn_deficiency() (new here: graphs written by the library's own exporter with
#      non-default options, rewritten into the four NetworkX classes);
#   C  `an._linkage_class_stoich_rank(C)` for every linkage class C, handed over as list / set / tuple / generator /
#      reversed list (the parameter is documented as an Iterable): s_l = n_l - 1 - delta_l of the model (delta_l
#      from exact ranks); the empty class: 0 (rank of an empty family) or an exception; on a fresh analyzer:
#      an exception (documented RuntimeError) or the right rank - never another number.
# Graphs with "junk" (nodes that are neither species nor reaction, arcs that do not join a species to a reaction -
# what stoich.build_S_minus_plus documents as ignored and `_complex_vectors` skips): the network is the
# species/reaction part; an analyzer may refuse such a graph (any exception: counted, nothing demanded), but an
# answer must be the answer for the network.
ITERS = ("list", "set", "tuple", "gen", "reversed")
EXPORT_KEYS = ("integer_ids", "species_prefix", "reaction_prefix", "include_edge_id_attr", "include_isolated_species", "include_mol")


def _node_kind(attrs):
    """species / reaction / None by the documented marks (own reading, not the library's)."""
    if attrs.get("kind") == "species" or attrs.get("bipartite", None) == 0:
        return "species"
    if attrs.get("kind") == "reaction" or attrs.get("bipartite", None) == 1:
        return "reaction"
    return None


def read_graph(G):
    """The network a bipartite graph spells, read off with plain NetworkX calls: (sorted species labels,
    [[sorted reactants, sorted products]] per reaction node in node order) or a message."""
    sp = {n: str(a.get("label", n)) for n, a in G.nodes(data=True) if _node_kind(a) == "species"}
    out = []
    for n, a in G.nodes(data=True):
        if _node_kind(a) != "reaction":
            continue
        inc = (list(G.in_edges(n, data=True)) + list(G.out_edges(n, data=True))) if G.is_directed() else list(G.edges(n, data=True))
        inc = [(v if u == n else u, d) for u, v, d in inc]
        inc = [(x, d) for x, d in inc if x in sp]
        if any(d.get("role") not in ("reactant", "product") for _, d in inc):
            return None, f"arc without a role at reaction node {n!r}"
        out.append([sorted([sp[x], int(d.get("stoich", 1))] for x, d in inc if d["role"] == "reactant"),
                    sorted([sp[x], int(d.get("stoich", 1))] for x, d in inc if d["role"] == "product")])
    return (sorted(sp.values()), out), None


def build_direct(dc):
    """-> (graph as handed to the analyzer, network JSON for the model, description for the oracle, encoding message)."""
    import networkx as nx

    desc = {"reactions": [_copy_rxn(r) for r in dc["desc"]["reactions"]], "isolated": list(dc["desc"].get("isolated", []))}
    if dc["source"] == "net":
        n = _Net("bip", dc.get("flavor"))
        for r in desc["reactions"]:
            n.edit({"op": "add", "rxn": r})
        for s in desc["isolated"]:
            if s not in n.desc["isolated"] and s not in _used(n.desc):
                n.edit({"op": "iso", "sp": s})
        G, net, odesc = n.obj, n.net_json(), n.desc
    elif dc["source"] == "export":
        from synkit.CRN.Hypergraph.conversion import hypergraph_to_bipartite
        opts = dict(dc.get("export") or {})
        if set(opts) - set(EXPORT_KEYS) or dc.get("wrap", "DiGraph") not in GTYPES:
            raise InvalidSession("exporter option / graph class")
        if not netio.well_formed(desc):
            raise InvalidSession("malformed network")
        D = hypergraph_to_bipartite(netio.to_hypergraph(desc), **opts)
        odesc = dict(desc, isolated=[] if opts.get("include_isolated_species") is False else desc["isolated"])
        net = netio.to_net_json(odesc)
        w = dc.get("wrap", "DiGraph")
        if w == "DiGraph":
            G = D
        else:  # the same nodes and arcs (with their attributes), one edge per arc, in another NetworkX class
            if w == "Graph" and any({s for s, _ in r["r"]} & {s for s, _ in r["p"]} for r in net["reactions"]):
                raise InvalidSession("an undirected simple graph cannot hold a species on both sides of one reaction")
            G = getattr(nx, w)()
            G.add_nodes_from(D.nodes(data=True))
            G.add_edges_from(D.edges(data=True))
    else:
        raise InvalidSession("unknown source")
    got, msg = read_graph(G)
    if msg is None:
        want = (net["species"], [[sorted(r["r"]), sorted(r["p"])] for r in net["reactions"]])
        if got[0] != want[0] or (got[1] != want[1] if dc["source"] == "net" else sorted(got[1]) != sorted(want[1])):
            msg = f"graph spells {got}, description says {want}"
    junk = dc.get("junk")
    if junk:
        G = G.copy()
        spn = [n for n, a in G.nodes(data=True) if _node_kind(a) == "species"]
        rn = [n for n, a in G.nodes(data=True) if _node_kind(a) == "reaction"]
        names = {}
        for name, attrs in junk["nodes"]:
            if _node_kind(attrs) is not None or name in G:
                raise InvalidSession("junk node")
            names[name] = name
            G.add_node(name, **attrs)

        def end(e):
            t, k = e
            if t == "J":
                return names[k]
            pool = rn if t == "R" else spn
            if not pool:
                raise InvalidSession("junk end")
            return pool[int(k) % len(pool)]
        for a, b, attrs in junk["edges"]:
            if {a[0], b[0]} == {"R", "S"}:
                raise InvalidSession("a species-reaction arc is not junk")
            u, v = end(a), end(b)
            if u == v or (not G.is_multigraph() and (G.has_edge(u, v) or G.has_edge(v, u))):
                continue
            G.add_edge(u, v, **attrs)
    return G, net, odesc, msg


def _components(CG):
    import networkx as nx
    return [sorted(int(x) for x in c) for c in nx.connected_components(CG.to_undirected())]


def exec_direct(dc):
    """Run one direct case against the implementation -> observation dict (see the block comment above)."""
    from synkit.CRN.Props.deficiency import DeficiencyAnalyzer

    G, net, odesc, enc = build_direct(dc)
    junk = bool(dc.get("junk"))
    from .c17 import bip_request
    ob = {"net": net, "desc": odesc, "enc": enc, "junk": junk, "opt": dc.get("opt", "default"), "undirected": not G.is_directed(), "multi": G.is_multigraph(),
          "bip": bip_request(G)}
    opt = dc.get("opt", "default")
    # A: the helper on the graph as given
    try:
        an = _make_analyzer(G, opt)
        cs, idx, CG = an._complex_vectors(G)
        cs = [tuple(int(x) for x in c) for c in cs]
        ob["A"] = {"complexes": cs, "arcs": sorted([int(u), int(v)] for u, v in CG.edges()), "nodes": sorted(int(x) for x in CG.nodes()),
                   "classes": _components(CG), "weakly_reversible": bool(DeficiencyAnalyzer._is_weakly_reversible(CG)),
                   "idx_ok": len(idx) == len(cs) and all(idx.get(c) == k for k, c in enumerate(cs))}
    except Exception as e:  # noqa: BLE001 - any exception is an observation
        ob["A"] = {"error": type(e).__name__}
    # B: the full analysis
    an = _make_analyzer(G, opt)
    try:
        an.compute_crn_deficiency()
        ob["B"] = observe(an)
    except Exception as e:  # noqa: BLE001
        ob["B"] = {"error": type(e).__name__}
        return ob
    # C: per-class rank helper, same analyzer, classes of its own complex graph
    how = dc.get("iter", "list")
    if how not in ITERS:
        raise InvalidSession("iter")

    def hand(C):
        C = [int(x) for x in C]
        return {"list": C, "set": set(C), "tuple": tuple(C), "gen": (x for x in C), "reversed": list(reversed(C))}[how]
    ranks = []
    for C in ob["B"]["classes"]:
        try:
            ranks.append(int(an._linkage_class_stoich_rank(hand(C))))
        except Exception as e:  # noqa: BLE001
            ranks.append(type(e).__name__)
    try:
        empty = int(an._linkage_class_stoich_rank(hand([])))
    except Exception as e:  # noqa: BLE001
        empty = type(e).__name__
    fresh = None
    if ob["B"]["classes"]:
        try:
            fresh = int(_make_analyzer(G, opt)._linkage_class_stoich_rank(hand(ob["B"]["classes"][0])))
        except Exception as e:  # noqa: BLE001
            fresh = type(e).__name__
    ob["C"] = {"ranks": ranks, "empty": empty, "fresh": fresh}
    return ob


def direct_check(ob, want):
    """-> None or a message.  `want`: the definition's answer in canon() form keyed by content, i.e.
    {"error": ...} or {"complexes": sorted vectors, "arcs": sorted pairs, "classes": sorted classes,
    "weakly_reversible", "summary", "linkage": [(class, delta_l)], "full": canon dict for diff()}."""
    junk = ob["junk"]
    A, B = ob["A"], ob["B"]
    # ---- A
    if "error" in A:
        if not junk and A["error"] != want.get("error"):
            return f"_complex_vectors on the graph as given raised {A['error']}, the definition gives {want.get('error', 'a result')}"
    elif "error" in want:
        return f"_complex_vectors on the graph as given returned complexes {A['complexes']}, the definition gives {want['error']}"
    else:
        cs = A["complexes"]
        if len(set(cs)) != len(cs) or not A["idx_ok"] or A["nodes"] != list(range(len(cs))):
            return f"_complex_vectors: complex list {cs} with duplicates / index map or complex-graph nodes {A['nodes']} inconsistent with it"
        if sorted(cs) != want["complexes"]:
            return f"_complex_vectors on the graph as given: complexes {sorted(cs)}, the definition gives {want['complexes']}"
        if sorted((cs[u], cs[v]) for u, v in A["arcs"]) != want["arcs"]:
            return f"_complex_vectors on the graph as given: complex-graph arcs {sorted((cs[u], cs[v]) for u, v in A['arcs'])}, the definition gives {want['arcs']}"
        if sorted(sorted(cs[i] for i in C) for C in A["classes"]) != want["classes"]:
            return "_complex_vectors on the graph as given: components of the complex graph are not the linkage classes"
        if A["weakly_reversible"] != want["weakly_reversible"]:
            return f"_is_weakly_reversible(complex graph) = {A['weakly_reversible']}, the definition gives {want['weakly_reversible']}"
    # ---- B
    if "error" in B:
        if not junk and B["error"] != want.get("error"):
            return f"compute_crn_deficiency raised {B['error']}, the definition gives {want.get('error', 'a result')}"
        return None
    if "error" in want:
        return f"compute_crn_deficiency returned {B['summary']}, the definition gives {want['error']}"
    cb = canon(B)
    if ob.get("opt") == "rank_none":
        # rank_fn=None: the analyzer is told not to compute a rank; what C19 says about the rank is not demanded, the formula
        # is (with the rank as reported), and every other quantity is compared as usual
        s = B["summary"]
        if s["deficiency"] != s["n_complexes"] - s["n_linkage_classes"] - s["stoich_rank"]:
            return f"rank_fn=None: deficiency {s['deficiency']} != n_complexes - n_linkage_classes - reported rank ({s})"
        r = want["summary"]["stoich_rank"]
        cb = dict(cb, summary=dict(cb["summary"], stoich_rank=r, deficiency=s["n_complexes"] - s["n_linkage_classes"] - r))
    df = diff(cb, want["full"])
    if df is not None:
        return "compute_crn_deficiency: " + df
    # ---- C
    cs = B["complexes"]
    dl = {tuple(C): d for C, d in want["linkage"]}
    exp = []
    for C in B["classes"]:
        key = tuple(sorted(cs[i] for i in C))
        exp.append(len(C) - 1 - dl[key])
    Cc = ob["C"]
    if Cc["ranks"] != exp:
        return f"_linkage_class_stoich_rank per linkage class = {Cc['ranks']}, exact ranks of the class difference vectors = {exp}"
    if isinstance(Cc["empty"], int) and Cc["empty"] != 0:
        return f"_linkage_class_stoich_rank(empty class) = {Cc['empty']}, the rank of an empty family is 0"
    if isinstance(Cc["fresh"], int) and Cc["fresh"] != exp[0]:
        return f"_linkage_class_stoich_rank on an analyzer that has computed nothing returned {Cc['fresh']} (exact rank {exp[0]})"
    return None


def want_from_model(model):
    if "error" in model:
        return {"error": model["error"]}
    cm = canon(model)
    return {"complexes": cm["complexes"], "arcs": cm["arcs"], "classes": cm["classes"], "weakly_reversible": cm["summary"]["weakly_reversible"],
            "summary": cm["summary"], "linkage": cm["linkage"], "full": cm}


def want_from_oracle(desc):
    """The same shape from the definition oracle (classification and shrinking only; exact ranks, no Lean)."""
    o = oracle(desc)
    if "error" in o:
        return o
    summ = {k: o[k] for k in ("n_species", "n_reactions", "n_complexes", "n_linkage_classes", "stoich_rank", "deficiency", "weakly_reversible")}
    link = sorted((sorted(C), d) for C, d in o["linkage"].items())
    full = {"complexes": sorted(o["complexes"]), "dup": False, "arcs": sorted(o["arcs"]), "classes": sorted(sorted(C) for C in o["classes"]),
            "summary": summ, "as_dict_summary": True, "as_dict_linkage": True, "linkage": link}
    return {"complexes": full["complexes"], "arcs": full["arcs"], "classes": full["classes"], "weakly_reversible": o["weakly_reversible"],
            "summary": summ, "linkage": link, "full": full}


def direct_failure(dc):
    """-> message when the implementation's answers on this direct case violate the definitions (oracle), else None."""
    try:
        ob = exec_direct(dc)
    except Exception:  # noqa: BLE001 - an invalid candidate of the shrinker
        return None
    if ob["enc"] is not None:
        return None
    return direct_check(ob, want_from_oracle(ob["desc"]))


def shrink_direct(dc):
    def fails(rs):
        return bool(rs) and direct_failure(dict(dc, desc=dict(dc["desc"], reactions=rs))) is not None
    small = dict(dc, desc=dict(dc["desc"], reactions=shrink_seq(dc["desc"]["reactions"], fails, budget=60)))
    for key, val in (("junk", None), ("flavor", {}), ("export", {}), ("wrap", "DiGraph"), ("opt", "default"), ("iter", "list")):
        if small.get(key) not in (None, val):
            cand = dict(small, **{key: val})
            if direct_failure(cand) is not None:
                small = cand
    for key in sorted(small.get("flavor") or {}):
        fl = {k: v for k, v in small["flavor"].items() if k != key}
        if key != "oseed" and direct_failure(dict(small, flavor=fl)) is not None:
            small = dict(small, flavor=fl)
    if small.get("junk"):
        def fails_junk(es):
            return direct_failure(dict(small, junk=dict(small["junk"], edges=es))) is not None
        es = shrink_seq(small["junk"]["edges"], fails_junk, budget=30)
        names = {e[1] for a, b, _ in es for e in (a, b) if e[0] == "J"}
        small = dict(small, junk={"nodes": [n for n in small["junk"]["nodes"] if n[0] in names], "edges": es})
    if small["desc"].get("isolated") and direct_failure(dict(small, desc=dict(small["desc"], isolated=[]))) is not None:
        small = dict(small, desc=dict(small["desc"], isolated=[]))
    return small


def fmt_direct(dc):
    if dc["source"] == "net":
        how = f"hand-built bipartite graph, flavor={dc.get('flavor') or {}}"
    else:
        how = f"hypergraph_to_bipartite(H, {dc.get('export') or {}}) rewritten as {dc.get('wrap', 'DiGraph')}"
    return [f"network {{{netio.fmt(dc['desc'])}}}" + "".join(f" (+ isolated species {s})" for s in dc["desc"].get("isolated", [])), how]\
        + ([f"foreign nodes {dc['junk']['nodes']}, foreign arcs {dc['junk']['edges']}"] if dc.get("junk") else [])\
        + [f"analyzer option {dc.get('opt', 'default')}; linkage classes handed to _linkage_class_stoich_rank as {dc.get('iter', 'list')}"]


def run_direct(ctx, dcs, tag):
    if not dcs or len(ctx.violations) >= 5:
        return
    obs = [exec_direct(dc) for dc in dcs]  # generated cases are valid: an exception here is a harness defect
    models = lean_models(ctx, [ob["net"] for ob in obs])
    if models is None:
        return
    # the expected answer comes from the Lean model of the graph reading applied to the graph handed over (foreign nodes / arcs included)
    gobs = [(dc, ob) for dc, ob in zip(dcs, obs) if ob["enc"] is None]
    gms = lean_graph_models(ctx, [(ob["bip"], ob["net"], dc["source"] == "net") for dc, ob in gobs], tag)
    if gms is None:
        return
    for (dc, ob), gm in zip(gobs, gms):
        if gm is None:
            continue
        if canon(gm) != canon(models[json.dumps(ob["net"], sort_keys=True)]):
            raise Infra("the model of netOfGraph differs from the model of the described network although the networks agree: "
                        + json.dumps(ob["net"])[:900])
        ob["graph_model"] = gm
        ctx.count(f"bip:expected answer from the Lean model of the graph reading[{tag}]")
    for dc, ob in zip(dcs, obs):
        if ob["enc"] is not None:
            ctx.violation("network description and the bipartite graph built from it disagree (harness assumption, not the property)",
                          {"direct": dc}, {"detail": ob["enc"]}, no_input=True)
            return
        model = ob.get("graph_model") or models[json.dumps(ob["net"], sort_keys=True)]
        want = want_from_model(model)
        ctx.count(f"direct[{tag}]")
        ctx.count(f"direct:source={dc['source']}")
        gt = (dc.get("flavor") or {}).get("gtype", "DiGraph") if dc["source"] == "net" else dc.get("wrap", "DiGraph")
        ctx.count(f"direct:graph={gt}")
        if dc["source"] == "net":
            ctx.count(f"direct:orient={(dc.get('flavor') or {}).get('orient', 'conv')}")
        else:
            for k, v in sorted((dc.get("export") or {}).items()):
                ctx.count(f"direct:export:{k}={v}")
        ctx.count(f"direct:iter={dc.get('iter', 'list')}")
        ctx.count(f"direct:opt={dc.get('opt', 'default')}")
        if ob["undirected"]:
            ctx.count("direct:_complex_vectors handed an undirected graph")
        if "error" in want:
            ctx.count("direct:error:ValueError")
        if ob["junk"]:
            ctx.count("direct:junk")
            ctx.count("direct:junk:" + ("refused" if "error" in ob["B"] and "error" not in want else "answered"))
        if "C" in ob:
            ctx.count("direct:empty class -> " + ("0" if ob["C"]["empty"] == 0 else str(ob["C"]["empty"])))
            if ob["C"]["fresh"] is not None:
                ctx.count("direct:fresh analyzer -> " + ("a rank" if isinstance(ob["C"]["fresh"], int) else str(ob["C"]["fresh"])))
            ctx.count("direct:linkage classes handed to the rank helper", len(ob["C"]["ranks"]))
        nontrivial = "error" not in want and len(ob["net"]["reactions"]) >= 2 and want["summary"]["n_complexes"] >= 3
        ctx.case(["c19-direct", dc], nontrivial,
                 sample={"stream": tag, "direct": fmt_direct(dc), "summary": want.get("summary", want)}
                 if (ob["undirected"] or ob["junk"]) and len(dc["desc"]["reactions"]) <= 2 else None)
        msg = direct_check(ob, want)
        if msg is None:
            continue
        omsg = direct_check(ob, want_from_oracle(ob["desc"]))
        if omsg is None:
            ctx.violation("correspondence C19: impl and model differ on a direct case although the definition oracle accepts the answer",
                          {"direct": dc}, {"diff": msg, "stream": tag}, no_input=True)
        else:
            small = shrink_direct(dc)
            smsg = direct_failure(small)
            if smsg is None:
                small, smsg = dc, omsg
            sob = exec_direct(small)
            ctx.violation("complexes / linkage classes / weak reversibility / deficiency do not follow their definitions "
                          "(helper called directly, exporter graph, or graph with foreign nodes)", {"direct": small},
                          {"spec": smsg, "input": fmt_direct(small),
                           "impl": {k: ({kk: (str(vv) if kk == "complexes" else vv) for kk, vv in v.items()} if isinstance(v, dict) else v)
                                    for k, v in sob.items() if k in ("A", "B", "C")},
                           "definition": {k: str(v) for k, v in oracle(sob["desc"]).items() if k not in ("arcs",)}, "stream": tag},
                          classes=("undirected-input-complex-vectors-doubled",)
                          if sob["undirected"] and "error" not in sob["B"] and undouble(sob["B"], sob["desc"])[1] else ())
        if len(ctx.violations) >= 5:
            return


JUNK_ATTRS = [{}, {"kind": "rule"}, {"bipartite": 2}, {"label": "A"}, {"kind": "note", "label": "n"}]


def rand_junk(rnd, n_reactions):
    """Foreign nodes / arcs: 1-2 nodes that are neither species nor reaction, each tied to 1-2 reaction nodes by arcs that
    carry a role and a coefficient (either direction); sometimes an arc between two reaction nodes, between two species."""
    nodes, edges = [], []
    for k in range(rnd.choice([1, 1, 2])):
        name = f"J{k}"
        nodes.append([name, dict(rnd.choice(JUNK_ATTRS))])
        for _ in range(rnd.choice([1, 1, 2])):
            a, b = ["J", name], ["R", rnd.randrange(max(n_reactions, 1))]
            if rnd.random() < 0.5:
                a, b = b, a
            edges.append([a, b, {"role": rnd.choice(["reactant", "product"]), **({"stoich": rnd.choice([1, 2, 3])} if rnd.random() < 0.7 else {})}])
    if n_reactions >= 2 and rnd.random() < 0.4:
        i, j = rnd.sample(range(n_reactions), 2)
        edges.append([["R", i], ["R", j], {"role": rnd.choice(["reactant", "product"]), "stoich": 2}])
    if rnd.random() < 0.3:
        edges.append([["S", rnd.randrange(6)], ["S", rnd.randrange(6)], rnd.choice([{}, {"role": "product"}])])
    return {"nodes": nodes, "edges": edges}


def direct_case(rnd, desc, source=None, gtype=None, junk=None):
    """One direct case for the network `desc`: source net (hand-built, random spelling x orientation) or export (the
    library's exporter with random options), graph class `gtype` (random: DiGraph 2 : MultiDiGraph 1 : Graph 3 : MultiGraph 2)."""
    source = source or rnd.choice(["net", "net", "export"])
    g = gtype or rnd.choice(["DiGraph"] * 2 + ["MultiDiGraph"] + ["Graph"] * 3 + ["MultiGraph"] * 2)
    rs = [_copy_rxn(r) for r in desc["reactions"]]
    if g == "Graph":
        rs = [decat(r) for r in rs]
    dc = {"desc": {"reactions": rs, "isolated": list(desc.get("isolated", []))}, "source": source,
          "opt": rnd.choice(["default"] * 4 + list(OPTS[1:]) + ["rank_none"]), "iter": rnd.choice(ITERS)}
    if source == "net":
        fl = dict(rnd.choice(FLAVORS))
        o = rnd.choice(["conv", "s2r", "r2s", "flip", "rand"])
        if o != "conv":
            fl["orient"] = o
        if o == "rand":
            fl["oseed"] = rnd.randrange(1 << 30)
        if g != "DiGraph":
            fl["gtype"] = g
        dc["flavor"] = fl
    else:
        if not netio.well_formed(dc["desc"]) or any(not r["r"] and not r["p"] for r in netio.reactions_of(dc["desc"])):
            return direct_case(rnd, desc, "net", g, junk)
        ex = {}
        if rnd.random() < 0.7:
            ex["integer_ids"] = rnd.random() < 0.4
        labels = _used(dc["desc"]) | set(dc["desc"]["isolated"])
        ids = {r["id"] for r in rs}
        if not ex.get("integer_ids", False):
            for key, alt in (("species_prefix", "sp_"), ("reaction_prefix", "rx_")):
                x = rnd.random()
                if x < 0.25:
                    ex[key] = None
                elif x < 0.4:
                    ex[key] = alt
            spn = {(ex.get("species_prefix", "S:") or "") + s for s in labels}
            if spn & {(ex.get("reaction_prefix", "R:") or "") + i for i in ids}:  # node names would collide
                ex.pop("species_prefix", None)
                ex.pop("reaction_prefix", None)
        for k in ("include_edge_id_attr", "include_mol"):
            if rnd.random() < 0.3:
                ex[k] = True
        if rnd.random() < 0.3:
            ex["include_isolated_species"] = rnd.random() < 0.5
        dc["export"], dc["wrap"] = ex, g
    if junk is None:
        junk = rnd.random() < 0.25
    if junk and rs:
        dc["junk"] = rand_junk(rnd, len(rs))
    return dc


def load_regress():
    d = ROOT / "regress" / "C19"
    return [json.loads(f.read_text()) for f in sorted(d.glob("*.json"))] if d.exists() else []


def run(ctx):
    ctx.trusted = [
        "Lean 4.33 kernel; axioms of the property theorems as listed in obligation_list",
        "hand-written model SynKitModel/Deficiency.lean (+ Net.lean, NetGraphAlg.lean) tied to /repo by this correspondence run (not by translation)",
        "Driver/Deficiency.lean, Driver/NetJson.lean codecs; harness/netio.py encoder (checked against the bipartite view on every case); "
        "exact rational rank (fractions) in harness/props/c19.py; NumPy matrix_rank only as the implementation's own number, compared with the exact rank",
        "modelled: _complex_vectors, compute_summary, _is_weakly_reversible, _linkage_class_stoich_rank (its column set), compute_linkage_deficiencies; "
        "not modelled: deficiency-zero/one checks built on these numbers, regularity, nondegeneracy test",
        "sessions: the harness's own bookkeeping of the edited network (apply_desc; checked against the implementation's bipartite view of the "
        "live object at every gated query) and of which analyzer state the call protocol makes current (summary gated when the last successful "
        "compute_summary ran on the current network version, per-class list when the last compute_linkage_deficiencies used that complex graph)",
        "direct stream: harness/props/c19.py read_graph (the network a bipartite graph spells, read with plain NetworkX calls, compared with the "
        "description on every case); hypergraph_to_bipartite only as a producer of input graphs (what it wrote is read back by read_graph)",
        "graph inputs (bipartite sessions, direct stream): hand-written model SynKitModel/BipGraph.lean + BipGraphViews.lean of the graph reading "
        "(_as_bipartite, _split_species_reactions, _species_order, _complex_vectors on _as_bipartite(G) and on the graph as given), "
        "Driver/BipGraph.lean (bip.complexes), the serialiser c17.bip_request; the expected answer is def.analyse of the network that model reads "
        "off the live graph, which is asserted to be the described network (self-test)",
    ]
    ctx.assumptions = [
        "the network is given as a CRNHyperGraph (distinct species labels, distinct reaction ids, positive integer coefficients) or as a "
        "bipartite NetworkX graph with the documented node (`kind` / `bipartite`, `label`) and arc (`role`, `stoich`) attributes; arc direction is "
        "not part of that convention",
        "delta >= 0 and sum(delta_l) <= delta are stated in Props/C19.lean `FullStatement` but not proved (they need a Matrix.rank argument); "
        "they are CHECKED with exact ranks on every generated case",
        "direct stream: the docstring signatures of the anchored helpers are taken as their contract - `_complex_vectors(G: networkx.Graph)` on a "
        "bipartite graph of any NetworkX class as given (not only on what `_as_bipartite` returns), `_linkage_class_stoich_rank(linkage_class: "
        "Iterable[int])` on any iterable of the indices of a linkage class; for the empty class and for an analyzer that has computed nothing an "
        "exception is accepted, a number must be the exact rank (0 for the empty class)",
        "direct stream, graphs with foreign nodes / arcs (a node that is neither species nor reaction, an arc that does not join a species to a "
        "reaction): the network is the species/reaction part (the convention written in stoich.build_S_minus_plus: such edges are ignored); an "
        "analyzer that refuses such a graph with any exception is accepted, an answer must be the answer for that network",
        "direct stream, analyzer option rank_fn=None (the caller switches the rank computation off; the code reports stoich_rank = 0 and "
        "deficiency = n_complexes - n_linkage_classes): the reported rank is not compared with the exact rank; demanded are deficiency = "
        "n_complexes - n_linkage_classes - reported rank and every other quantity as usual",
    ]
    ctx.gen_rule = (
        "regression corpus first; textbook networks with known deficiency (A+B<->C: 0, Edelstein: 1, futile cycles: 1 and 2, Michaelis-Menten, "
        "3-cycle, Lotka-Volterra, a two-class deficiency-one network); ALL networks over {A,B,C} with one reaction with coefficients in {0,1,2} (728); "
        "quick: all unordered pairs of reactions whose sides have coefficient sum <= 2 (4851) + 3000 random pairs from the full space; thorough: "
        "all unordered pairs from the full {0,1,2} space up to species permutation, and 25000 random triples; random networks <= 6 species / "
        "<= 7 reactions with shared complexes, catalysts, empty sides, reverse reactions, isolated species, coefficients <= 3. "
        "Sessions: (session-replace, 300 quick / 4000 thorough) analyse {x, y}, replace y by z in place (same id or a new id), analyse again "
        "with the same analyzer, x, y, z from the 3-species tables, hypergraph or bipartite DiGraph; (session-random, 500 / 6000) 1-4 initial "
        "reactions or a textbook network, 1-8 rounds of {edit (replace / reverse / coefficient / catalyst / add / remove / isolated species / "
        "exchange ids), query (crn 8 : summary 3 : summary+linkage 2 : linkage 2 : deficiency-one 2 : accessors 2 : crn+nondegeneracy 1), new "
        "analyzer with options default 5 : stoich_fn=None : stoich_fn returning lists : custom rank_fn, copy of the network}, final full analysis "
        "by every analyzer; 40 % bipartite graphs in 10 attribute spellings; label pools incl. S1/S10/S2/s1. One case = one gated query. "
        "Bipartite inputs (stream bip-forms and every bipartite session): arc orientation conventional / all species->reaction / all "
        "reaction->species / all flipped / per-arc pseudo-random, held in a DiGraph 5 : MultiDiGraph 2 : Graph 2 : MultiGraph 1 (the simple "
        "undirected Graph without a species on both sides of one reaction; in a MultiGraph such a species is two parallel edges); bip-forms = every textbook network in all 20 orientation x class "
        "combinations, one-reaction networks over 3 species (300 sampled quick / all 728 thorough), 500 / 6000 random pairs and triples from "
        "the 3-species tables, 400 / 5000 random networks, each in a random spelling x orientation x class (10 % conventional), analysed by "
        "one analyzer with a random option (15 % a second analyzer, 10 % on a copy of the graph, 10 % a repeated query). "
        "Direct stream (helpers `_complex_vectors` / `_is_weakly_reversible` / `_linkage_class_stoich_rank` called directly, then the full "
        "analysis): every textbook network x 4 NetworkX classes x {hand-built graph in a random spelling and orientation, graph written by "
        "hypergraph_to_bipartite with random options (integer_ids, species_prefix / reaction_prefix None or custom, include_edge_id_attr, "
        "include_mol, include_isolated_species) rewritten into the class}, every textbook network once with foreign nodes, 200 / all 728 "
        "one-reaction networks, 400 / 5000 pairs and triples from the 3-species tables, 300 / 4000 random networks, the reaction-less network "
        "in all 8 forms; random cases: source hand-built 2 : exporter 1, class DiGraph 2 : MultiDiGraph 1 : Graph 3 : MultiGraph 2 (so 5/8 "
        "hand the helper an undirected graph), orientation uniform over the 5 kinds, analyzer option default 4 : stoich_fn=None : stoich_fn returning "
        "lists : custom rank_fn : rank_fn=None, 25 % with 1-2 foreign nodes (no marks / kind='rule' / "
        "bipartite=2 / a species' label without marks) tied to reaction nodes by role-carrying arcs, 40 % of those an arc between two reaction "
        "nodes, 30 % an arc between two species; linkage classes handed over as list / set / tuple / generator / reversed list (uniform), "
        "plus the empty class and a fresh analyzer on every case.")
    ctx.nontrivial_rule = ("no error, >= 2 reactions and >= 3 complexes; distinct as JSON values (session queries: distinct by network, "
                           "graph spelling, analyzer option, method and whether the analyzer was reused after an edit)")
    build_and_audit_scoped(ctx, "SynKitProofs.Props.C19", "SynKitProofs/Audit/C19.lean", THEOREMS)

    reg = [c["case"] if "case" in c else c for c in load_regress()]
    run_cases(ctx, [c["desc"] for c in reg if "desc" in c], "regress")
    run_sessions(ctx, [c["session"] for c in reg if "session" in c], "regress")
    run_direct(ctx, [c["direct"] for c in reg if "direct" in c], "regress")
    ctx.count("regress_cases", len(reg))
    if ctx.violations:
        ctx.obligation("correspondence: regression inputs", False)
        return

    # textbook networks: the expected numbers are part of the check
    tb = [parse(lines) for _, lines, _, _ in TEXTBOOK]
    run_cases(ctx, tb, "textbook")
    for (name, lines, delta, wr), d in zip(TEXTBOOK, tb):
        o = oracle(d)
        impl = impl_analyse(d)
        if o["deficiency"] != delta or o["weakly_reversible"] != wr:
            ctx.violation(f"textbook value for '{name}' not reproduced by the definition oracle (harness table wrong?)", d,
                          {"oracle": [o["deficiency"], o["weakly_reversible"]], "table": [delta, wr]}, no_input=True)
        elif impl["summary"]["deficiency"] != delta or impl["summary"]["weakly_reversible"] != wr:
            ctx.violation(f"textbook network '{name}': deficiency / weak reversibility differ from the known values", d,
                          {"impl": impl["summary"], "known": {"deficiency": delta, "weakly_reversible": wr}})
    if ctx.violations:
        ctx.obligation("correspondence: textbook networks", False)
        return

    rnd = ctx.rnd
    full = reactions3()
    small = reactions3(2)
    cases = [{"reactions": with_ids([r])} for r in full]
    if ctx.quick:
        cases += [{"reactions": with_ids([small[i], small[j]])} for i, j in itertools.combinations(range(len(small)), 2)]
        for _ in range(3000):
            i, j = rnd.sample(range(len(full)), 2)
            cases.append({"reactions": with_ids([full[i], full[j]])})
        part = f"all {len(full)} one-reaction networks over 3 species with coefficients in {{0,1,2}}; all pairs of the {len(small)} reactions with side sums <= 2"
    else:
        for i, j in itertools.combinations(range(len(full)), 2):
            rs = [full[i], full[j]]
            if perm_canonical(rs):
                cases.append({"reactions": with_ids(rs)})
        for _ in range(25000):
            cases.append({"reactions": with_ids([full[i] for i in rnd.sample(range(len(full)), 3)])})
        part = f"all one- and two-reaction networks over 3 species with coefficients in {{0,1,2}} up to species permutation ({len(cases) - 25000}); triples sampled"
    run_cases(ctx, cases, "exhaustive-3-species")
    ctx.extra["exhaustive"] = True
    ctx.extra["exhaustive_part"] = part
    if not ctx.violations:
        run_cases(ctx, [random_desc(rnd) for _ in range(1500 if ctx.quick else 15000)], "random")
        run_cases(ctx, [{"reactions": [], "isolated": ["A"]}, {"reactions": []}], "empty")
    if not ctx.violations:
        # bipartite inputs whose arcs do not follow species -> reaction -> species, and other NetworkX classes
        forms = [({"orient": o, **({"oseed": 7 * k + 1} if o == "rand" else {}), **({"gtype": g} if g != "DiGraph" else {})}, g == "Graph")
                 for k, (o, g) in enumerate(itertools.product(ORIENTS, GTYPES))]
        fs = [form_session(rnd, dict(d, isolated=[]), form=(dict(fl), und)) for d in tb for fl, und in forms]
        one = [{"reactions": with_ids([r]), "isolated": []} for r in full]
        fs += [form_session(rnd, d) for d in (one if not ctx.quick else rnd.sample(one, 300))]
        for _ in range(500 if ctx.quick else 6000):
            tab = small if rnd.random() < 0.6 else full
            fs.append(form_session(rnd, {"reactions": with_ids([tab[i] for i in rnd.sample(range(len(tab)), rnd.choice([2, 2, 3]))]), "isolated": []}))
        fs += [form_session(rnd, random_desc(rnd)) for _ in range(400 if ctx.quick else 5000)]
        run_sessions(ctx, fs, "bip-forms")
    if not ctx.violations:
        # the anchored helpers called directly on the graph as given (undirected classes reach _complex_vectors' own undirected
        # branch), graphs written by hypergraph_to_bipartite with non-default options, graphs with foreign nodes / arcs
        ds = [direct_case(rnd, dict(d, isolated=[]), source=src, gtype=g, junk=False) for d in tb for g in GTYPES for src in ("net", "export")]
        ds += [direct_case(rnd, dict(d, isolated=[]), junk=True) for d in tb]
        ds += [direct_case(rnd, d) for d in (one if not ctx.quick else rnd.sample(one, 200))]
        for _ in range(400 if ctx.quick else 5000):
            tab = small if rnd.random() < 0.6 else full
            ds.append(direct_case(rnd, {"reactions": with_ids([tab[i] for i in rnd.sample(range(len(tab)), rnd.choice([2, 2, 3]))]), "isolated": []}))
        ds += [direct_case(rnd, random_desc(rnd)) for _ in range(300 if ctx.quick else 4000)]
        ds += [direct_case(rnd, {"reactions": [], "isolated": ["A"]}, source=src, gtype=g, junk=False) for g in GTYPES for src in ("net", "export")]
        run_direct(ctx, ds, "direct")
    if not ctx.violations:
        # hidden state / options / rare spellings: analyzers reused across edits and calls (see "sessions" above)
        run_sessions(ctx, [replace_session(rnd, full, small) for _ in range(300 if ctx.quick else 4000)], "session-replace")
    if not ctx.violations:
        run_sessions(ctx, [random_session(rnd) for _ in range(500 if ctx.quick else 6000)], "session-random")
    ctx.obligation("correspondence: complexes, complex graph, linkage classes, weak reversibility, n/l/rank/delta, per-class deficiencies == model; "
                   "reported rank == exact rank; delta >= 0 and sum(delta_l) <= delta with exact ranks; the same for analyzers reused across "
                   "in-place edits, repeated / reordered calls, constructor options and bipartite-graph spellings incl. arc orientation and "
                   "NetworkX graph class (sessions, bip-forms); _complex_vectors / _is_weakly_reversible / _linkage_class_stoich_rank called "
                   "directly on graphs of every class, exporter-written graphs, graphs with foreign nodes (direct)", not ctx.violations)


def replay(ctx, case):
    if "session" in case["case"]:
        run_sessions(ctx, [case["case"]["session"]], "replay")
        return
    if "direct" in case["case"]:
        run_direct(ctx, [case["case"]["direct"]], "replay")
        return
    run_cases(ctx, [case["case"]["desc"] if "desc" in case["case"] else case["case"]], "replay")

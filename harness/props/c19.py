"""C19 — complexes, linkage classes, weak reversibility and deficiency follow their definitions.

Correspondence: `DeficiencyAnalyzer(H).compute_crn_deficiency()` (complex list, complex graph,
summary, per-class deficiencies) vs the Lean model `SynKitModel/Deficiency.lean`, about which
Props/C19.lean proves `complexes_spec`, `linkage_spec`, `weakrev_spec`, `deficiency_formula`.
Ranks are NumPy's business in the implementation; the harness computes them exactly (fractions),
hands them to the model, and checks the implementation's reported rank against them.  The two
inequalities `delta >= 0` and `sum(delta_l) <= delta` (stated, not proved, in `FullStatement`) are
checked with exact ranks on every case.  An independent Python oracle (union-find, plain
reachability) and the Lean command `spec.def.check` (right-hand sides of the theorems, evaluated
by a transitive-closure computation unrelated to the model's algorithms) decide whether a
difference is a violation of the property or only of the correspondence.
"""
import itertools
import json
from fractions import Fraction

from ..core import ROOT
from ..leanscope import build_and_audit_scoped
from ..shrink import shrink_seq
from .. import netio

THEOREMS = [
    "SynKit.Deficiency.complexes_spec",
    "SynKit.Deficiency.linkage_spec",
    "SynKit.Deficiency.weakrev_spec",
    "SynKit.Deficiency.deficiency_formula",
    "SynKit.Deficiency.linkage_deficiency_formula",
    "SynKit.Deficiency.summary_error_iff",
    "SynKit.Deficiency.fullStatement_partial",
    "SynKit.NetGraphAlg.labelling_spec",
    "SynKit.NetGraphAlg.components_spec",
    "SynKit.NetGraphAlg.reachSet_sound",
    "SynKit.NetGraphAlg.reachSet_complete_of_closed",
    "SynKit.NetGraphAlg.reachSet_closed_of_fuel",
    "SynKit.NetGraphAlg.stronglyConnected_iff",
]


# ---------------------------------------------------------------- exact linear algebra
def exact_rank(rows):
    m = [[Fraction(x) for x in r] for r in rows if any(r)]
    rank = 0
    ncols = len(m[0]) if m else 0
    for c in range(ncols):
        piv = next((i for i in range(rank, len(m)) if m[i][c] != 0), None)
        if piv is None:
            continue
        m[rank], m[piv] = m[piv], m[rank]
        for i in range(len(m)):
            if i != rank and m[i][c] != 0:
                f = m[i][c] / m[rank][c]
                m[i] = [a - f * b for a, b in zip(m[i], m[rank])]
        rank += 1
    return rank


# ---------------------------------------------------------------- independent oracle
def oracle(desc):
    """The definitions, computed directly from the description (no bipartite view, no NetworkX)."""
    net = netio.to_net_json(desc)
    sp = net["species"]
    if not sp or not net["reactions"]:
        return {"error": "ValueError"}

    def vec(side):
        d = dict(map(tuple, side))
        return tuple(d.get(s, 0) for s in sp)
    complexes = []
    arcs = set()
    for r in net["reactions"]:
        y, y2 = vec(r["r"]), vec(r["p"])
        for v in (y, y2):
            if v not in complexes:
                complexes.append(v)
        arcs.add((y, y2))
    parent = {c: c for c in complexes}

    def find(x):
        while parent[x] != x:
            parent[x] = parent[parent[x]]
            x = parent[x]
        return x
    for a, b in arcs:
        parent[find(a)] = find(b)
    classes = {}
    for c in complexes:
        classes.setdefault(find(c), set()).add(c)
    classes = [frozenset(v) for v in classes.values()]

    def reach(a, allowed):
        seen, todo = {a}, [a]
        while todo:
            x = todo.pop()
            for u, v in arcs:
                if u == x and v in allowed and v not in seen:
                    seen.add(v)
                    todo.append(v)
        return seen
    wr = all(reach(a, C) == set(C) for C in classes for a in C)
    S = [[dict(map(tuple, r["p"])).get(s, 0) - dict(map(tuple, r["r"])).get(s, 0) for r in net["reactions"]] for s in sp]
    rank = exact_rank(S)
    lc = {}
    for C in classes:
        diffs = [[b - a for a, b in zip(u, v)] for u, v in arcs if u in C and v in C]
        lc[C] = len(C) - 1 - exact_rank(diffs)
    return {"complexes": set(complexes), "arcs": arcs, "classes": set(classes), "weakly_reversible": wr,
            "n_species": len(sp), "n_reactions": len(net["reactions"]), "n_complexes": len(complexes),
            "n_linkage_classes": len(classes), "stoich_rank": rank,
            "deficiency": len(complexes) - len(classes) - rank, "linkage": lc}


# ---------------------------------------------------------------- implementation adapter
def impl_analyse(desc):
    import networkx as nx
    from synkit.CRN.Props.deficiency import DeficiencyAnalyzer

    H = netio.to_hypergraph(desc)
    try:
        an = DeficiencyAnalyzer(H).compute_crn_deficiency()
    except ValueError:
        return {"error": "ValueError"}
    cs = [tuple(int(x) for x in c) for c in an._complexes]
    CG = an._complex_graph
    comps = [sorted(c) for c in nx.connected_components(CG.to_undirected())]
    s = an.summary
    d = an.as_dict()
    summ = {"n_species": int(s.n_species), "n_reactions": int(s.n_reactions), "n_complexes": int(s.n_complexes),
            "n_linkage_classes": int(s.n_linkage_classes), "stoich_rank": int(s.stoich_rank),
            "deficiency": int(s.deficiency), "weakly_reversible": bool(s.weakly_reversible)}
    return {"complexes": cs, "arcs": sorted([int(u), int(v)] for u, v in CG.edges()), "nodes": sorted(int(x) for x in CG.nodes()),
            "classes": comps, "summary": summ, "as_dict_agrees": all(d.get(k) == v for k, v in summ.items()),
            "linkage_deficiencies": [int(x) for x in an.linkage_deficiencies],
            "as_dict_linkage": [int(x) for x in d.get("linkage_deficiencies", [])]}


def canon(res):
    """What the property determines, keyed by content (complex vectors), not by index."""
    if "error" in res:
        return res
    cs = [tuple(c) for c in res["complexes"]]
    classes = [frozenset(cs[i] for i in C) for C in res["classes"]]
    lds = res["linkage_deficiencies"]
    return {"complexes": sorted(cs), "dup": len(set(cs)) != len(cs),
            "arcs": sorted((cs[u], cs[v]) for u, v in res["arcs"]),
            "classes": sorted(sorted(C) for C in classes),
            "summary": res["summary"],
            "linkage": sorted((sorted(C), d) for C, d in zip(classes, lds)) if len(lds) == len(classes) else "length-mismatch"}


def diff(ci, cm):
    if ("error" in ci) or ("error" in cm):
        return None if ci == cm else f"impl={ci} model={cm}"
    for k in ("complexes", "dup", "arcs", "classes", "linkage"):
        if ci[k] != cm[k]:
            return f"{k}: impl={ci[k]} model={cm[k]}"
    for k, v in cm["summary"].items():
        if ci["summary"][k] != v:
            return f"summary.{k}: impl={ci['summary'][k]} model={v}"
    return None


def spec_check(ctx, desc, impl):
    """-> None when the implementation's answer satisfies C19 on this input, else a description."""
    o = oracle(desc)
    if "error" in impl or "error" in o:
        return None if ("error" in impl) == ("error" in o) else f"impl={impl.get('error', 'result')} definition={o.get('error', 'result')}"
    rep = ctx.lean().ok([{"cmd": "spec.def.check", "net": netio.to_net_json(desc), "complexes": [list(c) for c in impl["complexes"]],
                          "arcs": impl["arcs"], "classes": impl["classes"], "weakly_reversible": impl["summary"]["weakly_reversible"]}])[0]
    if not rep["holds"]:
        bad = [k for k in ("complexes_ok", "arcs_ok", "classes_ok", "weakrev_ok") if not rep[k]]
        return f"Lean specification rejects the reported {', '.join(bad)} (complexes={impl['complexes']}, classes={impl['classes']}, weakly_reversible={impl['summary']['weakly_reversible']})"
    s = impl["summary"]
    for k in ("n_species", "n_reactions", "n_complexes", "n_linkage_classes", "stoich_rank", "deficiency", "weakly_reversible"):
        if s[k] != o[k]:
            return f"{k} = {s[k]}, the definition gives {o[k]}"
    if s["deficiency"] < 0:
        return f"negative deficiency {s['deficiency']}"
    cs = impl["complexes"]
    got = {frozenset(cs[i] for i in C): d for C, d in zip(impl["classes"], impl["linkage_deficiencies"])}
    if got != o["linkage"]:
        return f"linkage-class deficiencies {sorted(got.values())}, the definition gives {sorted(o['linkage'].values())}"
    if sum(got.values()) > s["deficiency"]:
        return f"linkage-class deficiencies sum to {sum(got.values())} > deficiency {s['deficiency']}"
    if not impl["as_dict_agrees"] or impl["as_dict_linkage"] != impl["linkage_deficiencies"]:
        return "as_dict() differs from the summary object"
    return None


def run_cases(ctx, descs, tag):
    if not descs:
        return
    nets = [netio.to_net_json(d) for d in descs]
    ph1 = ctx.lean().ok([{"cmd": "def.analyse", "net": n} for n in nets], shards=8)
    reqs = []
    for d, n, m in zip(descs, nets, ph1):
        S = [[dict(map(tuple, r["p"])).get(s, 0) - dict(map(tuple, r["r"])).get(s, 0) for r in n["reactions"]] for s in n["species"]]
        if S != m["stoich_rows"]:
            ctx.violation("model stoichiometric matrix differs from products - reactants", d, {"model": m["stoich_rows"], "own": S}, no_input=True)
            return
        if not m["stable"]:
            ctx.violation("model reach sets not stabilised (contradicts stronglyConnectedStable_true)", d, None, no_input=True)
            return
        reqs.append({"cmd": "def.analyse", "net": n, "rank": exact_rank(S), "class_ranks": [exact_rank(x) for x in m["class_diffs"]]})
    ph2 = ctx.lean().ok(reqs, shards=8)
    for d, n, m in zip(descs, nets, ph2):
        msg = netio.check_encoding(d) if n["reactions"] else None
        if msg is not None:
            ctx.violation("network encoder and bipartite view disagree (harness assumption, not the property)", d, {"detail": msg}, no_input=True)
            continue
        impl = impl_analyse(d)
        if "error" in m:
            model = {"error": m["error"]}
        else:
            model = {"complexes": [tuple(c) for c in m["complexes"]], "arcs": m["arcs"], "classes": m["classes"],
                     "summary": m["summary"], "linkage_deficiencies": m["linkage_deficiencies"]}
        ci, cm = canon(impl), canon(model)
        ctx.count(f"cases[{tag}]")
        if "error" in cm:
            ctx.count("error:ValueError")
        else:
            s = cm["summary"]
            ctx.count(f"deficiency={min(s['deficiency'], 3)}{'+' if s['deficiency'] >= 3 else ''}")
            ctx.count(f"linkage_classes={min(s['n_linkage_classes'], 4)}{'+' if s['n_linkage_classes'] >= 4 else ''}")
            ctx.count("weakly_reversible=" + str(s["weakly_reversible"]))
            tot = sum(x for _, x in cm["linkage"])
            ctx.count("sum(delta_l)" + ("=" if tot == s["deficiency"] else "<") + "delta")
            # the two inequalities of the FullStatement, with exact ranks, on the model's numbers
            if s["deficiency"] < 0 or tot > s["deficiency"]:
                ctx.violation("inequality of C19 fails on the model with exact ranks (delta >= 0, sum delta_l <= delta)", d,
                              {"summary": s, "linkage": cm["linkage"]}, no_input=True)
                return
            # the oracle agrees with the model (guards the oracle used for classification)
            o = oracle(d)
            if (o["complexes"] != set(cm["complexes"]) or o["classes"] != {frozenset(map(tuple, C)) for C in cm["classes"]}
                    or o["weakly_reversible"] != s["weakly_reversible"] or o["deficiency"] != s["deficiency"]
                    or sorted(o["linkage"].values()) != sorted(x for _, x in cm["linkage"])):
                ctx.violation("independent oracle and Lean model disagree (harness or model defect)", d,
                              {"oracle": {k: str(v) for k, v in o.items()}, "model": str(cm)}, no_input=True)
                return
        nontrivial = "error" not in cm and len(n["reactions"]) >= 2 and cm["summary"]["n_complexes"] >= 3
        ctx.case(["c19", d], nontrivial, sample={"stream": tag, "net": netio.fmt(d), "summary": cm.get("summary", cm)} if len(d["reactions"]) <= 2 else None)
        df = diff(ci, cm)
        if df is None:
            continue
        sp = spec_check(ctx, d, impl)
        if sp is not None:
            def fails(rs):
                if not rs:
                    return False
                dd = dict(d, reactions=rs)
                try:
                    return spec_check(ctx, dd, impl_analyse(dd)) is not None
                except Exception:
                    return False
            small = dict(d, reactions=shrink_seq(d["reactions"], fails, budget=80))
            for r in small["reactions"]:
                for side in ("r", "p"):
                    for ent in list(r[side]):
                        old = ent[1]
                        if old > 1:
                            ent[1] = 1
                            if not fails(small["reactions"]):
                                ent[1] = old
            simpl = impl_analyse(small)
            ctx.violation("complexes / linkage classes / weak reversibility / deficiency do not follow their definitions", small,
                          {"spec": spec_check(ctx, small, simpl), "impl": {k: (str(v) if k == "complexes" else v) for k, v in simpl.items()},
                           "net": netio.fmt(small), "stream": tag, "original": netio.fmt(d)})
        else:
            ctx.violation("correspondence C19: impl and model differ although the specification holds", d,
                          {"diff": df, "stream": tag}, no_input=True)
        if len(ctx.violations) >= 5:
            return


# ---------------------------------------------------------------- generators
def sides3(maxsum=None):
    out = []
    for v in itertools.product([0, 1, 2], repeat=3):
        if maxsum is None or sum(v) <= maxsum:
            out.append([[s, c] for s, c in zip("ABC", v) if c])
    return out


def reactions3(maxsum=None):
    S = sides3(maxsum)
    return [{"r": r, "p": p} for r in S for p in S if r or p]


def with_ids(rs):
    return [dict(r, id=f"r_{i + 1}", rule="r") for i, r in enumerate(rs)]


def perm_canonical(rs):
    """True when the (unordered) reaction set is the smallest among its images under the 6 species permutations."""
    def key(rs, pm):
        return sorted((sorted((pm[s], c) for s, c in r["r"]), sorted((pm[s], c) for s, c in r["p"])) for r in rs)
    base = key(rs, {"A": "A", "B": "B", "C": "C"})
    for p in itertools.permutations("ABC"):
        if key(rs, dict(zip("ABC", p))) < base:
            return False
    return True


def random_desc(rnd):
    sp = list("ABCDEF")[: rnd.randint(1, 6)]
    rs = []
    pool = []
    for i in range(rnd.randint(1, 6)):
        def side():
            k = rnd.choice([0, 1, 1, 2, 2, 3])
            return [[s, rnd.choice([1, 1, 2, 3])] for s in rnd.sample(sp, min(k, len(sp)))]
        r = rnd.choice(pool) if pool and rnd.random() < 0.45 else side()
        p = rnd.choice(pool) if pool and rnd.random() < 0.45 else side()
        if rnd.random() < 0.15 and r:  # catalyst
            p = [e for e in p if e[0] != r[0][0]] + [[r[0][0], rnd.choice([1, 2])]]
        if not r and not p:
            p = [[sp[0], 1]]
        pool += [r, p]
        rid = rnd.choice([f"r_{i + 1}", f"x{9 - i}", f"R_{i}", f"r_{12 - i}"])
        rs.append({"id": rid, "rule": rnd.choice(["r", "R1"]), "r": [list(e) for e in r], "p": [list(e) for e in p]})
    if len({r["id"] for r in rs}) < len(rs):
        rs = with_ids(rs)
    if rnd.random() < 0.3 and len(rs) >= 2:  # reverse of an existing reaction: weak reversibility
        r0 = rnd.choice(rs)
        if r0["r"] or r0["p"]:
            rs.append({"id": "zz_rev", "rule": "r", "r": [list(e) for e in r0["p"]], "p": [list(e) for e in r0["r"]]})
    return {"reactions": rs, "isolated": ["Z"] if rnd.random() < 0.1 else []}


def parse(lines):
    rs = []
    for i, ln in enumerate(lines):
        def side(t):
            out = []
            for tok in t.split("+"):
                tok = tok.strip()
                if not tok or tok == "0":
                    continue
                k = 0
                while k < len(tok) and tok[k].isdigit():
                    k += 1
                out.append([tok[k:].strip(), int(tok[:k]) if k else 1])
            return out
        l, r = ln.split(">>")
        rs.append({"id": f"r_{i + 1}", "rule": "r", "r": side(l), "p": side(r)})
    return {"reactions": rs}


TEXTBOOK = [
    # (name, reactions, expected deficiency, expected weakly reversible)
    ("reversible A+B<->C", ["A+B>>C", "C>>A+B"], 0, True),
    ("Edelstein", ["A>>2A", "2A>>A", "A+B>>C", "C>>A+B", "C>>B", "B>>C"], 1, True),
    ("futile cycle (one site)", ["S+E>>SE", "SE>>S+E", "SE>>P+E", "P+F>>PF", "PF>>P+F", "PF>>S+F"], 1, False),
    ("double futile cycle", ["S0+E>>S0E", "S0E>>S0+E", "S0E>>S1+E", "S1+E>>S1E", "S1E>>S1+E", "S1E>>S2+E",
                             "S2+F>>S2F", "S2F>>S2+F", "S2F>>S1+F", "S1+F>>S1F", "S1F>>S1+F", "S1F>>S0+F"], 2, False),
    ("Michaelis-Menten", ["E+S>>ES", "ES>>E+S", "ES>>E+P"], 0, False),
    ("cycle A->B->C->A", ["A>>B", "B>>C", "C>>A"], 0, True),
    ("Lotka-Volterra", ["X>>2X", "X+Y>>2Y", "Y>>0"], 1, False),
    ("two classes, deficiency one (Feinberg)", ["2A>>A+B", "A+B>>2B", "2B>>2A", "A>>C", "C>>A"], 1, True),
]


def load_regress():
    d = ROOT / "regress" / "C19"
    return [json.loads(f.read_text()) for f in sorted(d.glob("*.json"))] if d.exists() else []


def run(ctx):
    ctx.trusted = [
        "Lean 4.33 kernel; axioms of the property theorems as listed in obligation_list",
        "hand-written model SynKitModel/Deficiency.lean (+ Net.lean, NetGraphAlg.lean) tied to /repo by this correspondence run (not by translation)",
        "Driver/Deficiency.lean, Driver/NetJson.lean codecs; harness/netio.py encoder (checked against the bipartite view on every case); "
        "exact rational rank (fractions) in harness/props/c19.py; NumPy matrix_rank only as the implementation's own number, compared with the exact rank",
        "modelled: _complex_vectors, compute_summary, _is_weakly_reversible, _linkage_class_stoich_rank (its column set), compute_linkage_deficiencies; "
        "not modelled: deficiency-zero/one checks built on these numbers, regularity, nondegeneracy test",
    ]
    ctx.assumptions = [
        "the network is given as a CRNHyperGraph (distinct species labels, distinct reaction ids, positive integer coefficients)",
        "delta >= 0 and sum(delta_l) <= delta are stated in Props/C19.lean `FullStatement` but not proved (they need a Matrix.rank argument); "
        "they are CHECKED with exact ranks on every generated case",
    ]
    ctx.gen_rule = (
        "regression corpus first; textbook networks with known deficiency (A+B<->C: 0, Edelstein: 1, futile cycles: 1 and 2, Michaelis-Menten, "
        "3-cycle, Lotka-Volterra, a two-class deficiency-one network); ALL networks over {A,B,C} with one reaction with coefficients in {0,1,2} (728); "
        "quick: all unordered pairs of reactions whose sides have coefficient sum <= 2 (4851) + 3000 random pairs from the full space; thorough: "
        "all unordered pairs from the full {0,1,2} space up to species permutation, and 25000 random triples; random networks <= 6 species / "
        "<= 7 reactions with shared complexes, catalysts, empty sides, reverse reactions, isolated species, coefficients <= 3.")
    ctx.nontrivial_rule = "no error, >= 2 reactions and >= 3 complexes; distinct as JSON values"
    build_and_audit_scoped(ctx, "SynKitProofs.Props.C19", "SynKitProofs/Audit/C19.lean", THEOREMS)

    reg = [c["case"] if "case" in c else c for c in load_regress()]
    run_cases(ctx, [c["desc"] for c in reg], "regress")
    ctx.count("regress_cases", len(reg))
    if ctx.violations:
        ctx.obligation("correspondence: regression inputs", False)
        return

    # textbook networks: the expected numbers are part of the check
    tb = [parse(lines) for _, lines, _, _ in TEXTBOOK]
    run_cases(ctx, tb, "textbook")
    for (name, lines, delta, wr), d in zip(TEXTBOOK, tb):
        o = oracle(d)
        impl = impl_analyse(d)
        if o["deficiency"] != delta or o["weakly_reversible"] != wr:
            ctx.violation(f"textbook value for '{name}' not reproduced by the definition oracle (harness table wrong?)", d,
                          {"oracle": [o["deficiency"], o["weakly_reversible"]], "table": [delta, wr]}, no_input=True)
        elif impl["summary"]["deficiency"] != delta or impl["summary"]["weakly_reversible"] != wr:
            ctx.violation(f"textbook network '{name}': deficiency / weak reversibility differ from the known values", d,
                          {"impl": impl["summary"], "known": {"deficiency": delta, "weakly_reversible": wr}})
    if ctx.violations:
        ctx.obligation("correspondence: textbook networks", False)
        return

    rnd = ctx.rnd
    full = reactions3()
    small = reactions3(2)
    cases = [{"reactions": with_ids([r])} for r in full]
    if ctx.quick:
        cases += [{"reactions": with_ids([small[i], small[j]])} for i, j in itertools.combinations(range(len(small)), 2)]
        for _ in range(3000):
            i, j = rnd.sample(range(len(full)), 2)
            cases.append({"reactions": with_ids([full[i], full[j]])})
        part = f"all {len(full)} one-reaction networks over 3 species with coefficients in {{0,1,2}}; all pairs of the {len(small)} reactions with side sums <= 2"
    else:
        for i, j in itertools.combinations(range(len(full)), 2):
            rs = [full[i], full[j]]
            if perm_canonical(rs):
                cases.append({"reactions": with_ids(rs)})
        for _ in range(25000):
            cases.append({"reactions": with_ids([full[i] for i in rnd.sample(range(len(full)), 3)])})
        part = f"all one- and two-reaction networks over 3 species with coefficients in {{0,1,2}} up to species permutation ({len(cases) - 25000}); triples sampled"
    run_cases(ctx, cases, "exhaustive-3-species")
    ctx.extra["exhaustive"] = True
    ctx.extra["exhaustive_part"] = part
    if not ctx.violations:
        run_cases(ctx, [random_desc(rnd) for _ in range(1500 if ctx.quick else 15000)], "random")
        run_cases(ctx, [{"reactions": [], "isolated": ["A"]}, {"reactions": []}], "empty")
    ctx.obligation("correspondence: complexes, complex graph, linkage classes, weak reversibility, n/l/rank/delta, per-class deficiencies == model; "
                   "reported rank == exact rank; delta >= 0 and sum(delta_l) <= delta with exact ranks", not ctx.violations)


def replay(ctx, case):
    run_cases(ctx, [case["case"]["desc"] if "desc" in case["case"] else case["case"]], "replay")

"""C02 — reaction centre = changed bonds (+ H–H bonds); radius-k context = distance ball; monotone chain.

Lean (Props/C02.lean), over the model `SynKit.ITS.getRc` / `expand` / `extractK`: edge membership of
the centre, nodes = end points, labels, idempotence, equivariance under renumbering, context =
distance ball, centre = K0 ⊑ K1 ⊑ K2 ⊑ ITS.

Correspondence (every run): for every generated ITS graph
  get_rc(its)            == model `its.rc`        (nodes with element/charge/typesGH/atom_map, edges with order/standard_order)
  extract_k(its, k)      == model `its.extractK`  for k = 0..3 (node/edge sets with all ITS labels)
  get_rc(get_rc(its))    == model `its.rc` of the implementation's centre, and == get_rc(its)
  centre of a renumbered reaction / relabelled ITS  ~  centre   (Lean `match.iso`)
  extract_k(its, -1)     == model `its.extractFree` (the ITS plus its NetworkX adjacency order; graph and the radius
                            len(longest_radius_extension(...)) the code picks); second gate: a distance ball (see `aux_cases`)
  context_extraction, paralle_context_extraction  == model centre / `its.extractK`
  find_unequal_order_edges(its)  == model `its.unequalOrderEdges`; second gate on a well-formed ITS: atoms of the changed
                            bonds of the model centre
  rsmi_to_its(rsmi, core=True, options)  == model centre of the ITS of that reaction (see `entry_cases`)
  the same on ITS graphs with extra unselected attributes (`weight`, `label`, ...), with ==-equal numbers written in mixed
  ways, on larger structured shapes; find_nearest_neighbors(its, centre, k) / re-queried extract_k == model balls (`direct_cases`)
  the same on ITS graphs whose element symbols look like other elements ('Hg', 'He' next to 'H', ...: `lookalike_streams`), on ITS
  with more than 256 atoms (`large_stream`), and after other public calls on the same object (`sequence_cases`)
On a divergence the specification itself is evaluated on the implementation's output
(`spec.its.rc` in Lean; distance balls by NetworkX shortest paths) to decide between a VIOLATION with
that input and a broken correspondence.
"""
import itertools
import json

import networkx as nx

from .. import graphio
from ..core import build_and_audit
from ..corpus import load_reactions, load_its_graphs
from . import c01 as base
from .c01 import enc, canon, first_diff, ITS_NODE_KEYS, ITS_EDGE_KEYS, RC_KEYS

THEOREMS = [
    "SynKit.ITS.mem_rc_edge_iff_std",
    "SynKit.ITS.mem_rc_edge_iff",
    "SynKit.ITS.rc_edge_labels",
    "SynKit.ITS.rc_nodes_eq_endpoints",
    "SynKit.ITS.rc_labels",
    "SynKit.ITS.getRc_idem",
    "SynKit.ITS.getRc_relabel",
    "SynKit.ITS.expand_iff_dist",
    "SynKit.ITS.extractK_zero",
    "SynKit.ITS.mem_extractK_iff_dist",
    "SynKit.ITS.context_chain",
    "SynKit.ITS.C02.fullStatement_holds",
    "SynKit.ITS.extractK_stabilises",
    "SynKit.ITS.extractFree_radius",
    "SynKit.ITS.extractFree_spec",
    "SynKit.ITS.extractFree_spec_wfits",
    "SynKit.ITS.extractFree_whole",
    "SynKit.ITS.dfsLongest_enough_fuel",
    "SynKit.ITS.unequalOrderEdges_spec",
]

RC_EDGE_KEYS = ["order", "standard_order"]
KMAX = 3


# ------------------------------------------------------------------ implementation adapters
def impl_rc(its, **kw):
    from synkit.Graph.ITS.its_decompose import get_rc
    return get_rc(its, **kw)


def impl_k(its, k):
    from synkit.Graph.Context.radius_expand import RadiusExpand
    return RadiusExpand.extract_k(its, k)


def rc_iso_form(rc):
    H = nx.Graph()
    for n in base.bfs_order(rc):
        d = rc.nodes[n]
        H.add_node(n, element=d.get("element"), charge=d.get("charge"), typesGH=d.get("typesGH"))
    for u, v, d in rc.edges(data=True):
        H.add_edge(u, v, order=d.get("order"), standard_order=d.get("standard_order"))
    return enc(H)


# ------------------------------------------------------------------ Python side of the context specification
def context_spec(its, rc, Ks):
    """Ks[k] for k = 0..KMAX.  -> None or a description of the violated clause."""
    seeds = set(rc.nodes)
    dist = nx.multi_source_dijkstra_path_length(its, seeds, weight=None) if seeds else {}
    prev = None
    for k, K in enumerate(Ks):
        want = {n for n, d in dist.items() if d <= k}
        if set(K.nodes) != want:
            return f"K{k} nodes are not the atoms within {k} bonds of the centre: extra {sorted(set(K.nodes) - want)[:5]} missing {sorted(want - set(K.nodes))[:5]}"
        if k >= 1:
            sub = its.subgraph(want)
            if {frozenset(e) for e in K.edges} != {frozenset(e) for e in sub.edges}:
                return f"K{k} is not the induced sub-graph on its atoms"
        if prev is not None:
            if not set(prev.nodes) <= set(K.nodes) or not {frozenset(e) for e in prev.edges} <= {frozenset(e) for e in K.edges}:
                return f"K{k - 1} is not contained in K{k}"
        prev = K
    if not set(prev.nodes) <= set(its.nodes):
        return "context not contained in the ITS"
    return None


# ------------------------------------------------------------------ the main comparison
def derived_graphs(ctx, its):
    """Graphs derived from an ITS object that has ALREADY been queried (NetworkX copies carry the
    graph-level attribute dict along): a permutation of the same id set, a plain copy with one bond's
    change moved, and the sub-graph copy without one centre-free atom.  Nothing that was computed
    for the original may leak into the answers for these."""
    out = []
    ns = list(its.nodes)
    if len(ns) >= 2:
        perm = ns[:]
        ctx.rnd.shuffle(perm)
        out.append((nx.relabel_nodes(its, dict(zip(ns, perm)), copy=True), "perm-same-ids"))
        shift = ns[1:] + ns[:1]
        out.append((nx.relabel_nodes(its, dict(zip(ns, shift)), copy=True), "cyclic-shift"))
    es = [(u, v) for u, v, d in its.edges(data=True) if isinstance(d.get("order"), tuple) and len(d["order"]) == 2]
    if es:
        J = its.copy()
        u, v = ctx.rnd.choice(es)
        a, b = J[u][v]["order"]
        try:
            if a == b:
                J[u][v]["order"] = (a, b + 1.0)
                J[u][v]["standard_order"] = a - (b + 1.0)
            else:
                J[u][v]["order"] = (a, a)
                J[u][v]["standard_order"] = 0.0
            out.append((J, "copy-one-bond-edited"))
        except TypeError:
            pass
    return out


def its_cases(ctx, cases, tag, derive=True):
    """cases: list of (its: nx.Graph, meta)."""
    reqs, keep = [], []
    derived = []
    raised = 0
    for its, meta in cases:
        I0 = enc(its)
        try:
            rc = impl_rc(its)
            Ks = [impl_k(its, k) for k in range(KMAX + 1)]
            rc2 = impl_rc(rc)
        except Exception as e:
            raised += 1
            ctx.count(f"{tag}:impl-raises:{type(e).__name__}")
            if raised <= 2:                                     # report the first two, keep going so that a wrong answer can surface too
                ctx.violation("get_rc / extract_k raises on an ITS graph", {"stream": tag, "its": I0, "meta": meta}, {"error": repr(e)[:300]})
            continue
        if derive and ctx.rnd.random() < 0.3:
            for J, how in derived_graphs(ctx, its):
                derived.append((J, {"derived_from_queried_object": how, "parent_meta": meta}))
        if enc(its) != I0:
            ctx.violation("get_rc / extract_k mutated the ITS", {"stream": tag, "its": I0, "meta": meta})
        R0 = enc(rc)
        keep.append((its, I0, meta, rc, R0, Ks, rc2))
        reqs.append({"cmd": "its.rc", "its": I0})
        reqs.append({"cmd": "its.rc", "its": R0})
        for k in range(1, KMAX + 1):
            reqs.append({"cmd": "its.extractK", "its": I0, "k": k})
    reps = ctx.lean().ok(reqs, shards=8)
    per = 2 + KMAX
    for i, (its, I0, meta, rc, R0, Ks, rc2) in enumerate(keep):
        if len(ctx.violations) >= 6:
            return
        m_rc, m_rc2 = reps[per * i], reps[per * i + 1]
        m_K = reps[per * i + 2: per * i + per]
        case = {"stream": tag, "its": I0, "meta": meta}
        nt = len(rc) >= 2 and len(its) > len(rc)
        ctx.case(I0, nt, sample={"stream": tag, "its": I0} if len(I0["nodes"]) <= 3 and nt else None)
        ctx.count(f"{tag}:cases")
        ctx.count(f"{tag}:rc_edges={min(rc.number_of_edges(), 5)}")
        hh = sum(1 for u, v in rc.edges if its.nodes[u].get("element") == "H" and its.nodes[v].get("element") == "H")
        if hh:
            ctx.count(f"{tag}:with_HH_bond")
        grow = [len(K) for K in Ks]
        ctx.count(f"{tag}:context_growth_steps={sum(1 for a, b in zip(grow, grow[1:]) if b > a)}")

        a, b = canon(R0, RC_KEYS, RC_EDGE_KEYS), canon(m_rc, RC_KEYS, RC_EDGE_KEYS)
        if a != b:
            spec = ctx.lean().ok([{"cmd": "spec.its.rc", "its": I0, "rc": R0}])[0]
            ctx.violation("reaction centre differs from the proven model (changed bonds + H-H bonds, end points, labels)",
                          shrink_its(ctx, case, "rc"), {"diff": first_diff(a, b), "spec_rc_holds": spec}, no_input=bool(spec))
            continue
        if canon(enc(Ks[0]), RC_KEYS, RC_EDGE_KEYS) != a:
            ctx.violation("extract_k(its, 0) is not the reaction centre", shrink_its(ctx, case, "k0"))
            continue
        bad = False
        for k in range(1, KMAX + 1):
            x, y = canon(enc(Ks[k]), ITS_NODE_KEYS, ITS_EDGE_KEYS), canon(m_K[k - 1], ITS_NODE_KEYS, ITS_EDGE_KEYS)
            if x != y:
                why = context_spec(its, rc, Ks)
                ctx.violation(f"radius-{k} context differs from the proven model (distance ball around the centre)",
                              shrink_its(ctx, case, "ctx"), {"diff": first_diff(x, y), "spec": why or "holds"}, no_input=why is None and labels_ok(its, Ks[k]))
                bad = True
                break
        if bad:
            continue
        c2 = canon(enc(rc2), RC_KEYS, RC_EDGE_KEYS)
        if c2 != a:
            ctx.violation("extracting the centre of a centre changes it", shrink_its(ctx, case, "idem"), {"diff": first_diff(c2, a)})
            continue
        if c2 != canon(m_rc2, RC_KEYS, RC_EDGE_KEYS):
            ctx.violation("get_rc applied to a centre differs from the model", case, {"diff": first_diff(c2, canon(m_rc2, RC_KEYS, RC_EDGE_KEYS))}, no_input=True)
        if len(ctx.violations) >= 6:
            return
    _derived_tail(ctx, derived, tag)


def _derived_tail(ctx, derived, tag):
    if derived and len(ctx.violations) < 6:
        its_cases(ctx, derived, tag + ":derived", derive=False)


def labels_ok(its, K):
    return all(K.nodes[n] == its.nodes[n] for n in K.nodes) and all(K.edges[e] == its.edges[e] for e in K.edges)


def shrink_its(ctx, case, what):
    its = materialize(graphio.to_nx(case["its"]), case.get("meta"))
    if len(its) > 14:
        return case

    def bad(I):
        try:
            rc = impl_rc(I)
            Ks = [impl_k(I, k) for k in range(KMAX + 1)]
        except Exception:
            return False
        if what == "rc":
            m = ctx.lean().ok([{"cmd": "its.rc", "its": enc(I)}])[0]
            return canon(enc(rc), RC_KEYS, RC_EDGE_KEYS) != canon(m, RC_KEYS, RC_EDGE_KEYS)
        if what == "k0":
            return canon(enc(Ks[0]), RC_KEYS, RC_EDGE_KEYS) != canon(enc(rc), RC_KEYS, RC_EDGE_KEYS)
        if what == "ctx":
            ms = ctx.lean().ok([{"cmd": "its.extractK", "its": enc(I), "k": k} for k in range(1, KMAX + 1)])
            return any(canon(enc(Ks[k]), ITS_NODE_KEYS, ITS_EDGE_KEYS) != canon(ms[k - 1], ITS_NODE_KEYS, ITS_EDGE_KEYS) for k in range(1, KMAX + 1))
        return canon(enc(impl_rc(rc)), RC_KEYS, RC_EDGE_KEYS) != canon(enc(rc), RC_KEYS, RC_EDGE_KEYS)

    changed = True
    while changed and len(its) > 1:
        changed = False
        for n in sorted(its.nodes):
            I2 = its.copy()
            I2.remove_node(n)
            if bad(I2):
                its, changed = I2, True
                break
    out = dict(case)
    out["its"] = enc(its)
    return out


def iso_cases(ctx, pairs, tag):
    """pairs: list of (rc_a, rc_b, case) that must be isomorphic as labelled graphs."""
    reqs = [base.iso_request(rc_iso_form(a), rc_iso_form(b), ("element", "charge", "typesGH"), ("order", "standard_order")) for a, b, _ in pairs]
    for ok, (a, b, case) in zip(ctx.lean().ok(reqs, shards=8), pairs):
        if len(ctx.violations) >= 6:
            return
        ctx.count(f"{tag}:iso_checks")
        if not ok:
            ctx.violation("the centre of a renumbered reaction is not isomorphic to the centre", case,
                          {"rc": enc(a, RC_KEYS, RC_EDGE_KEYS), "rc_renumbered": enc(b, RC_KEYS, RC_EDGE_KEYS)})


def options_cases(ctx, cases, tag):
    """get_rc with non-default options: implementation == model (the options are modelled as parameters).  With
    bond_key / standard_key the ITS carries its bond attributes under those names; the result must also be the default
    centre with the two attributes renamed (model on the un-renamed ITS)."""
    reqs, keep = [], []
    for its, opts in cases:
        bk, sk = opts.get("bond_key", "order"), opts.get("standard_key", "standard_order")
        renamed = (bk, sk) != ("order", "standard_order")
        its_o = rename_edge_keys(its, bk, sk) if renamed else its
        I0 = enc(its_o)
        try:
            rc = impl_rc(its_o, **opts)
        except Exception as e:
            ctx.count(f"{tag}:impl-raises:{type(e).__name__}")
            continue
        keep.append((I0, opts, enc(rc), renamed, len(reqs)))
        reqs.append({"cmd": "its.rc", "its": I0, **opts})
        if renamed:
            reqs.append({"cmd": "its.rc", "its": enc(its), **{k: v for k, v in opts.items() if k not in ("bond_key", "standard_key")}})
    reps = ctx.lean().ok(reqs, shards=8)
    for I0, opts, R0, renamed, at in keep:
        if len(ctx.violations) >= 6:
            return
        m = reps[at]
        keys = opts.get("element_key", RC_KEYS)
        ek = [opts.get("bond_key", "order"), opts.get("standard_key", "standard_order")]
        ctx.case([I0, opts], len(R0["nodes"]) >= 2)
        ctx.count(f"{tag}:cases")
        for o in sorted(opts):
            ctx.count(f"{tag}:option:{o}")
        a, b = canon(R0, keys, ek), canon(m, keys, ek)
        if a != b:
            ctx.violation("get_rc with options differs from the model", {"stream": tag, "its": I0, "options": opts}, {"diff": first_diff(a, b)}, no_input=True)
        elif renamed and a != canon(reps[at + 1], keys, RC_EDGE_KEYS):
            ctx.violation("get_rc with bond_key/standard_key is not the centre of the same ITS under the default attribute names",
                          {"stream": tag, "its": I0, "options": opts}, {"diff": first_diff(a, canon(reps[at + 1], keys, RC_EDGE_KEYS))}, no_input=True)


# ------------------------------------------------------------------ further documented entry points (anchor coverage)
#   RadiusExpand.extract_k(its, -1)                 radius chosen by the code (longest unchanged-bond extension)
#   RadiusExpand.context_extraction / paralle_context_extraction   (dict wrappers around extract_k, non-default keys)
#   RadiusExpand.find_unequal_order_edges            (atoms of the changed bonds)
#   rsmi_to_its(rsmi, core=True, ...)                (the centre straight from a reaction SMILES)
AUX_MAX_NODES = 160
CTX_KEYS = [("ITS", "K"), ("ITS", "K"), ("graph", "context"), ("its", "rc+k")]


def impl_unequal(its):
    from synkit.Graph.Context.radius_expand import RadiusExpand
    return RadiusExpand.find_unequal_order_edges(its)


def impl_free_radius(its):
    """The radius extract_k(its, -1) computes: len(longest_radius_extension(its, list(get_rc(its).nodes())))."""
    from synkit.Graph.Context.radius_expand import RadiusExpand
    from synkit.Graph.ITS.its_decompose import get_rc
    return len(RadiusExpand.longest_radius_extension(its, list(get_rc(its).nodes())))


def adjacency(its):
    """NetworkX adjacency order of every atom (G.neighbors order): it breaks the ties of the depth-first search of
    longest_radius_extension and is not determined by the order of G.edges()."""
    return [[int(n), [int(m) for m in its[n]]] for n in its.nodes]


def free_request(its, I0):
    return {"cmd": "its.extractFree", "its": I0, "adj": adjacency(its)}


def free_model_verdict(K, r_impl, m_free):
    """extract_k(its, -1) and the radius it picked against the Lean model its.extractFree.  -> None | description."""
    if r_impl != m_free["radius"]:
        return f"len(longest_radius_extension) = {r_impl}, model radius = {m_free['radius']}"
    x, y = canon(enc(K), ITS_NODE_KEYS, ITS_EDGE_KEYS), canon(m_free, ITS_NODE_KEYS, ITS_EDGE_KEYS)
    if x != y:
        return f"radius {r_impl} on both sides, but the context differs from the model's: " + first_diff(x, y)
    return None


def unequal_expressible(its):
    """The model's Val does not tell a list from a tuple (find_unequal_order_edges tests isinstance(order, tuple)) and
    compares nested containers structurally: gate only when no `order` is a list or has a container among its first two entries."""
    for _, _, d in its.edges(data=True):
        if "order" not in d:
            continue
        o = d["order"]
        if isinstance(o, (list, set, frozenset, dict)):
            return False
        if isinstance(o, tuple) and any(isinstance(x, (list, tuple, set, frozenset, dict)) for x in o[:2]):
            return False
    return True


def impl_context_extraction(its, its_key, context_key, k):
    from synkit.Graph.Context.radius_expand import RadiusExpand
    data = {"R-id": "x", its_key: its}
    return RadiusExpand.context_extraction(data, its_key, context_key, k)[context_key]


def impl_parallel_contexts(graphs, its_key, context_key, k):
    from synkit.Graph.Context.radius_expand import RadiusExpand
    out = RadiusExpand.paralle_context_extraction([{its_key: g, "R-id": i} for i, g in enumerate(graphs)], its_key, context_key, 1, 0, k)
    return [d[context_key] for d in out]


def wf_its(its):
    """Every bond carries an order pair of numbers and standard_order == order[0] - order[1] (Lean `WFits`, edge part)."""
    for _, _, d in its.edges(data=True):
        o, s = d.get("order"), d.get("standard_order")
        if not (isinstance(o, tuple) and len(o) == 2 and all(isinstance(x, (int, float)) and not isinstance(x, bool) for x in o)):
            return False
        if isinstance(s, bool) or not isinstance(s, (int, float)) or s != o[0] - o[1]:
            return False
    return True


def changed_endpoints(m_rc):
    """Atoms incident to the bonds of the MODEL centre whose two orders differ."""
    out = set()
    for u, v, a in m_rc["edges"]:
        o = graphio.unval(a.get("order"))
        if isinstance(o, tuple) and len(o) == 2 and o[0] != o[1]:
            out.update((u, v))
    return out


def ball_radius(its, seeds, nodes):
    """Largest distance (in bonds, computed here by breadth-first search) from the seed set to one of `nodes`;
    None when some node cannot be reached from the seeds at all."""
    dist = nx.multi_source_dijkstra_path_length(its, set(seeds), weight=None) if seeds else {}
    r = 0
    for n in nodes:
        if n not in dist:
            return None
        r = max(r, dist[n])
    return r


def free_radius_need(its, K, m_rc):
    """-> (verdict, r): verdict is a description when K already fails without a model ball, "" when it passes without one
    (radius 0: the centre itself), None when K has to be compared with the model's radius-r context."""
    seeds = {n for n, _ in m_rc["nodes"]}
    if not seeds <= set(K.nodes):
        return f"centre atoms {sorted(seeds - set(K.nodes))[:5]} are missing from the context", None
    r = ball_radius(its, seeds, K.nodes)
    if r is None:
        return "the context contains atoms that are not connected to the centre", None
    if r == 0 and canon(enc(K), RC_KEYS, RC_EDGE_KEYS) == canon(m_rc, RC_KEYS, RC_EDGE_KEYS):
        return "", 0
    return None, max(r, 1)


def free_radius_compare(K, r, m_ball):
    x, y = canon(enc(K), ITS_NODE_KEYS, ITS_EDGE_KEYS), canon(m_ball, ITS_NODE_KEYS, ITS_EDGE_KEYS)
    if x != y:
        return f"its farthest atom is within {r} bonds of the centre, but it is not the radius-{r} context: " + first_diff(x, y)
    return None


def free_radius_verdict(ctx, its, I0, K, m_rc):
    """extract_k(its, -1): the property does not fix the radius the code picks, only that a radius-k context is exactly
    the atoms within k bonds of the centre.  K is a distance ball around the centre iff it equals the ball whose radius
    is the distance of its farthest atom; that ball comes from the Lean model.  -> None | description."""
    why, r = free_radius_need(its, K, m_rc)
    if why is not None:
        return why or None
    return free_radius_compare(K, r, ctx.lean().ok([{"cmd": "its.extractK", "its": I0, "k": r}])[0])


def aux_cases(ctx, cases, tag, all_params=False, max_nodes=AUX_MAX_NODES):
    """cases: list of (its, meta).  The remaining public routes into the centre / context code."""
    keep, reqs = [], []
    chunk, chunks = [], []
    for its, meta in cases:
        if len(its) > max_nodes:
            ctx.count(f"{tag}:aux:skipped-large")
            continue
        chunk.append((its, meta))
        if len(chunk) == 20:
            chunks.append(chunk)
            chunk = []
    if chunk:
        chunks.append(chunk)
    for chunk in chunks:
        pks = [0, 1, 2, 3] if all_params else [ctx.rnd.choice([0, 1, 1, 2, 3])]
        pkeys = ctx.rnd.choice(CTX_KEYS)
        par = {}
        for pk in pks:
            try:
                par[pk] = impl_parallel_contexts([g for g, _ in chunk], pkeys[0], pkeys[1], pk)
            except Exception as e:
                ctx.violation("paralle_context_extraction raises on ITS graphs", {"stream": tag, "its": enc(chunk[0][0]), "aux": "parallel", "n_knn": pk},
                              {"error": repr(e)[:300], "chunk": len(chunk)}, no_input=len(chunk) > 1)
                return
        for i, (its, meta) in enumerate(chunk):
            I0 = enc(its)
            cks = [0, 1, 2, 3] if all_params else [ctx.rnd.choice([0, 1, 2, 3])]
            ckeys = ctx.rnd.choice(CTX_KEYS)
            try:
                Km1 = impl_k(its, -1)
                rfree = impl_free_radius(its)
                fu = impl_unequal(its)
                ce = {k: impl_context_extraction(its, ckeys[0], ckeys[1], k) for k in cks}
            except Exception as e:
                ctx.violation("extract_k(-1) / context_extraction / find_unequal_order_edges raises on an ITS graph",
                              {"stream": tag, "its": I0, "meta": meta, "aux": "raise"}, {"error": repr(e)[:300]})
                continue
            if enc(its) != I0:
                ctx.violation("a context entry point mutated the ITS", {"stream": tag, "its": I0, "meta": meta, "aux": "mutated"})
            ks = sorted(set(cks) | set(pks))
            keep.append((its, I0, meta, (Km1, rfree), fu, ce, {k: par[k][i] for k in pks}, ks, len(reqs), ckeys, pkeys))
            reqs.append({"cmd": "its.rc", "its": I0})
            reqs.append(free_request(its, I0))
            reqs.append({"cmd": "its.unequalOrderEdges", "its": I0})
            for k in ks:
                if k >= 1:
                    reqs.append({"cmd": "its.extractK", "its": I0, "k": k})
    reps = ctx.lean().ok(reqs, shards=8)
    models, second = [], []
    for its, I0, meta, (Km1, rfree), fu, ce, pa, ks, at, ckeys, pkeys in keep:
        model = {0: reps[at], "free": reps[at + 1], "unequal": reps[at + 2]}
        j = at + 3
        for k in ks:
            if k >= 1:
                model[k] = reps[j]
                j += 1
        need = free_radius_need(its, Km1, reps[at])
        if need[0] is None and need[1] not in model:
            model[need[1]] = len(second)                       # filled in below
            second.append({"cmd": "its.extractK", "its": I0, "k": need[1]})
            need = need + (True,)
        models.append((model, need))
    reps2 = ctx.lean().ok(second, shards=8) if second else []
    for (its, I0, meta, (Km1, rfree), fu, ce, pa, ks, at, ckeys, pkeys), (model, need) in zip(keep, models):
        if len(ctx.violations) >= 6:
            return
        m_rc = model[0]
        if len(need) == 3:
            model[need[1]] = reps2[model[need[1]]]
        case = {"stream": tag, "its": I0, "meta": meta}
        seeds = {n for n, _ in m_rc["nodes"]}
        ctx.case(["aux", I0], len(seeds) >= 2 and len(its) > len(seeds))
        ctx.count(f"{tag}:aux:cases")
        # (1) free-radius mode
        r = ball_radius(its, seeds, Km1.nodes) if seeds <= set(Km1.nodes) else None
        ctx.count(f"{tag}:aux:k=-1:radius_of_result={'none' if r is None else min(r, 6)}")
        ctx.count(f"{tag}:aux:k=-1:{'whole ITS' if len(Km1) == len(its) else 'proper part of the ITS'}")
        ctx.count(f"{tag}:aux:k=-1:radius_picked={min(rfree, 8)}")
        # second gate (specification, independent of the model of the search): a distance ball around the centre
        why = need[0] if need[0] is not None else free_radius_compare(Km1, need[1], model[need[1]])
        if why:
            ctx.violation("extract_k(its, -1) is not a distance ball around the reaction centre",
                          shrink_aux(ctx, dict(case, aux="k=-1"), lambda J: free_radius_verdict(ctx, J, enc(J), impl_k(J, -1), ctx.lean().ok([{"cmd": "its.rc", "its": enc(J)}])[0])),
                          {"why": why})
            continue
        # first gate: the Lean model of the free-radius mode (its.extractFree: graph and radius, as coded)
        why = free_model_verdict(Km1, rfree, model["free"])
        if why:
            ctx.violation("extract_k(its, -1) / longest_radius_extension differ from the model its.extractFree (the result is still a distance ball)",
                          dict(case, aux="k=-1:model"), {"why": why}, no_input=True)
            continue
        if wf_its(its) and seeds:
            # Lean extractFree_spec: on a well-formed ITS the free-radius context is the component(s) of the centre
            comp = set()
            for c in nx.connected_components(its):
                if c & seeds:
                    comp |= c
            ctx.count(f"{tag}:aux:k=-1:wf-ITS:component-checked")
            if {int(n) for n in Km1.nodes} != {int(n) for n in comp}:
                ctx.violation("extract_k(its, -1) on a well-formed ITS is not the connected component of the reaction centre (Lean extractFree_spec)",
                              dict(case, aux="k=-1:component"), {"impl": sorted(int(n) for n in Km1.nodes)[:20], "component": sorted(int(n) for n in comp)[:20]})
                continue
        # (2) dict wrappers, non-default keys
        bad = None
        for how, got, keys in (("context_extraction", ce, ckeys), ("paralle_context_extraction", pa, pkeys)):
            for k, K in got.items():
                nk, ek = (RC_KEYS, RC_EDGE_KEYS) if k == 0 else (ITS_NODE_KEYS, ITS_EDGE_KEYS)
                x, y = canon(enc(K), nk, ek), canon(model[k], nk, ek)
                ctx.count(f"{tag}:aux:{how}:k={k}")
                ctx.count(f"{tag}:aux:{how}:keys={keys[0]}/{keys[1]}")
                if x != y and bad is None:
                    bad = (how, k, keys, first_diff(x, y))
        if bad:
            how, k, keys, diff = bad
            ctx.violation(f"{how}(n_knn={k}) does not return the radius-{k} context of the model (distance ball around the centre)",
                          dict(case, aux=how, n_knn=k, keys=list(keys)), {"diff": diff})
            continue
        # (3) atoms of the changed bonds
        got_fu = {int(n) for n in fu}
        if wf_its(its):
            # second gate (specification; Lean unequalOrderEdges_spec (2)): atoms of the changed bonds of the model centre
            want = changed_endpoints(m_rc)
            ctx.count(f"{tag}:aux:unequal_order_atoms={min(len(want), 6)}")
            if got_fu != want:
                ctx.violation("find_unequal_order_edges is not the set of atoms incident to the bonds whose order differs",
                              shrink_aux(ctx, dict(case, aux="unequal"), lambda J: wf_its(J) and set(impl_unequal(J)) != changed_endpoints(ctx.lean().ok([{"cmd": "its.rc", "its": enc(J)}])[0])),
                              {"impl": sorted(fu)[:12], "model": sorted(want)[:12]})
                continue
        if unequal_expressible(its):
            # first gate: the Lean model of find_unequal_order_edges, as coded (also on ill-formed ITS)
            m_un = model["unequal"]
            ctx.count(f"{tag}:aux:unequal_order:model-gated:{'wf' if wf_its(its) else 'ill-formed ITS'}")
            if "error" in m_un or got_fu != set(m_un["nodes"]):
                ctx.violation("find_unequal_order_edges differs from the model its.unequalOrderEdges",
                              dict(case, aux="unequal:model"), {"impl": sorted(got_fu)[:12], "model": m_un if "error" in m_un else m_un["nodes"][:12]},
                              no_input=True)
        else:
            ctx.count(f"{tag}:aux:unequal_order:not-gated(order written as a list)")


def shrink_aux(ctx, case, bad):
    its = materialize(graphio.to_nx(case["its"]), case.get("meta"))
    if len(its) > 14:
        return case

    def isbad(J):
        try:
            return bool(bad(J))
        except Exception:
            return False

    changed = True
    while changed and len(its) > 1:
        changed = False
        for n in sorted(its.nodes):
            J = its.copy()
            J.remove_node(n)
            if isbad(J):
                its, changed = J, True
                break
    out = dict(case)
    out["its"] = enc(its)
    return out


# ---- rsmi_to_its(core=True)
GRAPH_OPTS = ("drop_non_aam", "sanitize", "use_index_as_atom_map", "node_attrs", "edge_attrs")
ENTRY_OPTS = [
    {}, {}, {"explicit_hydrogen": True}, {"explicit_hydrogen": True},
    {"sanitize": False}, {"drop_non_aam": False}, {"use_index_as_atom_map": False},
    {"explicit_hydrogen": True, "sanitize": False},
    {"drop_non_aam": False, "use_index_as_atom_map": False},
    {"node_attrs": ["element", "aromatic", "hcount", "charge", "neighbors", "atom_map", "isomer"]},
    {"node_attrs": ["element", "aromatic", "hcount", "charge", "neighbors", "atom_map", "radical"], "explicit_hydrogen": True},
]


def impl_rsmi_to_its(rsmi, **kw):
    from synkit.IO.chem_converter import rsmi_to_its
    return rsmi_to_its(rsmi, **kw)


def entry_cases(ctx, items, tag):
    """items: list of (rsmi, options, meta).  rsmi_to_its(rsmi, core=True, **options) must be the centre of the ITS of that
    reaction: (i) == model getRc of the ITS the same call returns with core=False; (ii) without hydrogen expansion also
    == model getRc of the MODEL's ITS (its.construct) of the two graphs rsmi_to_graph parses under the same options."""
    from synkit.IO.chem_converter import rsmi_to_graph
    keep, reqs = [], []
    for rsmi, opts, meta in items:
        okey = json.dumps(opts, sort_keys=True)
        try:
            full = impl_rsmi_to_its(rsmi, core=False, **opts)
            F0 = enc(full)
        except Exception as e:
            ctx.count(f"{tag}:skipped:no ITS for this reaction/options:{type(e).__name__}")
            continue
        case = {"stream": tag, "rsmi": rsmi, "options": opts, "meta": meta}
        try:
            core = impl_rsmi_to_its(rsmi, core=True, **opts)
            core2 = impl_rc(core)
            C0 = enc(core)
        except Exception as e:
            ctx.violation("rsmi_to_its(core=True) raises where core=False returns an ITS", case, {"error": repr(e)[:300]})
            continue
        pair = None
        if not opts.get("explicit_hydrogen"):
            try:
                r, p = rsmi_to_graph(rsmi, **{k: v for k, v in opts.items() if k in GRAPH_OPTS})
                if r is not None and p is not None and len(r) and set(r.nodes) == set(p.nodes):
                    pair = (enc(r), enc(p))
            except Exception:
                pair = None
        keep.append((case, okey, full, F0, core, C0, core2, pair, len(reqs)))
        reqs.append({"cmd": "its.rc", "its": F0})
        if pair:
            reqs.append({"cmd": "its.construct", "G": pair[0], "H": pair[1]})
    reps = ctx.lean().ok(reqs, shards=8)
    second, where = [], {}
    for idx, (case, okey, full, F0, core, C0, core2, pair, at) in enumerate(keep):
        if pair and "graph" in reps[at + 1]:
            where[idx] = len(second)
            second.append({"cmd": "its.rc", "its": reps[at + 1]["graph"]})
    reps2 = ctx.lean().ok(second, shards=8) if second else []
    for idx, (case, okey, full, F0, core, C0, core2, pair, at) in enumerate(keep):
        if len(ctx.violations) >= 6:
            return
        m_rc = reps[at]
        nt = len(core) >= 2 and len(full) > len(core)
        ctx.case(["entry", case["rsmi"], okey], nt)
        ctx.count(f"{tag}:cases")
        ctx.count(f"{tag}:options={okey}")
        ctx.count(f"{tag}:rc_edges={min(core.number_of_edges(), 5)}")
        if any(full.nodes[u].get("element") == "H" and full.nodes[v].get("element") == "H" for u, v in core.edges):
            ctx.count(f"{tag}:with_HH_bond")
        a, b = canon(C0, RC_KEYS, RC_EDGE_KEYS), canon(m_rc, RC_KEYS, RC_EDGE_KEYS)
        if a != b:
            spec = ctx.lean().ok([{"cmd": "spec.its.rc", "its": F0, "rc": C0}])[0]
            ctx.violation("rsmi_to_its(core=True) is not the reaction centre of the ITS of the same reaction (model getRc of rsmi_to_its(core=False))",
                          case, {"diff": first_diff(a, b), "spec_rc_holds": spec}, no_input=bool(spec))
            continue
        if canon(enc(core2), RC_KEYS, RC_EDGE_KEYS) != a:
            ctx.violation("extracting the centre of rsmi_to_its(core=True) changes it", case)
            continue
        if idx in where:
            ctx.count(f"{tag}:model-chain(rsmi_to_graph -> its.construct -> its.rc)")
            c = canon(reps2[where[idx]], RC_KEYS, RC_EDGE_KEYS)
            if c != a:
                same_its = canon(F0, ITS_NODE_KEYS, ITS_EDGE_KEYS) == canon(reps[at + 1]["graph"], ITS_NODE_KEYS, ITS_EDGE_KEYS)
                ctx.violation("rsmi_to_its(core=True) is not the model centre of the model ITS of the graphs rsmi_to_graph parses under the same options",
                              case, {"diff": first_diff(a, c), "rsmi_to_its(core=False) == model ITS": same_its}, no_input=True)
        elif pair:
            ctx.count(f"{tag}:model-chain:its.construct undefined")
        else:
            ctx.count(f"{tag}:model-chain:not applicable (hydrogen expansion / unbalanced / unparsed)")


def entry_items(ctx, n_reactions):
    recs = load_reactions()
    chosen = recs if n_reactions is None else ctx.rnd.sample(recs, n_reactions)
    items = []
    for rec in chosen:
        kinds = ["identity", ctx.rnd.choice(["renumber", "renumber_sparse", "reverse", "shuffle"]), ctx.rnd.choice(["spectator_h", "spectator_h", "free_h"])]
        for kind in kinds:
            try:
                v = base.variant(rec["rsmi"], kind, ctx.rnd)
            except ValueError:                                  # not of the form reactants>>products
                v = None
            if v is None:
                ctx.count("entry:variant-not-applicable:" + kind)
                continue
            optsets = [{}, {"explicit_hydrogen": True}] if kind == "identity" else []
            optsets.append(ctx.rnd.choice(ENTRY_OPTS))
            if n_reactions is None:
                optsets.append(ctx.rnd.choice(ENTRY_OPTS))
            seen = set()
            for o in optsets:
                k = json.dumps(o, sort_keys=True)
                if k in seen:
                    continue
                seen.add(k)
                ctx.count("entry:variant:" + kind)
                items.append((v, dict(o), {"src": rec["src"], "idx": rec["idx"], "variant": kind}))
    return items


def rename_edge_keys(its, bond_key, standard_key):
    J = its.copy()
    for _, _, d in J.edges(data=True):
        if "order" in d:
            d[bond_key] = d.pop("order")
        if "standard_order" in d:
            d[standard_key] = d.pop("standard_order")
    return J


# ------------------------------------------------------------------ generators
def mutate_its(its, rnd):
    """Attribute-level edits of a well-formed ITS that exercise get_rc's guards."""
    its = its.copy()
    kind = rnd.choice(["none", "none", "std_missing", "std_none", "std_str", "std_true", "std_zeroed", "no_typesGH", "no_element", "is_mtg", "std_int"])
    es = sorted(its.edges)
    ns = sorted(its.nodes)
    if kind.startswith("std") and es:
        u, v = rnd.choice(es)
        d = its.edges[u, v]
        if kind == "std_missing":
            d.pop("standard_order", None)
        elif kind == "std_none":
            d["standard_order"] = None
        elif kind == "std_str":
            d["standard_order"] = "1.0"
        elif kind == "std_true":
            d["standard_order"] = True
        elif kind == "std_zeroed":
            d["standard_order"] = 0
        elif kind == "std_int" and float(d["standard_order"]).is_integer():
            d["standard_order"] = int(d["standard_order"])
    elif kind == "no_typesGH" and ns:
        its.nodes[rnd.choice(ns)].pop("typesGH", None)
    elif kind == "no_element" and ns:
        its.nodes[rnd.choice(ns)].pop("element", None)
    elif kind == "is_mtg" and es:
        for u, v in rnd.sample(es, min(len(es), 2)):
            its.edges[u, v]["is_mtg"] = rnd.choice([True, False, 1, 0, None])
    return its, kind


def exhaustive_its(n, codes):
    """All ITS on n shared atoms: element pattern (all C / first two H / all H), every unordered pair with
    an (order_G, order_H) pair from `codes`."""
    ids = list(range(1, n + 1))
    pairs = list(itertools.combinations(ids, 2))
    pats = [["C"] * n, ["H"] * min(2, n) + ["C"] * max(0, n - 2), ["H"] * n]
    seen = set()
    for pat in pats:
        if tuple(pat) in seen:
            continue
        seen.add(tuple(pat))
        lab = {i: (pat[i - 1], False, 0, 0) for i in ids}
        for choice in itertools.product(codes, repeat=len(pairs)):
            bg = {pr: float(c[0]) for pr, c in zip(pairs, choice) if c[0]}
            bh = {pr: float(c[1]) for pr, c in zip(pairs, choice) if c[1]}
            yield base.impl_its(base.mk_mol(ids, lab, bg), base.mk_mol(ids, lab, bh))


def relabel(its, rnd):
    ns = list(its.nodes)
    new = rnd.sample(range(1, 4 * len(ns) + 3), len(ns))
    return nx.relabel_nodes(its, dict(zip(ns, new)), copy=True)


def hh_without_typesgh(rnd):
    """A random molecule-like ITS plus one H-H pair (bond unchanged / formed / broken / order kept at 1) whose hydrogen
    atoms lack `typesGH` (one or both): the documented fallback of the H-H pass of get_rc."""
    G, H, tags = base.random_pair(rnd, 7)
    a = max(G.nodes) + 1
    b = a + 1
    for X in (G, H):
        for n in (a, b):
            X.add_node(n, element="H", aromatic=False, hcount=0, charge=0, neighbors=["H"], atom_map=n)
    how = rnd.choice(["unchanged", "unchanged", "unchanged", "formed", "broken"])
    if how != "formed":
        G.add_edge(a, b, order=1.0)
    if how != "broken":
        H.add_edge(a, b, order=1.0)
    its = base.impl_its(G, H)
    drop = rnd.choice([(a,), (b,), (a, b)])
    for n in drop:
        its.nodes[n].pop("typesGH", None)
    return its, {"edits": tags, "hh": how, "typesGH_dropped": len(drop)}


def corpus_stream(ctx, per_variant):
    recs = load_reactions()
    cases, isos = [], []
    chosen = recs if per_variant is None else ctx.rnd.sample(recs, per_variant)
    for rec in chosen:
        r, p, why = base.reaction_graphs(rec["rsmi"])
        if why:
            ctx.count("corpus:skipped:" + why)
            continue
        its = base.impl_its(r, p)
        cases.append((its, {"src": rec["src"], "idx": rec["idx"], "variant": "identity", "rsmi": rec["rsmi"]}))
        for kind in ("renumber", "renumber_sparse"):
            v = base.variant(rec["rsmi"], kind, ctx.rnd)
            r2, p2, why = base.reaction_graphs(v)
            if why:
                ctx.count("corpus:variant-skipped:" + why)
                continue
            its2 = base.impl_its(r2, p2)
            meta = {"src": rec["src"], "idx": rec["idx"], "variant": kind, "rsmi": v}
            cases.append((its2, meta))
            isos.append((impl_rc(its), impl_rc(its2), {"stream": "corpus", "rsmi": rec["rsmi"], "renumbered": v}))
    for g in load_its_graphs() if per_variant is None else ctx.rnd.sample(load_its_graphs(), 10):
        cases.append((graphio.to_nx(g["its"]), {"src": "hydro-its", "idx": g["idx"]}))
    return cases, isos


# ------------------------------------------------------------------ representation / decoration / scale streams
#   (a) DECORATED: ITS graphs whose bonds / atoms carry extra attributes that neither get_rc nor the context code selects
#       (`weight`, `label`, `id`, `name`, `capacity`, `length`, ...: names a library default may silently pick up; numeric values
#       != 1 incl. 0 / < 1 / >= 10, strings, None, empty tuples; uniform / per-bond / only on part of the bonds / centre vs rest).
#       "Within k bonds" counts bonds: none of these annotations may move an atom into or out of a context.
#   (b) REPRESENTATION: the same ITS with numbers that are EQUAL under `==` written differently WITHIN one graph (1 / 1.0 /
#       numpy.float64(1.0) / numpy.int64(1) in order pairs, standard_order, charge, hcount, atom_map, typesGH; order pair as
#       tuple or list; some node ids numpy.int64).  graphio maps all of them onto one `Val.num`, so the model answer is that
#       of the plain ITS.  Replay re-applies the representation from `meta["repr_seed"]` (per-item keyed, so it survives
#       shrinking).
#   (c) SCALE / SHAPE: chains, rings, stars, trees, caterpillars, two components and dense graphs on 4..14 atoms (beyond the
#       exhaustive n <= 3/4 and the random n <= 9), centre at a random place, ids incl. 0 and ids >= 1000.
#   (d) DIRECT: RadiusExpand.find_nearest_neighbors(its, centre atoms as a list in several orders / with repeats, k) and
#       extract_k re-queried on the same object with the radii in a shuffled order == model distance ball (its.rc /
#       its.extractK node sets).
EDGE_EXTRA = ["weight", "weight", "weight", "weight", "label", "id", "name", "capacity", "length", "distance", "cost", "flow", "color", "key"]
NODE_EXTRA = ["weight", "label", "id", "name", "capacity", "demand", "bipartite", "color", "pos", "value"]
EXTRA_NUMS = [0, 0.0, 0.5, 0.5, 1, 1.0, 1.5, 2, 2.0, 2.5, 3, 3.5, 5, 10, 12.5, 50, 100.0, 2500, -1, -0.5]
EXTRA_OTHER = ["", "a", "1", "weight", None, (), (1, 2), True, False]


def extra_value(rnd):
    return rnd.choice(EXTRA_NUMS) if rnd.random() < 0.8 else rnd.choice(EXTRA_OTHER)


def decorate(its, rnd):
    """-> (copy of `its` with extra, unselected attributes, meta)."""
    J = its.copy()
    names = sorted(set(rnd.choice(EDGE_EXTRA) for _ in range(rnd.choice([1, 1, 2, 3]))))
    how = {}
    for name in names:
        mode = rnd.choice(["uniform", "per-bond", "partial", "by-centre"])
        how[name] = mode
        a, b = extra_value(rnd), extra_value(rnd)
        for u, v, d in J.edges(data=True):
            if mode == "uniform":
                d[name] = a
            elif mode == "per-bond":
                d[name] = extra_value(rnd)
            elif mode == "partial":
                if rnd.random() < 0.5:
                    d[name] = extra_value(rnd)
            else:
                s = d.get("standard_order")
                d[name] = a if isinstance(s, (int, float)) and s != 0 else b
    nnames = []
    if rnd.random() < 0.4:
        nnames = sorted(set(rnd.choice(NODE_EXTRA) for _ in range(rnd.choice([1, 2]))))
        for name in nnames:
            a = extra_value(rnd)
            uniform = rnd.random() < 0.4
            for n, d in J.nodes(data=True):
                if uniform:
                    d[name] = a
                elif rnd.random() < 0.7:
                    d[name] = extra_value(rnd)
    return J, {"edge_extra": how, "node_extra": nnames}


def _pick(seed, key, xs):
    import random as _r
    return _r.Random(f"{seed}|{key}").choice(xs)


def _chance(seed, key):
    import random as _r
    return _r.Random(f"{seed}|{key}").random()


def _is_num(x):
    import numpy as np
    return isinstance(x, (int, float, np.integer, np.floating)) and not isinstance(x, (bool, np.bool_))


def num_form(x, seed, key, npint=True):
    """One of the `==`-equal ways of writing the number x, chosen from (seed, key) only."""
    import numpy as np
    f = float(x)
    forms = [f, np.float64(f)]
    if f.is_integer():
        forms.append(int(f))
        if npint:
            forms.append(np.int64(int(f)))
    return _pick(seed, key, forms)


def deep_form(x, seed, key):
    """typesGH-like nested value: numbers re-written, tuple/list containers kept (inner lists are what the library stores)."""
    if _is_num(x):
        return num_form(x, seed, key)
    if isinstance(x, tuple):
        return tuple(deep_form(y, seed, f"{key}.{i}") for i, y in enumerate(x))
    if isinstance(x, list):
        return [deep_form(y, seed, f"{key}.{i}") for i, y in enumerate(x)]
    return x


def rerepresent(its, seed):
    """The same ITS (equal under `==`, encoded to the same Lean value), numbers written in mixed ways.  Every choice depends
    on (seed, atom / bond ids, attribute) only.  standard_order may be numpy.int64 too (get_rc rejected it until the repair F43, /repo b403775)."""
    import numpy as np
    npids = _chance(seed, "npids") < 0.35
    J = nx.Graph()

    def nid(n):
        n = int(n)
        return np.int64(n) if npids and _chance(seed, f"nid|{n}") < 0.5 else n

    for n, d in its.nodes(data=True):
        k = int(n)
        e = {}
        for a, x in d.items():
            if a in ("charge", "hcount", "atom_map") and _is_num(x):
                e[a] = num_form(x, seed, f"n|{k}|{a}")
            elif a == "typesGH" and isinstance(x, (tuple, list)):
                y = deep_form(x, seed, f"n|{k}|tg")
                e[a] = list(y) if _chance(seed, f"n|{k}|tgc") < 0.2 else tuple(y)
            else:
                e[a] = x
        J.add_node(nid(n), **e)
    for u, v, d in its.edges(data=True):
        a, b = sorted((int(u), int(v)))
        e = {}
        for t, x in d.items():
            if t == "order" and isinstance(x, (tuple, list)) and len(x) == 2 and all(_is_num(y) for y in x):
                y = [num_form(x[0], seed, f"e|{a}|{b}|o0"), num_form(x[1], seed, f"e|{a}|{b}|o1")]
                e[t] = y if _chance(seed, f"e|{a}|{b}|oc") < 0.2 else tuple(y)
            elif t == "standard_order" and _is_num(x):
                e[t] = num_form(x, seed, f"e|{a}|{b}|s")   # numpy.int64 too since the repair F43 (b403775)
            else:
                e[t] = x
        J.add_edge(nid(u), nid(v), **e)
    return J


ORDER_NAMES = {0: "NONE", 1: "SINGLE", 1.5: "AROMATIC", 2: "DOUBLE", 3: "TRIPLE"}


def order_as_strings(its):
    """Bond orders given by name (standard_order stays the number the construction stored)."""
    J = its.copy()
    for _, _, d in J.edges(data=True):
        o = d.get("order")
        if isinstance(o, tuple) and len(o) == 2 and all(_is_num(x) and x in ORDER_NAMES for x in o):
            d["order"] = (ORDER_NAMES[o[0]], ORDER_NAMES[o[1]])
    return J


def materialize(its, meta):
    """The graph a stored case stands for: the representation of stream (b) is re-applied from its seed."""
    if isinstance(meta, dict) and meta.get("repr_seed") is not None:
        return rerepresent(its, meta["repr_seed"])
    return its


def structured_its(rnd, n=None, shapes=None):
    """Shapes in which the radii 1, 2, 3 give different contexts, on more atoms than the exhaustive / random streams.
    (`n`, `shapes`: the large stream asks for a given number of atoms; the defaults draw exactly as before.)"""
    shape = rnd.choice(shapes or ["chain", "chain", "ring", "star", "tree", "caterpillar", "two-parts", "dense"])
    if n is None:
        n = rnd.randint(4, 5) if shape == "dense" else rnd.randint(5, 14)
    ids = list(range(1, n + 1))
    lab = {i: (rnd.choice(["C", "C", "C", "N", "O", "S"]), False, rnd.choice([0, 0, 1, 2]), rnd.choice([0, 0, 0, 1, -1])) for i in ids}
    bonds = {}
    if shape in ("chain", "ring", "two-parts"):
        for i in range(1, n):
            bonds[(i, i + 1)] = 1.0
        if shape == "ring":
            bonds[(1, n)] = 1.0
        if shape == "two-parts":
            del bonds[(n // 2, n // 2 + 1)]
    elif shape == "star":
        for i in range(2, n + 1):
            bonds[(1, i)] = 1.0
    elif shape == "tree":
        for i in range(2, n + 1):
            bonds[(rnd.randint(1, i - 1), i)] = rnd.choice([1.0, 1.0, 2.0])
    elif shape == "caterpillar":
        spine = max(3, n // 2)
        for i in range(1, spine):
            bonds[(i, i + 1)] = 1.0
        for i in range(spine + 1, n + 1):
            bonds[(rnd.randint(1, spine), i)] = 1.0
    else:
        for pr in itertools.combinations(ids, 2):
            if rnd.random() < 0.6:
                bonds[pr] = rnd.choice([1.0, 1.0, 2.0])
    for i in ids:                                             # hydrogen leaves
        deg = sum(1 for pr in bonds if i in pr)
        if deg == 1 and rnd.random() < 0.25:
            lab[i] = ("H", False, 0, 0)
    bonds2 = dict(bonds)
    edits = []
    for _ in range(rnd.choice([1, 1, 1, 2, 3])):
        c = rnd.random()
        if c < 0.45 and bonds2:
            k = rnd.choice(sorted(bonds2))
            del bonds2[k]
            edits.append("break")
        elif c < 0.75 and bonds2:
            k = rnd.choice(sorted(bonds2))
            bonds2[k] = rnd.choice([o for o in (1.0, 2.0, 3.0) if o != bonds2[k]])
            edits.append("order")
        else:
            a, b = sorted(rnd.sample(ids, 2))
            if (a, b) not in bonds2:
                bonds2[(a, b)] = 1.0
                edits.append("form")
    order = ids[:]
    if rnd.random() < 0.5:
        rnd.shuffle(order)
    its = base.impl_its(base.mk_mol(order, lab, bonds), base.mk_mol(order[::-1] if rnd.random() < 0.3 else order, lab, bonds2))
    ids_how = rnd.choice(["1..n", "1..n", "with-0", "large", "sparse"])
    if ids_how != "1..n":
        ns = list(its.nodes)
        if ids_how == "with-0":
            new = rnd.sample(range(0, n), n)
        elif ids_how == "large":
            new = rnd.sample(range(1000, 1000 + 3 * n), n)
        else:
            new = rnd.sample(range(0, 50 * n), n)
        its = nx.relabel_nodes(its, dict(zip(ns, new)), copy=True)
    return its, {"shape": shape, "n": n, "edits": edits, "ids": ids_how}


def repr_bases(ctx, n_struct, n_random, n_corpus):
    out = []
    for _ in range(n_struct):
        its, meta = structured_its(ctx.rnd)
        ctx.count("shape:" + meta["shape"])
        ctx.count("shape:ids=" + meta["ids"])
        out.append((its, meta))
    for _ in range(n_random):
        G, H, tags = base.random_pair(ctx.rnd, 12)
        out.append((base.impl_its(G, H), {"edits": tags, "shape": "random-pair(n<=12)"}))
    recs = load_reactions()
    for rec in ctx.rnd.sample(recs, min(n_corpus, len(recs))):
        r, p, why = base.reaction_graphs(rec["rsmi"])
        if why or len(r) > 60:
            continue
        out.append((base.impl_its(r, p), {"src": rec["src"], "idx": rec["idx"], "shape": "corpus"}))
    return out


def repr_stream(ctx, bases, n_decor, n_repr):
    """-> (plain, decorated, re-represented) case lists for its_cases / aux_cases / direct_cases."""
    plain = [(its, dict(meta)) for its, meta in bases]
    decorated, rep = [], []
    for i in range(n_decor):
        its, meta = bases[i % len(bases)]
        J, how = decorate(its, ctx.rnd)
        for name, mode in how["edge_extra"].items():
            ctx.count(f"decorated:bond attribute:{name}")
            ctx.count(f"decorated:mode:{mode}")
        for name in how["node_extra"]:
            ctx.count(f"decorated:atom attribute:{name}")
        decorated.append((J, dict(meta, **how)))
    for i in range(n_repr):
        its, meta = bases[(i * 7 + 3) % len(bases)]
        m = dict(meta)
        c = ctx.rnd.random()
        if c < 0.12:
            its = order_as_strings(its)
            m["orders"] = "names"
            ctx.count("representation:bond orders by name")
        if c > 0.75:
            its, how = decorate(its, ctx.rnd)
            m.update(how)
            ctx.count("representation:also decorated")
        seed = ctx.rnd.getrandbits(32)
        m["repr_seed"] = seed
        J = rerepresent(its, seed)
        ctx.count("representation:generated")
        if any(type(n) is not int for n in J.nodes):
            ctx.count("representation:numpy.int64 atom ids mixed with int")
        if any(isinstance(d.get("order"), list) for _, _, d in J.edges(data=True)):
            ctx.count("representation:order pair as list on some bonds")
        rep.append((J, m))
    return plain, decorated, rep


def impl_neighbours(its, centre, k):
    from synkit.Graph.Context.radius_expand import RadiusExpand
    return RadiusExpand.find_nearest_neighbors(its, centre, k)


def centre_forms(rnd, centre):
    """The centre atoms as the List[int] find_nearest_neighbors documents: several orders, with repeats."""
    xs = list(centre)
    sh = xs[:]
    rnd.shuffle(sh)
    return [("list", xs), ("reversed", xs[::-1]), ("shuffled", sh), ("with-repeats", xs + xs[:2] + sh[:1])]


def bfs_ball(its, seeds, k):
    seen = {n for n in seeds if n in its}
    frontier = set(seen)
    for _ in range(k):
        frontier = {m for n in frontier for m in its[n]} - seen
        seen |= frontier
    return seen


def direct_cases(ctx, cases, tag, all_params=False):
    """find_nearest_neighbors on the centre atoms / extract_k re-queried in a shuffled radius order == model balls."""
    keep, reqs = [], []
    for its, meta in cases:
        I0 = enc(its)
        try:
            centre = list(impl_rc(its).nodes)
            forms = centre_forms(ctx.rnd, centre)
            if not all_params:
                forms = ctx.rnd.sample(forms, 2)
            ks = list(range(KMAX + 1))
            ctx.rnd.shuffle(ks)
            got = []
            for name, xs in forms:
                for k in (ks if all_params else ks[:2]):
                    arg = list(xs)
                    got.append((f"find_nearest_neighbors(centre as {name}, {k})", k, set(impl_neighbours(its, arg, k)), arg == list(xs)))
            for k in ks + ks[:1]:
                got.append((f"extract_k(its, {k}) re-queried (radius order {ks})", k, set(impl_k(its, k).nodes), True))
        except Exception as e:
            ctx.violation("find_nearest_neighbors / extract_k raises on an ITS graph", {"stream": tag, "its": I0, "meta": meta, "direct": "raise"}, {"error": repr(e)[:300]})
            continue
        if enc(its) != I0:
            ctx.violation("find_nearest_neighbors / extract_k mutated the ITS", {"stream": tag, "its": I0, "meta": meta, "direct": "mutated"})
        keep.append((its, I0, meta, got, len(reqs)))
        reqs.append({"cmd": "its.rc", "its": I0})
        for k in range(1, KMAX + 1):
            reqs.append({"cmd": "its.extractK", "its": I0, "k": k})
    reps = ctx.lean().ok(reqs, shards=8)
    for its, I0, meta, got, at in keep:
        if len(ctx.violations) >= 6:
            return
        balls = [{n for n, _ in reps[at + k]["nodes"]} for k in range(KMAX + 1)]
        ctx.case(["direct", I0], len(balls[0]) >= 2 and len(its) > len(balls[0]))
        ctx.count(f"{tag}:direct:cases")
        for what, k, nodes, arg_kept in got:
            ctx.count(f"{tag}:direct:queries")
            if not arg_kept:
                ctx.violation("find_nearest_neighbors changed the list of centre atoms it was given", {"stream": tag, "its": I0, "meta": meta, "direct": what})
                break
            if {int(n) for n in nodes} != balls[k]:
                spec = bfs_ball(its, balls[0], k)
                ok = {int(n) for n in nodes} == {int(n) for n in spec}
                ctx.violation(f"{what.split('(')[0]}: the radius-{k} neighbourhood of the centre is not the set of atoms within {k} bonds of it",
                              {"stream": tag, "its": I0, "meta": meta, "direct": what},
                              {"impl": sorted(int(n) for n in nodes)[:20], "model": sorted(balls[k])[:20], "bfs_spec_holds": ok}, no_input=ok)
                break


def npint_probe(ctx):
    """NOT gated, recorded only: standard_order written as numpy.int64 (== 1, but not an instance of int/float, which is what
    get_rc's guard tests).  The count shows whether the implementation keeps such a changed bond."""
    import numpy as np
    for _ in range(10):
        its, _ = structured_its(ctx.rnd)
        J = its.copy()
        hit = False
        for _, _, d in J.edges(data=True):
            s = d.get("standard_order")
            if _is_num(s) and s != 0 and float(s).is_integer():
                d["standard_order"] = np.int64(int(s))
                hit = True
        if not hit:
            continue
        try:
            same = {frozenset(e) for e in impl_rc(J).edges} == {frozenset(e) for e in impl_rc(its).edges}
        except Exception:
            same = False
        if same:
            ctx.count("standard_order as numpy.int64: centre unchanged")
        else:
            ctx.violation("get_rc loses the changed bonds when standard_order is written as numpy.int64 (F43)",
                          {"its": graphio.graph(its), "note": "every non-zero integral standard_order rewritten as numpy.int64"}, {"stream": "npint-probe"})


# ------------------------------------------------------------------ look-alike labels / sizes beyond the small-int cache / call sequences
#   (e) LOOK-ALIKE element symbols: two-letter symbols whose first letter is itself an element ('Hg', 'He', 'Hf', 'Ho', 'Hs' next
#       to 'H'; 'Cl', 'Co', 'Cs' next to 'C'; 'Na', 'Ne', 'Ni' next to 'N'; ...) and symbols that contain another one ('Rh', 'Th').
#       A two-character string is a 2-sequence, has a first letter, a prefix, ...: the property's "hydrogen" is the atom whose
#       element IS 'H' (the model tests `element = .str "H"`).  Random molecule-like ITS with part of the atoms of one family
#       renamed to look-alikes plus planted atom pairs of that family (bond unchanged / formed / broken / order changed); ALL ITS on
#       two atoms over a mixed alphabet (thorough: also on three); reaction SMILES with look-alike spectators / metal-metal dimers
#       through rsmi_to_its(core=True) and through the ITS construction.
#   (f) LARGE: ITS on more than 256 atoms / bonds (chain, ring, star with a hub of degree > 256, tree, caterpillar), atom ids and
#       atom maps beyond CPython's small-int cache and every occurrence of an id a DISTINCT int object (`is` and `==` differ only
#       there), an unchanged H-H pair among the last atoms.  The Lean side is the linear its.rc / its.extractK (no enumeration);
#       the relabelled copy comes with its bijection, and only the (small) centres go to match.iso.
#   (g) SEQUENCES: get_rc, then one to three other public calls on the same / another object (find_unequal_order_edges,
#       longest_radius_extension, extract_k, get_rc with other options, get_rc of another ITS), then get_rc and extract_k again;
#       paralle_context_extraction on a list that holds the same object twice.  The model side is computed per query.
LOOKALIKE = {
    "H": ["He", "Hf", "Hg", "Ho", "Hs", "Hg", "He", "Rh", "Th"],
    "C": ["Cl", "Co", "Cs", "Ca", "Cu", "Cr", "Cd", "Ce", "Sc", "Tc"],
    "N": ["Na", "Ne", "Ni", "Nb", "Nd", "Np", "Zn", "Sn", "Mn"],
    "O": ["Os", "Og", "Co", "Po", "Ho"],
    "S": ["Si", "Sn", "Se", "Sb", "Sr", "Sc", "Cs", "Os", "Hs"],
    "B": ["Br", "Ba", "Be", "Bi", "Rb"],
    "F": ["Fe", "Fr", "Fm", "Hf"],
    "P": ["Pd", "Pt", "Pb", "Po", "Np"],
    "I": ["In", "Ir", "Ni", "Si"],
}
FAMILIES = ["H"] * 9 + ["C", "C", "N", "N", "O", "S", "B", "F", "P", "I"]


def family_alphabet(rnd, x):
    la = rnd.sample(sorted(set(LOOKALIKE[x])), rnd.choice([1, 2, 3]))
    return [x, x] + la + la


def set_elements(G, H, sub):
    """Rename atoms (same symbol on both sides) and rebuild the `neighbors` lists of both graphs."""
    for X in (G, H):
        for n, e in sub.items():
            X.nodes[n]["element"] = e
        for n in X.nodes:
            X.nodes[n]["neighbors"] = sorted(X.nodes[m]["element"] for m in X.neighbors(n))


def lookalike_its(rnd):
    """Molecule-like ITS in which atoms of one family (an element X and the two-letter symbols that look like it) sit next to
    each other: about half of the X atoms of a random (G, H) pair renamed, one or two planted pairs drawn from the family
    (mostly with an UNCHANGED bond), sometimes tied to the rest by an unchanged bond so that the contexts differ."""
    G, H, tags = base.random_pair(rnd, 7)
    x = rnd.choice(FAMILIES)
    alpha = family_alphabet(rnd, x)
    sub = {}
    for n in sorted(G.nodes):
        e = G.nodes[n]["element"]
        c = rnd.random()
        if e == x and c < 0.5:
            sub[n] = rnd.choice(alpha)
        elif e in LOOKALIKE and c < 0.15:
            sub[n] = rnd.choice(LOOKALIKE[e])
        elif c < 0.04:
            sub[n] = "*"
    top = max(G.nodes)
    planted = []
    for _ in range(rnd.choice([1, 1, 2])):
        a, b = top + 1, top + 2
        top += 2
        ea, eb = rnd.choice(alpha), rnd.choice(alpha)
        rest = sorted(G.nodes)
        for X in (G, H):
            X.add_node(a, element=ea, aromatic=False, hcount=0, charge=0, neighbors=[], atom_map=a)
            X.add_node(b, element=eb, aromatic=False, hcount=0, charge=0, neighbors=[], atom_map=b)
        how = rnd.choice(["unchanged"] * 5 + ["formed", "broken", "order"])
        og, oh = {"unchanged": (1.0, 1.0), "formed": (None, 1.0), "broken": (1.0, None), "order": (1.0, 2.0)}[how]
        if how == "unchanged" and rnd.random() < 0.25:
            og = oh = rnd.choice([2.0, 3.0])
        if og:
            G.add_edge(a, b, order=og)
        if oh:
            H.add_edge(a, b, order=oh)
        tied = rnd.random() < 0.5
        if tied:
            t = rnd.choice(rest)
            G.add_edge(a, t, order=1.0)
            H.add_edge(a, t, order=1.0)
        planted.append([ea, eb, how, "tied" if tied else "apart"])
    set_elements(G, H, sub)
    its = base.impl_its(G, H)
    meta = {"edits": tags, "family": x, "planted": planted}
    c = rnd.random()
    if c < 0.12:                                               # the documented typesGH fall-back of the H-H pass, next to look-alikes
        its.nodes[top].pop("typesGH", None)
        meta["typesGH_dropped"] = 1
    elif c < 0.2:                                              # a hand-made ITS: atoms carry nothing but element and atom_map
        for n, d in its.nodes(data=True):
            for k in list(d):
                if k not in ("element", "atom_map"):
                    del d[k]
        meta["bare"] = True
    return its, meta


def exhaustive_lookalike(n, alphabet, codes):
    """All ITS on n shared atoms whose elements are drawn from `alphabet` (every ordered pattern: the code may treat the two
    ends of a bond differently), every unordered pair of atoms with an (order_G, order_H) pair from `codes`."""
    ids = list(range(1, n + 1))
    pairs = list(itertools.combinations(ids, 2))
    for pat in itertools.product(alphabet, repeat=n):
        lab = {i: (pat[i - 1], False, 0, 0) for i in ids}
        for choice in itertools.product(codes, repeat=len(pairs)):
            bg = {pr: float(c[0]) for pr, c in zip(pairs, choice) if c[0]}
            bh = {pr: float(c[1]) for pr, c in zip(pairs, choice) if c[1]}
            yield base.impl_its(base.mk_mol(ids, lab, bg), base.mk_mol(ids, lab, bh)), {"n": n, "elements": list(pat)}


def lookalike_counts(ctx, tag, its):
    """Input distribution: unchanged bonds whose two atoms are (i) both real hydrogens, (ii) look-alikes of hydrogen / a
    hydrogen and a look-alike, (iii) two-letter symbols of another family."""
    for u, v, d in its.edges(data=True):
        o = d.get("order")
        if not (isinstance(o, tuple) and len(o) == 2 and o[0] == o[1]):
            continue
        a, b = its.nodes[u].get("element"), its.nodes[v].get("element")
        if not (isinstance(a, str) and isinstance(b, str)):
            continue
        if a == "H" and b == "H":
            ctx.count(f"{tag}:unchanged bond H-H")
        elif a[:1] == "H" and b[:1] == "H":
            ctx.count(f"{tag}:unchanged bond between H-look-alikes (Hg-Hg, H-He, ...)")
        elif len(a) == 2 and len(b) == 2:
            ctx.count(f"{tag}:unchanged bond between two two-letter symbols")


# ---- reaction SMILES with look-alike atoms
LOOK_SPECTATORS = [
    "[Hg:{a}][Hg:{b}]", "[Hg:{a}][Hg:{b}]", "[Cl:{c}][Hg:{a}][Hg:{b}][Cl:{d}]", "[H:{a}][Hg:{b}][H:{c}]", "[H:{a}][Hg:{b}]", "[Hf:{a}][Hf:{b}]",
    "[Ho:{a}][Ho:{b}]", "[Hs:{a}][Hs:{b}]", "[H:{a}][He+:{b}]", "[Hg:{a}][Hf:{b}]", "[Hg:{a}]=[Hg:{b}]", "[CH3:{c}][Hg:{a}][Hg:{b}][CH3:{d}]",
    "[H:{c}][Hf:{a}][Hf:{b}][H:{d}]", "[Hg+:{a}][Hg+:{b}]", "[He:{a}].[He:{b}]", "[H:{a}][H:{b}].[Hg:{c}][Hg:{d}]", "[H:{a}][H:{b}].[Ho:{c}][Hs:{d}]",
    "[Na:{a}][Na:{b}]", "[Cl:{a}][Cl:{b}]", "[Co:{a}][Co:{b}]", "[Cs:{a}][Cl:{b}]", "[Ni:{a}][Ni:{b}]", "[Os:{a}]=[Os:{b}]", "[Si:{a}][Si:{b}]",
    "[Sn:{a}][Sn:{b}]", "[Br:{a}][Br:{b}]", "[Cu:{a}][Cu:{b}]", "[Fe:{a}][Fe:{b}]", "[Pt:{a}][Pd:{b}]", "[Rh:{a}][Rh:{b}]", "[Th:{a}][Th:{b}]",
    "[CH3:{a}][Cl:{b}]", "[NH2:{a}][Na:{b}]", "[CH3:{a}][Co:{b}]", "[Nb:{a}][Nb:{b}]", "[Ca:{a}]([Cl:{b}])[Cl:{c}]",
]
LOOK_METALS = ["Hg", "Hg", "Hg", "Hf", "Ho", "Hs", "Hg", "Co", "Ni", "Cu", "Fe", "Sn", "Os", "Nb", "Pd", "Pt", "Rh", "Cs", "Na"]
LOOK_LIGANDS = ["Cl", "Br", "I", "F", "Cl"]
LOOK_TEMPLATES = [
    # ligand exchange at a metal-metal bonded dimer (the M-M bond is the same on both sides)
    "[{X}:1][{M}:2][{N}:3][{Y}:4].[{Z}-:5]>>[{X}-:1].[{Z}:5][{M}:2][{N}:3][{Y}:4]",
    "[{X}:1][{M}:2][{N}:3][{Y}:4].[{Z}-:5].[{Z}-:6]>>[{X}-:1].[{Z}:5][{M}:2][{N}:3][{Z}:6].[{Y}-:4]",
    # hydrogen added across / released from the dimer (H-H broken or formed, M-M kept)
    "[H:1][H:2].[{M}:3][{N}:4]>>[H:1][{M}:3][{N}:4][H:2]",
    "[H:1][{M}:3][{N}:4][H:2]>>[H:1][H:2].[{M}:3][{N}:4]",
    "[H:1][{M}:2].[{X}:3][{X}:4]>>[H:1][{X}:3].[{M}:2][{X}:4]",
    "[H:1][{M}:2][{N}:3].[H:4][{X}:5]>>[H:1][H:4].[{X}:5][{M}:2][{N}:3]",
    # the dimer bond itself changes (control: it has to be in the centre)
    "[{X}:1][{M}:2][{N}:3][{Y}:4]>>[{X}:1][{M}:2].[{N}:3][{Y}:4]",
    "[{M}:1][{N}:2]>>[{M}:1]=[{N}:2]",
    # the dimer next to an ordinary substitution
    "[{M}:1][{N}:2].[CH3:3][{X}:4].[OH-:5]>>[{M}:1][{N}:2].[CH3:3][OH:5].[{X}-:4]",
]


def _fresh_maps(rsmi):
    import re
    return max([int(x) for x in re.findall(r":(\d+)\]", rsmi)] or [0])


def lookalike_rsmi(ctx, n_corpus, n_templates):
    """-> list of (rsmi, meta): corpus reactions with unchanged look-alike spectators on both sides (fresh map numbers), and
    template reactions at metal-metal dimers with the metals / ligands drawn from the look-alike pools."""
    rnd = ctx.rnd
    out = []
    recs = load_reactions()
    for rec in rnd.sample(recs, min(n_corpus, len(recs))):
        rsmi = rec["rsmi"]
        try:
            l, r = rsmi.split(">>")
        except ValueError:
            continue
        top = _fresh_maps(rsmi)
        extra = []
        for _ in range(rnd.choice([1, 1, 2])):
            t = rnd.choice(LOOK_SPECTATORS)
            extra.append(t.format(a=top + 1, b=top + 2, c=top + 3, d=top + 4))
            top += 4
        side = ".".join(extra)
        v = (l + "." + side + ">>" + r + "." + side) if rnd.random() < 0.5 else (side + "." + l + ">>" + side + "." + r)
        if rnd.random() < 0.3:
            v = base.variant(v, rnd.choice(["renumber", "renumber_sparse", "shuffle", "reverse"]), rnd)
        out.append((v, {"src": rec["src"], "idx": rec["idx"], "variant": "look-alike spectator", "spectator": extra}))
    for _ in range(n_templates):
        t = rnd.choice(LOOK_TEMPLATES)
        m = rnd.choice(LOOK_METALS)
        f = {"M": m, "N": m if rnd.random() < 0.6 else rnd.choice(LOOK_METALS), "X": rnd.choice(LOOK_LIGANDS), "Y": rnd.choice(LOOK_LIGANDS), "Z": rnd.choice(LOOK_LIGANDS)}
        v = t.format(**f)
        if rnd.random() < 0.4:
            v = base.variant(v, rnd.choice(["renumber", "renumber_sparse", "shuffle", "spectator_h"]), rnd)
        out.append((v, {"src": "look-alike template", "variant": "template", "elements": f}))
    return out


def lookalike_entry_stream(ctx, n_corpus, n_templates):
    """-> (entry items for rsmi_to_its(core=True), ITS cases built by ITSConstruction from the parsed graphs)."""
    items, cases = [], []
    for rsmi, meta in lookalike_rsmi(ctx, n_corpus, n_templates):
        opts = [{}] + [dict(ctx.rnd.choice(ENTRY_OPTS))]
        seen = set()
        for o in opts:
            k = json.dumps(o, sort_keys=True)
            if k not in seen:
                seen.add(k)
                items.append((rsmi, o, meta))
        r, p, why = base.reaction_graphs(rsmi)
        if why:
            ctx.count("lookalike-entry:no graphs:" + why)
            continue
        cases.append((base.impl_its(r, p), dict(meta, rsmi=rsmi)))
    return items, cases


# ---- more than 256 atoms
LARGE_SHAPES = ["star", "chain", "tree", "ring", "caterpillar", "two-parts"]


def fresh_ints(its):
    """The same graph, every occurrence of an atom id / atom map a separate int object (no two occurrences of an id above 256
    are the same object, as after reading a file); equal under ==, same encoding."""
    def f(x):
        return int(str(int(x)))

    J = nx.Graph()
    for n, d in its.nodes(data=True):
        e = dict(d)
        if isinstance(e.get("atom_map"), int) and not isinstance(e.get("atom_map"), bool):
            e["atom_map"] = f(e["atom_map"])
        J.add_node(f(n), **e)
    for u, v, d in its.edges(data=True):
        J.add_edge(f(u), f(v), **dict(d))
    return J


def large_its(rnd, shape):
    """-> (its, meta, (relabelled copy, bijection)).  257..420 atoms; 1-3 bond edits anywhere; an unchanged H-H pair appended (its
    atoms are the last two of the graph, positions > 256), free or tied to an atom of the rest."""
    while True:
        n = rnd.randint(258, 420)
        its, meta = structured_its(rnd, n=n, shapes=[shape])
        if meta["edits"]:                                       # at least one bond really changes
            break
    top = max(its.nodes) + 1
    hh = rnd.choice(["none", "apart", "apart", "tied"])
    if hh != "none":
        lab = {1: ("H", False, 0, 0), 2: ("H", False, 0, 0)}
        m = base.mk_mol([1, 2], lab, {(1, 2): 1.0})
        pair = nx.relabel_nodes(base.impl_its(m, m.copy()), {1: top, 2: top + 1}, copy=True)
        for k, x in ((top, 1), (top + 1, 2)):
            pair.nodes[k]["atom_map"] = k
        rest = sorted(its.nodes)
        its = nx.compose(its, pair)
        if hh == "tied":
            its.add_edge(top, rnd.choice(rest), order=(1.0, 1.0), standard_order=0.0)
    its = fresh_ints(its)
    ns = list(its.nodes)
    new = rnd.sample(range(257, 257 + 3 * len(ns)), len(ns))
    f = dict(zip(ns, new))
    rel = fresh_ints(nx.relabel_nodes(its, f, copy=True))
    meta = dict(meta, hh_pair=hh, large=True)
    return its, meta, (rel, f)


def large_stream(ctx, count):
    """Large ITS through the main comparison (centre, K0..K3, idempotence: linear Lean commands), the direct stream, the auxiliary
    entry points, and - with the planted bijection - centre(relabelled) == relabelled centre; match.iso only sees the centres."""
    cases, isos = [], []
    for i in range(count):
        its, meta, (rel, f) = large_its(ctx.rnd, LARGE_SHAPES[i % len(LARGE_SHAPES)])    # every shape in every run (star: a hub of degree > 256)
        ctx.count("large:shape:" + meta["shape"])
        ctx.count("large:hh_pair:" + meta["hh_pair"])
        ctx.count("large:more than 256 " + ("atoms and bonds" if its.number_of_edges() > 256 else "atoms"))
        cases.append((its, meta))
        cases.append((rel, dict(meta, relabelled=True)))
        try:
            a, b = impl_rc(its), impl_rc(rel)
        except Exception:
            continue                                            # its_cases reports it
        want = nx.relabel_nodes(a, f, copy=True)
        x, y = canon(enc(b), ["element", "charge", "typesGH"], RC_EDGE_KEYS), canon(enc(want), ["element", "charge", "typesGH"], RC_EDGE_KEYS)
        ctx.count("large:planted-bijection checks")
        if x != y:
            ctx.violation("the centre of a relabelled large ITS is not the centre carried along the relabelling",
                          {"stream": "large", "its": enc(its), "relabelled": enc(rel)}, {"diff": first_diff(x, y)})
            return
        if len(a) <= 12:
            isos.append((a, b, {"stream": "large", "its": enc(its), "relabelled": enc(rel)}))
    its_cases(ctx, cases, "large", derive=False)
    if not ctx.violations:
        direct_cases(ctx, cases, "large")
    if not ctx.violations:
        aux_cases(ctx, cases[::2], "large", max_nodes=1000)     # the graphs as built (the relabelled copies only above)
    if not ctx.violations:
        iso_cases(ctx, isos, "large")


# ---- call sequences
SEQ_STEPS = ["find_unequal_order_edges", "longest_radius_extension", "extract_k(2)", "extract_k(-1)", "get_rc(disconnected)", "get_rc(keep_mtg)",
             "get_rc(element_key)", "get_rc(other ITS)", "extract_k(other ITS, 1)", "find_nearest_neighbors"]


def _seq_step(name, its, other, centre):
    from synkit.Graph.Context.radius_expand import RadiusExpand
    if name == "find_unequal_order_edges":
        RadiusExpand.find_unequal_order_edges(its)
    elif name == "longest_radius_extension":
        RadiusExpand.longest_radius_extension(its, list(centre))
    elif name == "extract_k(2)":
        impl_k(its, 2)
    elif name == "extract_k(-1)":
        impl_k(its, -1)
    elif name == "get_rc(disconnected)":
        impl_rc(its, disconnected=True)
    elif name == "get_rc(keep_mtg)":
        impl_rc(its, keep_mtg=True)
    elif name == "get_rc(element_key)":
        impl_rc(its, element_key=["element"])
    elif name == "get_rc(other ITS)":
        impl_rc(other)
    elif name == "extract_k(other ITS, 1)":
        impl_k(other, 1)
    elif name == "find_nearest_neighbors":
        impl_neighbours(its, list(centre), 1)


def sequence_cases(ctx, cases, tag, fixed=None):
    """get_rc / extract_k(1) AFTER other public calls, and paralle_context_extraction on [its, other, its]: == model per query."""
    keep, reqs = [], []
    other = None
    for its, meta in cases:
        if len(its) > AUX_MAX_NODES:
            continue
        I0 = enc(its)
        oth = other if other is not None else its
        other = its
        steps = list(fixed) if fixed is not None else ctx.rnd.sample(SEQ_STEPS, ctx.rnd.choice([1, 2, 3]))
        pk = ctx.rnd.choice([0, 1, 2])
        try:
            first = impl_rc(its)
            for s in steps:
                _seq_step(s, its, oth, first.nodes)
            again = impl_rc(its)
            K1 = impl_k(its, 1)
            par = impl_parallel_contexts([its, oth, its], "ITS", "K", pk)
        except Exception as e:
            ctx.violation("a sequence of public calls on an ITS raises", {"stream": tag, "its": I0, "meta": meta, "sequence": steps}, {"error": repr(e)[:300]})
            continue
        if enc(its) != I0:
            ctx.violation("a sequence of public calls mutated the ITS", {"stream": tag, "its": I0, "meta": meta, "sequence": steps})
        keep.append((I0, meta, steps, pk, first, again, K1, par, len(reqs)))
        reqs.append({"cmd": "its.rc", "its": I0})
        reqs.append({"cmd": "its.extractK", "its": I0, "k": 1})
        if pk == 2:
            reqs.append({"cmd": "its.extractK", "its": I0, "k": 2})
    reps = ctx.lean().ok(reqs, shards=8)
    for I0, meta, steps, pk, first, again, K1, par, at in keep:
        if len(ctx.violations) >= 6:
            return
        m_rc, m_k1 = reps[at], reps[at + 1]
        m_pk = m_rc if pk == 0 else m_k1 if pk == 1 else reps[at + 2]
        case = {"stream": tag, "its": I0, "meta": meta, "sequence": steps}
        ctx.case(["sequence", I0, steps, pk], len(m_rc["nodes"]) >= 2)
        ctx.count(f"{tag}:sequence:cases")
        for s in steps:
            ctx.count(f"{tag}:sequence:step:{s}")
        want = canon(m_rc, RC_KEYS, RC_EDGE_KEYS)
        if canon(enc(first), RC_KEYS, RC_EDGE_KEYS) != want:
            ctx.violation("reaction centre differs from the proven model (changed bonds + H-H bonds, end points, labels)", case,
                          {"diff": first_diff(canon(enc(first), RC_KEYS, RC_EDGE_KEYS), want)})
            continue
        if canon(enc(again), RC_KEYS, RC_EDGE_KEYS) != want:
            ctx.violation("get_rc gives another centre after other public calls on the same ITS (" + ", ".join(steps) + ")", case,
                          {"diff": first_diff(canon(enc(again), RC_KEYS, RC_EDGE_KEYS), want)})
            continue
        x, y = canon(enc(K1), ITS_NODE_KEYS, ITS_EDGE_KEYS), canon(m_k1, ITS_NODE_KEYS, ITS_EDGE_KEYS)
        if x != y:
            ctx.violation("extract_k(its, 1) after other public calls is not the radius-1 context of the model", case, {"diff": first_diff(x, y)})
            continue
        nk, ek = (RC_KEYS, RC_EDGE_KEYS) if pk == 0 else (ITS_NODE_KEYS, ITS_EDGE_KEYS)
        y = canon(m_pk, nk, ek)
        for pos in (0, 2):
            x = canon(enc(par[pos]), nk, ek)
            ctx.count(f"{tag}:sequence:same object twice in paralle_context_extraction:k={pk}")
            if x != y:
                ctx.violation(f"paralle_context_extraction(n_knn={pk}) on a list holding the same ITS twice: entry {pos} is not the radius-{pk} context of the model",
                              case, {"diff": first_diff(x, y)})
                break


def lookalike_streams(ctx):
    q = ctx.quick
    # tiny-exhaustive over a mixed alphabet
    full = [(0, 0), (0, 1), (0, 2), (1, 0), (1, 1), (1, 2), (2, 0), (2, 1), (2, 2)]
    ex = list(exhaustive_lookalike(2, ["H", "He", "Hg", "C", "Cl", "*"], full))
    ex3 = exhaustive_lookalike(3, ["H", "Hg", "He", "C"], [(0, 0), (1, 1), (1, 0), (1, 2)])
    if q:
        ex3 = list(ex3)
        ex += ctx.rnd.sample(ex3, 150)
    else:
        ex += list(ex3)
    for its, _ in ex:
        lookalike_counts(ctx, "lookalike-exhaustive", its)
    its_cases(ctx, ex, "lookalike-exhaustive")
    if not ctx.violations:
        aux_cases(ctx, ex if q else ctx.rnd.sample(ex, 1500), "lookalike-exhaustive")
    if ctx.violations:
        return
    # random molecule-like ITS of one family
    cases, isos, opts = [], [], []
    for _ in range(160 if q else 1000):
        its, meta = lookalike_its(ctx.rnd)
        ctx.count("lookalike:family:" + meta["family"])
        for ea, eb, how, tied in meta["planted"]:
            ctx.count(f"lookalike:planted pair:{how}:{tied}")
        if meta.get("bare"):
            ctx.count("lookalike:atoms carry only element and atom_map")
        lookalike_counts(ctx, "lookalike", its)
        cases.append((its, meta))
        if ctx.rnd.random() < 0.3:
            rel = relabel(its, ctx.rnd)
            cases.append((rel, dict(meta, relabelled=True)))
            isos.append((impl_rc(its), impl_rc(rel), {"stream": "lookalike", "its": enc(its), "relabelled": enc(rel)}))
        o = {}
        if ctx.rnd.random() < 0.4:
            o["disconnected"] = True
        if ctx.rnd.random() < 0.3:
            o["keep_mtg"] = True
        if ctx.rnd.random() < 0.5:
            o["element_key"] = ctx.rnd.choice([["element"], ["atom_map", "element"], ["element", "charge", "atom_map"], ["typesGH"],
                                               ["element", "hcount", "aromatic", "typesGH", "neighbors"]])
        if ctx.rnd.random() < 0.3:
            o.update(ctx.rnd.choice([{"bond_key": "bo", "standard_key": "so"}, {"bond_key": "bond"}, {"standard_key": "delta"}]))
        opts.append((its, o))
    its_cases(ctx, cases, "lookalike")
    if not ctx.violations:
        aux_cases(ctx, cases, "lookalike")
    if not ctx.violations:
        direct_cases(ctx, cases, "lookalike")
    if not ctx.violations:
        sequence_cases(ctx, cases, "lookalike")
    if not ctx.violations:
        iso_cases(ctx, isos, "lookalike")
    if not ctx.violations:
        options_cases(ctx, opts, "lookalike-options")
    if ctx.violations:
        return
    # reaction SMILES
    items, rcases = lookalike_entry_stream(ctx, 25 if q else 150, 35 if q else 200)
    for its, _ in rcases:
        lookalike_counts(ctx, "lookalike-entry", its)
    entry_cases(ctx, items, "lookalike-entry")
    if not ctx.violations:
        its_cases(ctx, rcases, "lookalike-entry")
    if not ctx.violations:
        aux_cases(ctx, rcases, "lookalike-entry")
    if not ctx.violations:
        sequence_cases(ctx, rcases, "lookalike-entry")


def run(ctx):
    base.quiet()
    ctx.trusted = [
        "Lean 4.33 kernel; axioms of the property theorems as listed in obligation_list",
        "hand-written model SynKitModel/ITS.lean (getRc, expand, extractK, extractFreeAdj, unequalOrderEdges) tied to /repo by this correspondence run (not by translation)",
        "Driver/ITS.lean + Driver/GraphJson.lean JSON codec, harness/graphio.py encoder, canonicalisation in harness/props/c01.py/c02.py",
        "match.iso (centre of a renumbered reaction ~ centre) is the back-tracking enumerator of SynKitModel/Match.lean",
        "RDKit + MolToGraph only as the source of corpus ITS graphs (inputs); NetworkX Graph semantics (no parallel edges)",
    ]
    ctx.assumptions = ["'ITS labels' of a centre atom = element, charge, typesGH, atom_map (DESIGN 5a)",
                       "extract_k with n_knn = -1: modelled as coded (Lean extractFreeAdj: the radius is the number of atoms of the path "
                       "longest_radius_extension returns; ties of its depth-first search follow the NetworkX adjacency order, which is sent to the driver "
                       "next to the ITS): the context == its.extractFree and len(longest_radius_extension(its, centre atoms)) == the model radius; "
                       "the radius itself is not fixed by C02, so a divergence from the model is reported as a broken correspondence unless the older gate "
                       "also fails: the result contains the centre and equals the model's radius-r context (Lean its.extractK) for r = distance of its "
                       "farthest atom from the centre (breadth-first search in the harness), or is the centre itself; on ITS whose bonds satisfy "
                       "standard_order == order[0] - order[1] additionally == the connected component(s) of the centre (Lean extractFree_spec)",
                       "find_unequal_order_edges == Lean its.unequalOrderEdges (as coded; gated unless an order is written as a list, which the model's "
                       "values do not tell from a tuple); on ITS whose bonds satisfy standard_order == order[0] - order[1] (Lean WFits) additionally == atoms "
                       "incident to the bonds of the MODEL centre whose two orders differ (unchanged H-H bonds are not 'unequal order' bonds)",
                       "context_extraction / paralle_context_extraction (n_jobs=1, non-default dictionary keys) must return exactly extract_k's context: "
                       "compared with the model centre (k=0) / model its.extractK (k=1..3)",
                       "rsmi_to_its(core=True, options): the ITS handed to the model is the one the same call returns with core=False (ITS construction is "
                       "C01's subject); without hydrogen expansion additionally the chain rsmi_to_graph -> Lean its.construct -> Lean its.rc, so that the "
                       "expected centre does not pass through ITSConstruction or get_rc at all",
                       "get_rc(bond_key=, standard_key=): the ITS carries its bond attributes under those names (harness renames them); expected = model with "
                       "the same options, and = model centre of the un-renamed ITS",
                       "'within k bonds' counts bonds: attributes that get_rc / the context code do not select (weight, label, id, name, capacity, ... on bonds "
                       "or atoms) are legal on an ITS and never change a centre or a context; whether they are copied into the result is not gated",
                       "numbers that are equal under == (1, 1.0, numpy.float64(1.0), numpy.int64(1)) are the same ITS value (one Lean Val.num; bool kept apart); "
                       "standard_order given as numpy.int64 is gated since the repair F43 (get_rc tested isinstance(std, (int, float)))",
                       "'hydrogen' is an atom whose element IS the string 'H' (Lean: element = .str \"H\"); 'He', 'Hg', 'Hf', 'Ho', 'Hs', '*' and a missing "
                       "element are not hydrogen, so an unchanged bond between such atoms is not part of the centre",
                       "answers do not depend on earlier calls: every query of the sequence stream is compared with the (pure) model of that query alone"]
    ctx.gen_rule = ("regressions first; ITS graphs of the vendored corpus reactions (ecoli, USPTO sample, hydrogen set) and of a dense and a sparse "
                    "atom-map renumbering of each, plus the 50 stored hydrogen-set ITS graphs (quick: 40 reactions + 10 stored); ALL ITS on n<=3 atoms "
                    "(3 element patterns over {C,H}, per-pair order pairs {0,1,2}^2) (thorough: also n=4 with pairs from {00,11,10,01,12}); random "
                    "molecule-like ITS n<=9 built from (G,H) pairs with <=3 edits, incl. H-H bonds, each also with one attribute-level edit "
                    "(standard_order missing/None/str/True/zeroed/int, typesGH or element missing, is_mtg flags) and under a random injective "
                    "relabelling; 30 (thorough 400) random ITS with an added H-H pair (bond unchanged/formed/broken) whose hydrogens lack typesGH; get_rc options (keep_mtg, disconnected, element_key, bond_key/standard_key with renamed bond attributes) compared impl==model. "
                    "Every ITS of the corpus / exhaustive (n=4: a sample of 8000) / random streams (<=160 atoms) is also sent through extract_k(-1), find_unequal_order_edges, "
                    "context_extraction (k drawn from 0..3, dictionary keys drawn from 3 pairs) and, in chunks of 20, paralle_context_extraction (one k and "
                    "key pair per chunk). Entry stream: corpus reactions (quick 36, thorough all) as written, under one of renumber/renumber_sparse/reverse/"
                    "shuffle, and with unchanged explicit-hydrogen spectators (H-H, water, ammonia, HCl) or one H-X bond cut to a free hydrogen; "
                    "rsmi_to_its(core=True) with default options and explicit_hydrogen=True on the identity form plus one option set drawn from "
                    "{explicit_hydrogen, sanitize=False, drop_non_aam=False, use_index_as_atom_map=False, extra node_attrs} per form (thorough: two). "
                    "Representation / decoration / scale streams: base graphs = 60 (thorough 700) structured ITS (chain, ring, star, tree, caterpillar, two "
                    "components on 5..14 atoms, dense on 4..5 atoms; 1-3 bond edits anywhere; atom ids 1..n / including 0 / >= 1000 / sparse), 30 (400) random "
                    "molecule-like ITS n<=12, 6 (60) corpus ITS; 'decorated' 220 (4000): a base graph whose bonds carry 1-3 extra unselected attributes drawn from "
                    "{weight (oversampled), label, id, name, capacity, length, distance, cost, flow, color, key} (uniform / per bond / on part of the bonds / centre "
                    "vs rest; values 0, 0.5 .. 2500, negative, '', strings, None, (), booleans) and in 40% also atom attributes {weight, label, id, name, ...}; "
                    "'representation' 140 (2500): a base graph (12% with bond orders given by name, 25% also decorated) with every number of order pairs, "
                    "standard_order, charge, hcount, atom_map, typesGH written per occurrence as int / float / numpy.float64 / numpy.int64 (standard_order included "
                    "since the repair F43), order pair / typesGH as list on 20% of the bonds / atoms, 35% of the graphs with about half of "
                    "the atom ids numpy.int64; 'shapes': the base graphs as built. Each of the three goes through the main comparison (centre, K0..K3, idempotence, "
                    "derived copies), the auxiliary entry points, and the direct stream: find_nearest_neighbors(its, centre atoms as list / reversed / shuffled / with "
                    "repeats, k in 0..3) and extract_k re-queried on the same object in a shuffled radius order, node sets == model its.rc / its.extractK. "
                    "Look-alike element symbols: ALL ITS on 2 atoms with every ordered element pattern over {H, He, Hg, C, Cl, *} x order pairs {0,1,2}^2 and "
                    "(quick: 150 drawn from / thorough: all 4096) ITS on 3 atoms over {H, Hg, He, C} x pairs {00,11,10,12}; 160 (1000) random molecule-like ITS in "
                    "which about half of the atoms of one element X (H in 9 of 19 draws; C, N, O, S, B, F, P, I) are renamed to two-letter symbols that start "
                    "with / contain X (Hg, He, Hf, Ho, Hs, Rh, Th; Cl, Co, Cs, ...; Na, Ne, Ni, ...), plus one or two planted atom pairs drawn from {X, look-alikes} "
                    "with the bond unchanged (5 of 8; single, sometimes double / triple) / formed / broken / order changed, half of them tied to the rest by an "
                    "unchanged bond; 12% with typesGH dropped on a planted atom, 8% with atoms that carry only element and atom_map; 30% also relabelled "
                    "(centres compared by match.iso); all through the main comparison, the auxiliary entry points, the direct stream, get_rc options "
                    "(disconnected, keep_mtg, element_key incl. permuted / larger key lists, bond_key / standard_key) and the sequence stream: get_rc, then 1-3 "
                    "other public calls on the same or the previous ITS, then get_rc and extract_k(1) again, and paralle_context_extraction on [its, other, its]. "
                    "Look-alike reactions: 25 (150) corpus reactions with 1-2 unchanged spectators on both sides drawn from Hg-Hg, Cl-Hg-Hg-Cl, H-Hg-H, Hf-Hf, H-He+, "
                    "Na-Na, Cl-Cl, Co-Co, ... and 35 (200) template reactions at metal-metal dimers (ligand exchange, H2 added / released, dimer bond changed; "
                    "metals and ligands drawn from pools), 30-40% also renumbered / shuffled / reversed / with hydrogen spectators: rsmi_to_its(core=True) "
                    "under default options and one drawn option set, and the ITS of the parsed graphs through the main / auxiliary / sequence comparison. "
                    "Large: 6 (12) ITS on 258..420 atoms, shapes cycling through star (hub of degree > 256), chain, tree, ring, caterpillar, two components, "
                    ">= 1 bond edit, an unchanged H-H pair appended in 3 of 4 (its atoms are the last two), every occurrence of an atom id / atom map a "
                    "distinct int object; each with a relabelled copy (ids 257..), centre(relabelled) == centre carried along the known bijection; main, "
                    "direct and auxiliary comparison (Lean its.rc / its.extractK / its.extractFree are linear here), match.iso on centres of <= 12 atoms only.")
    ctx.nontrivial_rule = "distinct encoded ITS with a centre of >=2 atoms and at least one atom outside the centre"
    build_and_audit(ctx, ["SynKitProofs.Props.C02"], "SynKitProofs/Audit/C02.lean", THEOREMS)

    for c in base.load_regress("C02"):
        c = c.get("case", c)
        _replay_one(ctx, c, "regress")
        ctx.count("regress_cases")

    if not ctx.violations:
        cases, isos = corpus_stream(ctx, 40 if ctx.quick else None)
        its_cases(ctx, cases, "corpus")
        if not ctx.violations:
            iso_cases(ctx, isos, "corpus")
        if not ctx.violations:
            aux_cases(ctx, cases, "corpus")
    if not ctx.violations:
        entry_cases(ctx, entry_items(ctx, 36 if ctx.quick else None), "entry")
    if not ctx.violations:
        full = [(0, 0), (0, 1), (0, 2), (1, 0), (1, 1), (1, 2), (2, 0), (2, 1), (2, 2)]
        ex = [(I, {"n": n}) for n in (1, 2, 3) for I in exhaustive_its(n, full)]
        if not ctx.quick:
            ex += [(I, {"n": 4}) for I in exhaustive_its(4, [(0, 0), (1, 1), (1, 0), (0, 1), (1, 2)])]
        its_cases(ctx, ex, "exhaustive")
        if not ctx.violations:
            n4 = [c for c in ex if c[1]["n"] == 4]
            aux_cases(ctx, [c for c in ex if c[1]["n"] <= 3] + (ctx.rnd.sample(n4, 8000) if len(n4) > 8000 else n4), "exhaustive")
        ctx.extra["exhaustive"] = True
        ctx.extra["exhaustive_part"] = "all ITS on n<=3 atoms x 3 element patterns x order pairs {0,1,2}^2" + ("" if ctx.quick else "; n=4 with 5 order pairs")
    if not ctx.violations:
        rc_cases, isos, opts = [], [], []
        for _ in range(300 if ctx.quick else 5000):
            G, H, tags = base.random_pair(ctx.rnd, 9)
            its = base.impl_its(G, H)
            its_m, kind = mutate_its(its, ctx.rnd)
            ctx.count("random:mutation:" + kind)
            rc_cases.append((its_m, {"edits": tags, "mutation": kind}))
            rel = relabel(its_m, ctx.rnd)
            rc_cases.append((rel, {"edits": tags, "mutation": kind, "relabelled": True}))
            isos.append((impl_rc(its_m), impl_rc(rel), {"stream": "random", "its": enc(its_m), "relabelled": enc(rel)}))
            o = {}
            if ctx.rnd.random() < 0.5:
                o["keep_mtg"] = True
            if ctx.rnd.random() < 0.5:
                o["disconnected"] = True
            if ctx.rnd.random() < 0.3:
                o["element_key"] = ctx.rnd.choice([["element"], ["element", "charge", "atom_map"], ["typesGH"], ["element", "hcount", "aromatic", "typesGH"]])
            if ctx.rnd.random() < 0.3:
                o.update(ctx.rnd.choice([{"bond_key": "bo", "standard_key": "so"}, {"bond_key": "bond"}, {"standard_key": "delta"}]))
            opts.append((its_m, o))
        for _ in range(30 if ctx.quick else 400):
            its_h, meta = hh_without_typesgh(ctx.rnd)
            ctx.count("random:hh_without_typesGH:" + meta["hh"])
            rc_cases.append((its_h, meta))
            opts.append((its_h, {"disconnected": True} if ctx.rnd.random() < 0.5 else {"element_key": ["element", "atom_map"]}))
        its_cases(ctx, rc_cases, "random")
        if not ctx.violations:
            aux_cases(ctx, rc_cases, "random")
        if not ctx.violations:
            iso_cases(ctx, isos, "random")
        if not ctx.violations:
            options_cases(ctx, opts, "options")
    if not ctx.violations:
        q = ctx.quick
        bases = repr_bases(ctx, 60 if q else 700, 30 if q else 400, 6 if q else 60)
        plain, decorated, rep = repr_stream(ctx, bases, 220 if q else 4000, 140 if q else 2500)
        for cs, tag in ((decorated, "decorated"), (rep, "representation"), (plain, "shapes")):
            if ctx.violations:
                break
            its_cases(ctx, cs, tag, derive=tag != "representation")   # a derived (permuted) copy could not be replayed from repr_seed
            if not ctx.violations:
                aux_cases(ctx, cs, tag)
            if not ctx.violations:
                direct_cases(ctx, cs, tag)
        npint_probe(ctx)
    if not ctx.violations:
        lookalike_streams(ctx)
    if not ctx.violations:
        large_stream(ctx, 6 if ctx.quick else 12)
    ctx.obligation("correspondence: get_rc == model getRc; extract_k(k=0..3) == model extractK; get_rc(get_rc) == get_rc; "
                   "centre of renumbered reaction iso centre (Lean match.iso)", not ctx.violations)


def _replay_one(ctx, c, tag):
    if "rsmi" in c and "options" in c:
        entry_cases(ctx, [(c["rsmi"], c["options"], c.get("meta"))], tag)
    elif "its" in c and "options" in c:
        its = graphio.to_nx(c["its"])
        o = c["options"]
        options_cases(ctx, [(rename_edge_keys_back(its, o.get("bond_key", "order"), o.get("standard_key", "standard_order")), o)], tag)
    elif "its" in c and "relabelled" not in c:
        its = materialize(graphio.to_nx(c["its"]), c.get("meta"))
        if isinstance(c.get("meta"), dict) and c["meta"].get("large"):
            its = fresh_ints(its)
        its_cases(ctx, [(its, c.get("meta"))], tag)
        if not ctx.violations:
            aux_cases(ctx, [(its, c.get("meta"))], tag, all_params=True, max_nodes=1000)
        if not ctx.violations:
            direct_cases(ctx, [(its, c.get("meta"))], tag, all_params=True)
        if not ctx.violations:
            sequence_cases(ctx, [(its, c.get("meta"))], tag, fixed=c.get("sequence"))
    elif "relabelled" in c and "its" in c:
        a, b = graphio.to_nx(c["its"]), graphio.to_nx(c["relabelled"])
        iso_cases(ctx, [(impl_rc(a), impl_rc(b), c)], tag)
    elif "rsmi" in c:
        r, p, _ = base.reaction_graphs(c["rsmi"])
        r2, p2, _ = base.reaction_graphs(c["renumbered"])
        iso_cases(ctx, [(impl_rc(base.impl_its(r, p)), impl_rc(base.impl_its(r2, p2)), c)], tag)


def rename_edge_keys_back(its, bond_key, standard_key):
    """Inverse of rename_edge_keys (a stored options case holds the ITS as it was handed to get_rc)."""
    J = its.copy()
    for _, _, d in J.edges(data=True):
        if bond_key != "order" and bond_key in d:
            d["order"] = d.pop(bond_key)
        if standard_key != "standard_order" and standard_key in d:
            d["standard_order"] = d.pop(standard_key)
    return J


def replay(ctx, case):
    base.quiet()
    _replay_one(ctx, case["case"], "replay")

"""C02 — reaction centre = changed bonds (+ H–H bonds); radius-k context = distance ball; monotone chain.

Lean (Props/C02.lean), over the model `SynKit.ITS.getRc` / `expand` / `extractK`: edge membership of
the centre, nodes = end points, labels, idempotence, equivariance under renumbering, context =
distance ball, centre = K0 ⊑ K1 ⊑ K2 ⊑ ITS.

Correspondence (every run): for every generated ITS graph
  get_rc(its)            == model `its.rc`        (nodes with element/charge/typesGH/atom_map, edges with order/standard_order)
  extract_k(its, k)      == model `its.extractK`  for k = 0..3 (node/edge sets with all ITS labels)
  get_rc(get_rc(its))    == model `its.rc` of the implementation's centre, and == get_rc(its)
  centre of a renumbered reaction / relabelled ITS  ~  centre   (Lean `match.iso`)
On a divergence the specification itself is evaluated on the implementation's output
(`spec.its.rc` in Lean; distance balls by NetworkX shortest paths) to decide between a VIOLATION with
that input and a broken correspondence.
"""
import itertools
import json

import networkx as nx

from .. import graphio
from ..core import build_and_audit
from ..corpus import load_reactions, load_its_graphs
from . import c01 as base
from .c01 import enc, canon, first_diff, ITS_NODE_KEYS, ITS_EDGE_KEYS, RC_KEYS

THEOREMS = [
    "SynKit.ITS.mem_rc_edge_iff_std",
    "SynKit.ITS.mem_rc_edge_iff",
    "SynKit.ITS.rc_edge_labels",
    "SynKit.ITS.rc_nodes_eq_endpoints",
    "SynKit.ITS.rc_labels",
    "SynKit.ITS.getRc_idem",
    "SynKit.ITS.getRc_relabel",
    "SynKit.ITS.expand_iff_dist",
    "SynKit.ITS.extractK_zero",
    "SynKit.ITS.mem_extractK_iff_dist",
    "SynKit.ITS.context_chain",
    "SynKit.ITS.C02.fullStatement_holds",
]

RC_EDGE_KEYS = ["order", "standard_order"]
KMAX = 3


# ------------------------------------------------------------------ implementation adapters
def impl_rc(its, **kw):
    from synkit.Graph.ITS.its_decompose import get_rc
    return get_rc(its, **kw)


def impl_k(its, k):
    from synkit.Graph.Context.radius_expand import RadiusExpand
    return RadiusExpand.extract_k(its, k)


def rc_iso_form(rc):
    H = nx.Graph()
    for n in base.bfs_order(rc):
        d = rc.nodes[n]
        H.add_node(n, element=d.get("element"), charge=d.get("charge"), typesGH=d.get("typesGH"))
    for u, v, d in rc.edges(data=True):
        H.add_edge(u, v, order=d.get("order"), standard_order=d.get("standard_order"))
    return enc(H)


# ------------------------------------------------------------------ Python side of the context specification
def context_spec(its, rc, Ks):
    """Ks[k] for k = 0..KMAX.  -> None or a description of the violated clause."""
    seeds = set(rc.nodes)
    dist = nx.multi_source_dijkstra_path_length(its, seeds, weight=None) if seeds else {}
    prev = None
    for k, K in enumerate(Ks):
        want = {n for n, d in dist.items() if d <= k}
        if set(K.nodes) != want:
            return f"K{k} nodes are not the atoms within {k} bonds of the centre: extra {sorted(set(K.nodes) - want)[:5]} missing {sorted(want - set(K.nodes))[:5]}"
        if k >= 1:
            sub = its.subgraph(want)
            if {frozenset(e) for e in K.edges} != {frozenset(e) for e in sub.edges}:
                return f"K{k} is not the induced sub-graph on its atoms"
        if prev is not None:
            if not set(prev.nodes) <= set(K.nodes) or not {frozenset(e) for e in prev.edges} <= {frozenset(e) for e in K.edges}:
                return f"K{k - 1} is not contained in K{k}"
        prev = K
    if not set(prev.nodes) <= set(its.nodes):
        return "context not contained in the ITS"
    return None


# ------------------------------------------------------------------ the main comparison
def derived_graphs(ctx, its):
    """Graphs derived from an ITS object that has ALREADY been queried (NetworkX copies carry the
    graph-level attribute dict along): a permutation of the same id set, a plain copy with one bond's
    change moved, and the sub-graph copy without one centre-free atom.  Nothing that was computed
    for the original may leak into the answers for these."""
    out = []
    ns = list(its.nodes)
    if len(ns) >= 2:
        perm = ns[:]
        ctx.rnd.shuffle(perm)
        out.append((nx.relabel_nodes(its, dict(zip(ns, perm)), copy=True), "perm-same-ids"))
        shift = ns[1:] + ns[:1]
        out.append((nx.relabel_nodes(its, dict(zip(ns, shift)), copy=True), "cyclic-shift"))
    es = [(u, v) for u, v, d in its.edges(data=True) if isinstance(d.get("order"), tuple) and len(d["order"]) == 2]
    if es:
        J = its.copy()
        u, v = ctx.rnd.choice(es)
        a, b = J[u][v]["order"]
        try:
            if a == b:
                J[u][v]["order"] = (a, b + 1.0)
                J[u][v]["standard_order"] = a - (b + 1.0)
            else:
                J[u][v]["order"] = (a, a)
                J[u][v]["standard_order"] = 0.0
            out.append((J, "copy-one-bond-edited"))
        except TypeError:
            pass
    return out


def its_cases(ctx, cases, tag, derive=True):
    """cases: list of (its: nx.Graph, meta)."""
    reqs, keep = [], []
    derived = []
    for its, meta in cases:
        I0 = enc(its)
        try:
            rc = impl_rc(its)
            Ks = [impl_k(its, k) for k in range(KMAX + 1)]
            rc2 = impl_rc(rc)
        except Exception as e:
            ctx.violation("get_rc / extract_k raises on an ITS graph", {"stream": tag, "its": I0, "meta": meta}, {"error": repr(e)[:300]})
            continue
        if derive and ctx.rnd.random() < 0.3:
            for J, how in derived_graphs(ctx, its):
                derived.append((J, {"derived_from_queried_object": how, "parent_meta": meta}))
        if enc(its) != I0:
            ctx.violation("get_rc / extract_k mutated the ITS", {"stream": tag, "its": I0, "meta": meta})
        R0 = enc(rc)
        keep.append((its, I0, meta, rc, R0, Ks, rc2))
        reqs.append({"cmd": "its.rc", "its": I0})
        reqs.append({"cmd": "its.rc", "its": R0})
        for k in range(1, KMAX + 1):
            reqs.append({"cmd": "its.extractK", "its": I0, "k": k})
    reps = ctx.lean().ok(reqs, shards=8)
    per = 2 + KMAX
    for i, (its, I0, meta, rc, R0, Ks, rc2) in enumerate(keep):
        if len(ctx.violations) >= 6:
            return
        m_rc, m_rc2 = reps[per * i], reps[per * i + 1]
        m_K = reps[per * i + 2: per * i + per]
        case = {"stream": tag, "its": I0, "meta": meta}
        nt = len(rc) >= 2 and len(its) > len(rc)
        ctx.case(I0, nt, sample={"stream": tag, "its": I0} if len(I0["nodes"]) <= 3 and nt else None)
        ctx.count(f"{tag}:cases")
        ctx.count(f"{tag}:rc_edges={min(rc.number_of_edges(), 5)}")
        hh = sum(1 for u, v in rc.edges if its.nodes[u].get("element") == "H" and its.nodes[v].get("element") == "H")
        if hh:
            ctx.count(f"{tag}:with_HH_bond")
        grow = [len(K) for K in Ks]
        ctx.count(f"{tag}:context_growth_steps={sum(1 for a, b in zip(grow, grow[1:]) if b > a)}")

        a, b = canon(R0, RC_KEYS, RC_EDGE_KEYS), canon(m_rc, RC_KEYS, RC_EDGE_KEYS)
        if a != b:
            spec = ctx.lean().ok([{"cmd": "spec.its.rc", "its": I0, "rc": R0}])[0]
            ctx.violation("reaction centre differs from the proven model (changed bonds + H-H bonds, end points, labels)",
                          shrink_its(ctx, case, "rc"), {"diff": first_diff(a, b), "spec_rc_holds": spec}, no_input=bool(spec))
            continue
        if canon(enc(Ks[0]), RC_KEYS, RC_EDGE_KEYS) != a:
            ctx.violation("extract_k(its, 0) is not the reaction centre", shrink_its(ctx, case, "k0"))
            continue
        bad = False
        for k in range(1, KMAX + 1):
            x, y = canon(enc(Ks[k]), ITS_NODE_KEYS, ITS_EDGE_KEYS), canon(m_K[k - 1], ITS_NODE_KEYS, ITS_EDGE_KEYS)
            if x != y:
                why = context_spec(its, rc, Ks)
                ctx.violation(f"radius-{k} context differs from the proven model (distance ball around the centre)",
                              shrink_its(ctx, case, "ctx"), {"diff": first_diff(x, y), "spec": why or "holds"}, no_input=why is None and labels_ok(its, Ks[k]))
                bad = True
                break
        if bad:
            continue
        c2 = canon(enc(rc2), RC_KEYS, RC_EDGE_KEYS)
        if c2 != a:
            ctx.violation("extracting the centre of a centre changes it", shrink_its(ctx, case, "idem"), {"diff": first_diff(c2, a)})
            continue
        if c2 != canon(m_rc2, RC_KEYS, RC_EDGE_KEYS):
            ctx.violation("get_rc applied to a centre differs from the model", case, {"diff": first_diff(c2, canon(m_rc2, RC_KEYS, RC_EDGE_KEYS))}, no_input=True)
        if len(ctx.violations) >= 6:
            return
    _derived_tail(ctx, derived, tag)


def _derived_tail(ctx, derived, tag):
    if derived and len(ctx.violations) < 6:
        its_cases(ctx, derived, tag + ":derived", derive=False)


def labels_ok(its, K):
    return all(K.nodes[n] == its.nodes[n] for n in K.nodes) and all(K.edges[e] == its.edges[e] for e in K.edges)


def shrink_its(ctx, case, what):
    its = graphio.to_nx(case["its"])
    if len(its) > 12:
        return case

    def bad(I):
        try:
            rc = impl_rc(I)
            Ks = [impl_k(I, k) for k in range(KMAX + 1)]
        except Exception:
            return False
        if what == "rc":
            m = ctx.lean().ok([{"cmd": "its.rc", "its": enc(I)}])[0]
            return canon(enc(rc), RC_KEYS, RC_EDGE_KEYS) != canon(m, RC_KEYS, RC_EDGE_KEYS)
        if what == "k0":
            return canon(enc(Ks[0]), RC_KEYS, RC_EDGE_KEYS) != canon(enc(rc), RC_KEYS, RC_EDGE_KEYS)
        if what == "ctx":
            ms = ctx.lean().ok([{"cmd": "its.extractK", "its": enc(I), "k": k} for k in range(1, KMAX + 1)])
            return any(canon(enc(Ks[k]), ITS_NODE_KEYS, ITS_EDGE_KEYS) != canon(ms[k - 1], ITS_NODE_KEYS, ITS_EDGE_KEYS) for k in range(1, KMAX + 1))
        return canon(enc(impl_rc(rc)), RC_KEYS, RC_EDGE_KEYS) != canon(enc(rc), RC_KEYS, RC_EDGE_KEYS)

    changed = True
    while changed and len(its) > 1:
        changed = False
        for n in sorted(its.nodes):
            I2 = its.copy()
            I2.remove_node(n)
            if bad(I2):
                its, changed = I2, True
                break
    out = dict(case)
    out["its"] = enc(its)
    return out


def iso_cases(ctx, pairs, tag):
    """pairs: list of (rc_a, rc_b, case) that must be isomorphic as labelled graphs."""
    reqs = [base.iso_request(rc_iso_form(a), rc_iso_form(b), ("element", "charge", "typesGH"), ("order", "standard_order")) for a, b, _ in pairs]
    for ok, (a, b, case) in zip(ctx.lean().ok(reqs, shards=8), pairs):
        if len(ctx.violations) >= 6:
            return
        ctx.count(f"{tag}:iso_checks")
        if not ok:
            ctx.violation("the centre of a renumbered reaction is not isomorphic to the centre", case,
                          {"rc": enc(a, RC_KEYS, RC_EDGE_KEYS), "rc_renumbered": enc(b, RC_KEYS, RC_EDGE_KEYS)})


def options_cases(ctx, cases, tag):
    """get_rc with non-default options: implementation == model (the options are modelled as parameters)."""
    reqs, keep = [], []
    for its, opts in cases:
        I0 = enc(its)
        try:
            rc = impl_rc(its, **opts)
        except Exception as e:
            ctx.count(f"{tag}:impl-raises:{type(e).__name__}")
            continue
        keep.append((I0, opts, enc(rc)))
        reqs.append({"cmd": "its.rc", "its": I0, **opts})
    for (I0, opts, R0), m in zip(keep, ctx.lean().ok(reqs, shards=8)):
        keys = opts.get("element_key", RC_KEYS)
        ctx.case([I0, opts], len(R0["nodes"]) >= 2)
        ctx.count(f"{tag}:cases")
        a, b = canon(R0, keys, RC_EDGE_KEYS), canon(m, keys, RC_EDGE_KEYS)
        if a != b:
            ctx.violation("get_rc with options differs from the model", {"stream": tag, "its": I0, "options": opts}, {"diff": first_diff(a, b)}, no_input=True)


# ------------------------------------------------------------------ generators
def mutate_its(its, rnd):
    """Attribute-level edits of a well-formed ITS that exercise get_rc's guards."""
    its = its.copy()
    kind = rnd.choice(["none", "none", "std_missing", "std_none", "std_str", "std_true", "std_zeroed", "no_typesGH", "no_element", "is_mtg", "std_int"])
    es = sorted(its.edges)
    ns = sorted(its.nodes)
    if kind.startswith("std") and es:
        u, v = rnd.choice(es)
        d = its.edges[u, v]
        if kind == "std_missing":
            d.pop("standard_order", None)
        elif kind == "std_none":
            d["standard_order"] = None
        elif kind == "std_str":
            d["standard_order"] = "1.0"
        elif kind == "std_true":
            d["standard_order"] = True
        elif kind == "std_zeroed":
            d["standard_order"] = 0
        elif kind == "std_int" and float(d["standard_order"]).is_integer():
            d["standard_order"] = int(d["standard_order"])
    elif kind == "no_typesGH" and ns:
        its.nodes[rnd.choice(ns)].pop("typesGH", None)
    elif kind == "no_element" and ns:
        its.nodes[rnd.choice(ns)].pop("element", None)
    elif kind == "is_mtg" and es:
        for u, v in rnd.sample(es, min(len(es), 2)):
            its.edges[u, v]["is_mtg"] = rnd.choice([True, False, 1, 0, None])
    return its, kind


def exhaustive_its(n, codes):
    """All ITS on n shared atoms: element pattern (all C / first two H / all H), every unordered pair with
    an (order_G, order_H) pair from `codes`."""
    ids = list(range(1, n + 1))
    pairs = list(itertools.combinations(ids, 2))
    pats = [["C"] * n, ["H"] * min(2, n) + ["C"] * max(0, n - 2), ["H"] * n]
    seen = set()
    for pat in pats:
        if tuple(pat) in seen:
            continue
        seen.add(tuple(pat))
        lab = {i: (pat[i - 1], False, 0, 0) for i in ids}
        for choice in itertools.product(codes, repeat=len(pairs)):
            bg = {pr: float(c[0]) for pr, c in zip(pairs, choice) if c[0]}
            bh = {pr: float(c[1]) for pr, c in zip(pairs, choice) if c[1]}
            yield base.impl_its(base.mk_mol(ids, lab, bg), base.mk_mol(ids, lab, bh))


def relabel(its, rnd):
    ns = list(its.nodes)
    new = rnd.sample(range(1, 4 * len(ns) + 3), len(ns))
    return nx.relabel_nodes(its, dict(zip(ns, new)), copy=True)


def corpus_stream(ctx, per_variant):
    recs = load_reactions()
    cases, isos = [], []
    chosen = recs if per_variant is None else ctx.rnd.sample(recs, per_variant)
    for rec in chosen:
        r, p, why = base.reaction_graphs(rec["rsmi"])
        if why:
            ctx.count("corpus:skipped:" + why)
            continue
        its = base.impl_its(r, p)
        cases.append((its, {"src": rec["src"], "idx": rec["idx"], "variant": "identity", "rsmi": rec["rsmi"]}))
        for kind in ("renumber", "renumber_sparse"):
            v = base.variant(rec["rsmi"], kind, ctx.rnd)
            r2, p2, why = base.reaction_graphs(v)
            if why:
                ctx.count("corpus:variant-skipped:" + why)
                continue
            its2 = base.impl_its(r2, p2)
            meta = {"src": rec["src"], "idx": rec["idx"], "variant": kind, "rsmi": v}
            cases.append((its2, meta))
            isos.append((impl_rc(its), impl_rc(its2), {"stream": "corpus", "rsmi": rec["rsmi"], "renumbered": v}))
    for g in load_its_graphs() if per_variant is None else ctx.rnd.sample(load_its_graphs(), 10):
        cases.append((graphio.to_nx(g["its"]), {"src": "hydro-its", "idx": g["idx"]}))
    return cases, isos


def run(ctx):
    base.quiet()
    ctx.trusted = [
        "Lean 4.33 kernel; axioms of the property theorems as listed in obligation_list",
        "hand-written model SynKitModel/ITS.lean (getRc, expand, extractK) tied to /repo by this correspondence run (not by translation)",
        "Driver/ITS.lean + Driver/GraphJson.lean JSON codec, harness/graphio.py encoder, canonicalisation in harness/props/c01.py/c02.py",
        "match.iso (centre of a renumbered reaction ~ centre) is the back-tracking enumerator of SynKitModel/Match.lean",
        "RDKit + MolToGraph only as the source of corpus ITS graphs (inputs); NetworkX Graph semantics (no parallel edges)",
    ]
    ctx.assumptions = ["'ITS labels' of a centre atom = element, charge, typesGH, atom_map (DESIGN 5a)",
                       "extract_k with n_knn = -1 (longest-extension mode) is outside C02 (radii 0..3) and not modelled"]
    ctx.gen_rule = ("regressions first; ITS graphs of the vendored corpus reactions (ecoli, USPTO sample, hydrogen set) and of a dense and a sparse "
                    "atom-map renumbering of each, plus the 50 stored hydrogen-set ITS graphs (quick: 40 reactions + 10 stored); ALL ITS on n<=3 atoms "
                    "(3 element patterns over {C,H}, per-pair order pairs {0,1,2}^2) (thorough: also n=4 with pairs from {00,11,10,01,12}); random "
                    "molecule-like ITS n<=9 built from (G,H) pairs with <=3 edits, incl. H-H bonds, each also with one attribute-level edit "
                    "(standard_order missing/None/str/True/zeroed/int, typesGH or element missing, is_mtg flags) and under a random injective "
                    "relabelling; get_rc options (keep_mtg, disconnected, element_key) compared impl==model.")
    ctx.nontrivial_rule = "distinct encoded ITS with a centre of >=2 atoms and at least one atom outside the centre"
    build_and_audit(ctx, ["SynKitProofs.Props.C02"], "SynKitProofs/Audit/C02.lean", THEOREMS)

    for c in base.load_regress("C02"):
        c = c.get("case", c)
        its_cases(ctx, [(graphio.to_nx(c["its"]), c.get("meta"))], "regress")
        ctx.count("regress_cases")

    if not ctx.violations:
        cases, isos = corpus_stream(ctx, 40 if ctx.quick else None)
        its_cases(ctx, cases, "corpus")
        if not ctx.violations:
            iso_cases(ctx, isos, "corpus")
    if not ctx.violations:
        full = [(0, 0), (0, 1), (0, 2), (1, 0), (1, 1), (1, 2), (2, 0), (2, 1), (2, 2)]
        ex = [(I, {"n": n}) for n in (1, 2, 3) for I in exhaustive_its(n, full)]
        if not ctx.quick:
            ex += [(I, {"n": 4}) for I in exhaustive_its(4, [(0, 0), (1, 1), (1, 0), (0, 1), (1, 2)])]
        its_cases(ctx, ex, "exhaustive")
        ctx.extra["exhaustive"] = True
        ctx.extra["exhaustive_part"] = "all ITS on n<=3 atoms x 3 element patterns x order pairs {0,1,2}^2" + ("" if ctx.quick else "; n=4 with 5 order pairs")
    if not ctx.violations:
        rc_cases, isos, opts = [], [], []
        for _ in range(300 if ctx.quick else 5000):
            G, H, tags = base.random_pair(ctx.rnd, 9)
            its = base.impl_its(G, H)
            its_m, kind = mutate_its(its, ctx.rnd)
            ctx.count("random:mutation:" + kind)
            rc_cases.append((its_m, {"edits": tags, "mutation": kind}))
            rel = relabel(its_m, ctx.rnd)
            rc_cases.append((rel, {"edits": tags, "mutation": kind, "relabelled": True}))
            isos.append((impl_rc(its_m), impl_rc(rel), {"stream": "random", "its": enc(its_m), "relabelled": enc(rel)}))
            o = {}
            if ctx.rnd.random() < 0.5:
                o["keep_mtg"] = True
            if ctx.rnd.random() < 0.5:
                o["disconnected"] = True
            if ctx.rnd.random() < 0.3:
                o["element_key"] = ctx.rnd.choice([["element"], ["element", "charge", "atom_map"], ["typesGH"], ["element", "hcount", "aromatic", "typesGH"]])
            opts.append((its_m, o))
        its_cases(ctx, rc_cases, "random")
        if not ctx.violations:
            iso_cases(ctx, isos, "random")
        if not ctx.violations:
            options_cases(ctx, opts, "options")
    ctx.obligation("correspondence: get_rc == model getRc; extract_k(k=0..3) == model extractK; get_rc(get_rc) == get_rc; "
                   "centre of renumbered reaction iso centre (Lean match.iso)", not ctx.violations)


def replay(ctx, case):
    base.quiet()
    c = case["case"]
    if "its" in c and "relabelled" not in c:
        its_cases(ctx, [(graphio.to_nx(c["its"]), c.get("meta"))], "replay")
    elif "relabelled" in c and "its" in c:
        a, b = graphio.to_nx(c["its"]), graphio.to_nx(c["relabelled"])
        iso_cases(ctx, [(impl_rc(a), impl_rc(b), c)], "replay")
    elif "rsmi" in c:
        r, p, _ = base.reaction_graphs(c["rsmi"])
        r2, p2, _ = base.reaction_graphs(c["renumbered"])
        iso_cases(ctx, [(impl_rc(base.impl_its(r, p)), impl_rc(base.impl_its(r2, p2)), c)], "replay")

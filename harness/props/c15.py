"""C15 — reaction-network store stays consistent under every history of edits.

Correspondence: op sequences are run on real `CRNHyperGraph` objects and on the Lean
model `SynKit.Store.step`; after every op the canonical dump of every store (species,
reactions by id, both indices, molecule labels, sparse + dense incidence matrix) and the
op's outcome (id / error kind) must agree.  The Lean theorems (Props/C15.lean) show that
every reachable model state satisfies the store invariant and the frame conditions, so a
state on which the implementation differs from the model is a state that violates C15
(or is unreachable for correct code): the op prefix is the failing history.

Input forms (coverage round G15).  `add_rxn` / `merge` accept more than the mapping sides and
the `CRNHyperGraph` argument the first streams use; the streams `forms-small`, `random-forms`,
`rxnside-falsy` and `rxnside-shared` drive the other documented forms through the same
comparison: sides as iterables of labels / `(species, count)` tuples / mixed, as tuple, generator
or string, as `RXNSide(data)` / `RXNSide.from_any(data)` objects (fresh or shared between calls),
`merge` of a foreign object exposing `edge_list()` (edges = `HyperEdge` built from raw sides or
plain objects with missing / `None` / duplicated ids and missing / empty rule), of an object
without `edge_list()` (`TypeError`, nothing touched) and of a network into itself.  The model side
is `rawOfItems` / `Store.mergeForeign` of SynKitModel/Store.lean (theorems `normSide_items_spec`,
`mergeForeign_edges`, and `inv_reachable`, whose op alphabet contains these ops).
"""
import itertools
import json

from ..core import build_and_audit
from ..shrink import shrink_seq

THEOREMS = [
    "SynKit.Store.inv_reachable",
    "SynKit.Store.step_frame",
    "SynKit.Store.firstFree_fresh",
    "SynKit.Store.add_lookup_self",
    "SynKit.Store.add_lookup_other",
    "SynKit.Store.remove_lookup_other",
    "SynKit.Store.removeSpecies_lookup",
    "SynKit.Store.incidence_spec",
    "SynKit.Store.mkId_injective",
    "SynKit.Store.merge_edges",
    "SynKit.Store.addFromStr_spec",
    "SynKit.Store.addFromStr_parse_error",
    "SynKit.Store.parseRxns_spec",
    "SynKit.Store.parseRxns_only_appends",
    "SynKit.Store.parseRxnsRules_length_mismatch",
    "SynKit.Store.suffix_unparsed_example",
    "SynKit.Store.mergeForeign_edges",
    "SynKit.Store.normSide_items_spec",
]


# ---------------------------------------------------------------- implementation adapter
def impl_dump(H):
    try:
        return _impl_dump(H)
    except Exception as ex:      # a store the public observers choke on is itself a divergence
        return {"dump_error": f"{type(ex).__name__}: {ex}"}


# side forms that hand `RXNSide(...)` a falsy non-mapping (documented: "None (defaults to empty side)")
FALSY_FORMS = ("rxnside_none", "rxnside_list0", "rxnside_tuple0")
SIDE_FORMS = ("dict", "list", "tuple", "gen", "str", "rxnside", "rxnside_map", "from_any")


def mk_side(items, form, counts=None):
    """Build the Python object for one side. `items`: list of [species, count] (pair) or str (label).
    Returns (object, form actually used)."""
    from synkit.CRN.Hypergraph.rxn import RXNSide

    seq = [tuple(it) if isinstance(it, list) else it for it in items]
    all_pairs = all(isinstance(it, tuple) for it in seq)
    uniq = all_pairs and len({it[0] for it in seq}) == len(seq)
    if form in FALSY_FORMS:
        if seq:
            form = "rxnside"
        else:
            return RXNSide({"rxnside_none": None, "rxnside_list0": [], "rxnside_tuple0": ()}[form]), form
    if form == "dict" and not uniq:
        form = "list"
    if form == "str" and not (seq and all(isinstance(it, str) and len(it) == 1 for it in seq)):
        form = "list"
    if form == "dict":
        return dict(seq), form
    if form == "list":
        return list(seq), form
    if form == "tuple":
        return tuple(seq), form
    if form == "gen":
        return (it for it in seq), form
    if form == "str":
        return "".join(seq), form
    if form == "rxnside_map" and not (uniq and seq):
        form = "rxnside"
    if form == "rxnside_map":
        return RXNSide(dict(seq)), form
    if form == "rxnside":           # RXNSide(data) with an iterable: normalised once, by __post_init__
        if not seq:
            return RXNSide(), "rxnside_noarg"
        return RXNSide(list(seq)), form
    if form == "from_any":
        return RXNSide.from_any(list(seq)), form
    raise AssertionError(form)


class _NoEdgeList:
    """An object `merge` must refuse."""


def mk_foreign(edges, how):
    """A 'hypergraph-like object' for `merge`: `edge_list()` returns the described edges."""
    from types import SimpleNamespace
    from synkit.CRN.Hypergraph.hyperedge import HyperEdge

    if edges is None:
        return _NoEdgeList()
    objs = []
    for e in edges:
        r, _ = mk_side(e["r"], e.get("rform", "dict"))
        p, _ = mk_side(e["p"], e.get("pform", "dict"))
        if e.get("kind") == "hyperedge":
            o = HyperEdge(e["id"], r, p) if e["rule"] is None else HyperEdge(e["id"], r, p, rule=e["rule"])
        else:
            o = SimpleNamespace(reactants=r, products=p)
            if e["id"] is not None or e.get("idattr") == "none":
                o.id = e["id"]
            if e["rule"] is not None:
                o.rule = e["rule"]
        objs.append(o)

    class Other:
        def edge_list(self):
            return iter(objs) if how == "iter" else (tuple(objs) if how == "tuple" else list(objs))
    return Other()


def _impl_dump(H):
    import numpy as np

    edges = []
    for k, e in H.edges.items():
        edges.append({"id": k, "eid_field": e.id, "rule": e.rule,
                      "r": sorted([s, int(c)] for s, c in e.reactants.items()),
                      "p": sorted([s, int(c)] for s, c in e.products.items())})
    edges.sort(key=lambda d: d["id"])

    def idx(d):
        return sorted([s, sorted(v)] for s, v in d.items() if v)

    so, eo, m = H.incidence_matrix(sparse=True)
    inc = sorted([s, e, int(v)] for (s, e), v in m.items() if v != 0)
    so3, eo3, m3 = H.stoichiometric_matrix(sparse=True)      # documented alias of incidence_matrix
    alias_ok = (list(so3), list(eo3), dict(m3)) == (list(so), list(eo), dict(m))
    so2, eo2, dense = H.incidence_matrix(sparse=False)
    inc_dense = sorted([so2[i], eo2[j], int(dense[i, j])] for i in range(len(so2)) for j in range(len(eo2)) if dense[i, j] != 0)
    return {"species": sorted(H.species), "edges": edges, "in": idx(H.species_to_in_edges), "out": idx(H.species_to_out_edges),
            "mol": sorted([s, str(v)] for s, v in H.species_to_mol.items()), "inc": inc, "inc_dense": inc_dense,
            "species_order": list(so), "edge_order": list(eo), "alias_ok": alias_ok}


def impl_run(n, ops, model_ops=None):
    """Run the history on real stores. `model_ops` (a list to fill) receives the history as the model
    has to see it: identical, except that a side given as a caller-held shared RXNSide object is
    spelled out with the value that object had at the moment it was passed."""
    from synkit.CRN.Hypergraph.hypergraph import CRNHyperGraph

    W = [CRNHyperGraph() for _ in range(n)]
    steps = []
    pool = {}            # caller-held RXNSide objects handed to more than one add_rxn call
    seen_by_model = []   # the ops with every shared side replaced by the value the object had when it was passed

    def side(op, which, eff):
        key = op.get(which + "share")
        if key is not None:
            if key not in pool:
                pool[key] = mk_side(op[which], "rxnside")[0]
            eff[which] = [[sp, int(c)] for sp, c in pool[key].data.items()]
            return pool[key]
        return mk_side(op[which], op.get(which + "form", "dict"))[0]

    for op in ops:
        eff = dict(op)
        seen_by_model.append(eff)
        k = op["k"]
        H = W[k]
        try:
            o = op["op"]
            if o == "add":
                e = H.add_rxn(side(op, "r", eff), side(op, "p", eff), rule=op["rule"], edge_id=op["eid"])
                out = {"id": e.id}
            elif o == "remove":
                H.remove_rxn(op["id"]); out = "ok"
            elif o == "removeSpecies":
                # the documented default is prune_orphans=True: leave the argument out for about half of those calls
                # (chosen by the species name, so a replay takes the same route)
                if op["prune"] and sum(map(ord, str(op["sp"]))) % 2 == 0:
                    H.remove_species(op["sp"])
                else:
                    H.remove_species(op["sp"], prune_orphans=op["prune"])
                out = "ok"
            elif o == "merge":
                H.merge(W[op["j"]], prefix_edges=op["pfx"]); out = "ok"
            elif o == "mergeEdges":
                H.merge(mk_foreign(op["edges"], op.get("how", "list")), prefix_edges=op["pfx"]); out = "ok"
            elif o == "copy":
                W[op["j"]] = H.copy(); out = "ok"
            elif o == "assignMol":
                H.assign_mol(op["sp"], op["m"]); out = "ok"
            elif o == "addFromStr":
                e = H.add_rxn_from_str(op["reaction"], rule=op["rule"], parse_rule_from_suffix=op["suffix"])
                out = {"id": e.id}
            elif o == "parseRxns":
                items = [(l, r) for l, r in op["items"]]
                form = op.get("form", "tuples")
                if form == "mapping" and len({l for l, _ in items}) == len(items):
                    arg = dict(items)
                elif form == "strings" and all(r is None for _, r in items):
                    arg = [l for l, _ in items]
                else:
                    arg = items
                H.parse_rxns(arg, default_rule=op["default_rule"], parse_rule_from_suffix=op["suffix"],
                             prefer_suffix=op["prefer_suffix"])
                out = "ok"
            elif o == "parseRxnsRules":
                H.parse_rxns(list(op["lines"]), rules=list(op["rules"]), default_rule=op["default_rule"],
                             parse_rule_from_suffix=op["suffix"], prefer_suffix=op["prefer_suffix"])
                out = "ok"
            elif o == "setMolMap":
                H.set_mol_map(dict(op["mapping"]), strict=op["strict"], clear_existing=op["clear"]); out = "ok"
            else:
                raise AssertionError(o)
        except KeyError:
            out = "KeyError"
        except ValueError:
            out = "ValueError"
        except IndexError:
            out = "IndexError"
        except TypeError:
            out = "TypeError"
        except Exception as ex:      # anything else is not an outcome the model knows: a divergence
            out = "unexpected " + type(ex).__name__
        steps.append({"out": out, "world": [impl_dump(h) for h in W]})
    if model_ops is not None:
        model_ops.extend(seen_by_model)
    return steps


def norm_model_store(s):
    s = dict(s)
    s.pop("kept", None)
    s["inc"] = [t for t in s["inc"] if t[2] != 0]
    return s


def norm_impl_store(s):
    s = dict(s)
    for k in ("inc_dense", "species_order", "edge_order", "alias_ok"):
        s.pop(k, None)
    s["edges"] = [{k: v for k, v in e.items() if k != "eid_field"} for e in s["edges"]]
    return s


def compare(impl_steps, model_steps, last_only=False):
    """-> (index of first diverging step, description) or None."""
    rng = range(len(impl_steps))
    for t in rng:
        a, b = impl_steps[t], model_steps[t]
        if a["out"] != b["out"]:
            return t, f"outcome impl={a['out']!r} model={b['out']!r}"
        if last_only and t != len(impl_steps) - 1:
            continue
        for k, (sa, sb) in enumerate(zip(a["world"], b["world"])):
            if "dump_error" in sa:
                return t, f"store {k}: the public observers raise on the stored state ({sa['dump_error']})"
            na, nb = norm_impl_store(sa), norm_model_store(sb)
            for key in nb:
                if na[key] != nb[key]:
                    return t, f"store {k} field {key}: impl={json.dumps(na[key])[:300]} model={json.dumps(nb[key])[:300]}"
            if not sa["alias_ok"]:
                return t, f"store {k}: stoichiometric_matrix() differs from incidence_matrix()"
            if sa["inc_dense"] != sa["inc"]:
                return t, f"store {k}: dense incidence matrix differs from sparse mapping"
            if sa["species_order"] != sa["species"] or sa["edge_order"] != [e["id"] for e in sa["edges"]]:
                return t, f"store {k}: incidence orders are not the sorted species / reaction ids"
            for e in sa["edges"]:
                if e["eid_field"] != e["id"]:
                    return t, f"store {k}: reaction stored under {e['id']} carries id {e['eid_field']}"
    return None


# ---------------------------------------------------------------- generators
SIDES_SMALL = [[], [["A", 1]], [["B", 2]], [["A", 1], ["B", 1]], [["C", 1]]]


def alphabet_small():
    ops = []
    for r, p in [(1, 2), (3, 4), (0, 1), (2, 0), (1, 1), (0, 0), (4, 3)]:
        ops.append({"op": "add", "k": 0, "r": SIDES_SMALL[r], "p": SIDES_SMALL[p], "rule": None, "eid": None})
    ops.append({"op": "add", "k": 0, "r": SIDES_SMALL[1], "p": SIDES_SMALL[4], "rule": "R1", "eid": None})
    ops.append({"op": "add", "k": 0, "r": SIDES_SMALL[2], "p": SIDES_SMALL[1], "rule": None, "eid": "r_1"})
    ops.append({"op": "add", "k": 0, "r": SIDES_SMALL[4], "p": SIDES_SMALL[2], "rule": "R1", "eid": "r_2"})
    ops.append({"op": "add", "k": 0, "r": SIDES_SMALL[3], "p": SIDES_SMALL[4], "rule": None, "eid": "R1_1"})
    ops.append({"op": "add", "k": 1, "r": SIDES_SMALL[1], "p": SIDES_SMALL[2], "rule": None, "eid": None})
    ops.append({"op": "add", "k": 1, "r": SIDES_SMALL[4], "p": SIDES_SMALL[1], "rule": "R1", "eid": "r_2"})
    for i in ["r_1", "r_2", "R1_1"]:
        ops.append({"op": "remove", "k": 0, "id": i})
    for sp in "ABC":
        for pr in (True, False):
            ops.append({"op": "removeSpecies", "k": 0, "sp": sp, "prune": pr})
    ops.append({"op": "removeSpecies", "k": 1, "sp": "A", "prune": True})
    ops.append({"op": "merge", "k": 0, "j": 1, "pfx": True})
    ops.append({"op": "merge", "k": 0, "j": 1, "pfx": False})
    ops.append({"op": "merge", "k": 1, "j": 0, "pfx": False})
    ops.append({"op": "copy", "k": 0, "j": 1})
    ops.append({"op": "assignMol", "k": 0, "sp": "A", "m": "mA"})
    ops.append({"op": "setMolMap", "k": 0, "mapping": [["B", "mB"], ["C", "mC"]], "strict": False, "clear": True})
    # label keys that are reaction ids, not species (seed C15-g): ignored / KeyError, never stored
    ops.append({"op": "setMolMap", "k": 0, "mapping": [["r_1", "m1"], ["A", "mA2"]], "strict": False, "clear": False})
    ops.append({"op": "assignMol", "k": 0, "sp": "r_1", "m": "m1"})
    ops.append({"op": "addFromStr", "k": 0, "reaction": "2A + B >> C | rule=R1", "rule": None, "suffix": True})
    ops.append({"op": "addFromStr", "k": 0, "reaction": "A>>B", "rule": "R1", "suffix": False})
    ops.append({"op": "parseRxns", "k": 0, "items": [["A>>B", None], ["B+C>>A | rule=R1", None]], "default_rule": "r",
                "suffix": True, "prefer_suffix": False, "form": "strings"})
    # other documented input forms (round G15)
    ops.append({"op": "add", "k": 0, "r": ["A", "B", "A"], "p": [["C", 1], ["C", 1]], "rule": None, "eid": None,
                "rform": "list", "pform": "tuple"})
    ops.append({"op": "add", "k": 0, "r": [["B", 2]], "p": ["A"], "rule": "R1", "eid": None,
                "rform": "rxnside", "pform": "from_any"})
    ops.append({"op": "mergeEdges", "k": 0, "pfx": False, "how": "list", "edges": [
        {"kind": "ns", "id": None, "idattr": "none", "rule": "", "r": ["A"], "p": [["B", 2]], "rform": "list", "pform": "dict"},
        {"kind": "hyperedge", "id": "r_1", "rule": "R1", "r": [["C", 1]], "p": ["A", "A"], "rform": "dict", "pform": "list"}]})
    ops.append({"op": "mergeEdges", "k": 0, "pfx": True, "how": "iter", "edges": [
        {"kind": "ns", "id": "r_2", "rule": None, "r": [["B", 1]], "p": [], "rform": "list", "pform": "list"}]})
    ops.append({"op": "mergeEdges", "k": 0, "pfx": True, "edges": None})
    ops.append({"op": "merge", "k": 0, "j": 0, "pfx": False})
    ops.append({"op": "merge", "k": 0, "j": 0, "pfx": True})
    return ops


# ---------------------------------------------------------------- input forms (round G15)
ITEM_LISTS = [
    [], ["A"], ["A", "B", "A"], ["", "A"], [""], [["A", 1]], [["A", 2], ["A", 3]], [["A", 0]], [["B", -1], ["C", 2]],
    [["C", 1], "A", ["A", 2], ""], ["C", "B", "A"], [["", 2]], [["B", 12], ["A", 1]], [["A", 0], ["B", 1], ["B", 1]],
    # bare labels whose length is that of a (label, count) pair: a two-character string is a label, not a pair
    ["AB"], ["Cd", "A"], [["AB", 2], "Cd", "A"],
]


def forms_small():
    """Every side form x every item list on the reactant side and on the product side, followed by
    the edits that read the stored sides back (strip a species, remove the reaction)."""
    cases = []
    for form in SIDE_FORMS:
        for items in ITEM_LISTS:
            for which in ("r", "p"):
                other = [["D", 1]] if items in ([], [""], [["A", 0]]) or which == "p" else []
                add = {"op": "add", "k": 0, "rule": None, "eid": None, "r": items if which == "r" else other,
                       "p": items if which == "p" else other, which + "form": form,
                       ("p" if which == "r" else "r") + "form": "dict"}
                cases.append((2, [add, {"op": "copy", "k": 0, "j": 1}, {"op": "removeSpecies", "k": 0, "sp": "A", "prune": True},
                                  {"op": "remove", "k": 1, "id": "r_1"}]))
        # both sides empty in this form: ValueError after the counter moved
        cases.append((1, [{"op": "add", "k": 0, "rule": None, "eid": None, "r": [], "p": [""], "rform": form, "pform": form},
                          {"op": "add", "k": 0, "rule": None, "eid": None, "r": ["A"], "p": [], "rform": form, "pform": form}]))
    return cases


def random_items(rnd, SP):
    n = rnd.choice([0, 1, 1, 2, 2, 3, 4])
    kind = rnd.choice(["pairs", "labels", "mixed", "uniq"])
    if kind == "uniq":
        sps = [s for s in SP if rnd.random() < 0.3]
        rnd.shuffle(sps)
        return [[s, rnd.choice([1, 1, 2, 3, 12, 0, -1])] for s in sps]
    items = []
    for _ in range(n):
        sp = rnd.choice(SP + [""]) if rnd.random() < 0.08 else rnd.choice(SP)
        if kind == "labels" or (kind == "mixed" and rnd.random() < 0.5):
            items.append(sp)
        else:
            items.append([sp, rnd.choice([1, 1, 2, 3, 12, 0, -1])])
    return items


def random_foreign(rnd, SP, IDS):
    if rnd.random() < 0.06:
        return None
    edges = []
    for _ in range(rnd.choice([0, 1, 1, 2, 3])):
        kind = rnd.choice(["ns", "ns", "hyperedge"])
        eid = rnd.choice(IDS + [""]) if rnd.random() < 0.7 else None
        e = {"kind": kind, "id": eid, "rule": rnd.choice([None, "r", "", "R1", "R2"]),
             "r": random_items(rnd, SP), "p": random_items(rnd, SP),
             "rform": rnd.choice(SIDE_FORMS), "pform": rnd.choice(SIDE_FORMS)}
        if kind == "ns" and eid is None:
            e["idattr"] = rnd.choice(["none", "absent"])
        edges.append(e)
    return edges


def random_form_ops(rnd, length, nslots=3, share=False, falsy=False):
    """Histories like `random_ops`, with the add / merge ops in the other documented input forms."""
    SP = list("ABCDEF")
    IDS = ["r_1", "r_2", "r_3", "R1_1", "R1_2", "R2_1", "x", "r_10", "_1", ""]
    base = random_ops(rnd, length, nslots)
    shared_items = {key: random_items(rnd, SP) or [["A", 1], ["B", 1]] for key in range(3)}
    ops = []
    for op in base:
        c = rnd.random()
        if op["op"] == "add":
            op = dict(op)
            for which in ("r", "p"):
                if rnd.random() < 0.75:
                    op[which] = random_items(rnd, SP)
                    op[which + "form"] = rnd.choice(SIDE_FORMS)
                if share and rnd.random() < 0.5:
                    key = rnd.randrange(3)
                    op[which] = shared_items[key]
                    op[which + "share"] = key
                    op.pop(which + "form", None)
                if falsy and rnd.random() < 0.4:
                    op[which] = []
                    op[which + "form"] = rnd.choice(FALSY_FORMS)
            if rnd.random() < 0.1:
                op["eid"] = rnd.choice(IDS)
        elif op["op"] == "merge":
            if c < 0.5:
                op = {"op": "mergeEdges", "k": op["k"], "pfx": op["pfx"], "how": rnd.choice(["list", "iter", "tuple"]),
                      "edges": random_foreign(rnd, SP, IDS)}
            elif c < 0.65:
                op = dict(op, j=op["k"])
        ops.append(op)
    return ops


def strip_forms(ops, falsy=True, share=True):
    """The same history without the falsy RXNSide data / without sharing of RXNSide objects."""
    out = []
    for op in ops:
        op = dict(op)
        for which in ("r", "p"):
            if falsy and op.get(which + "form") in FALSY_FORMS:
                op[which + "form"] = "rxnside"
            if share and (which + "share") in op:
                del op[which + "share"]
                op[which + "form"] = "rxnside"
        out.append(op)
    return out


def count_forms(ctx, ops):
    from_items = lambda items: [("label_empty" if it == "" else "label") if isinstance(it, str) else
                                ("pair_nonpos" if it[1] <= 0 else "pair") for it in items]
    for op in ops:
        if op["op"] == "add":
            for which in ("r", "p"):
                if (which + "share") in op:
                    ctx.count("side_form:shared_rxnside")
                else:
                    ctx.count("side_form:" + mk_side(op[which], op.get(which + "form", "dict"))[1])
                for kd in from_items(op[which]):
                    ctx.count("side_item:" + kd)
                keys = [it if isinstance(it, str) else it[0] for it in op[which]]
                if len(set(keys)) < len(keys):
                    ctx.count("side_with_repeated_species")
        elif op["op"] == "mergeEdges":
            if op["edges"] is None:
                ctx.count("foreign:no_edge_list")
                continue
            ctx.count("foreign:edge_list_" + op.get("how", "list"))
            ids = [e["id"] for e in op["edges"]]
            if len([i for i in ids if i is not None]) > len({i for i in ids if i is not None}):
                ctx.count("foreign:duplicate_ids")
            for e in op["edges"]:
                ctx.count("foreign_edge:" + e["kind"])
                ctx.count("foreign_edge_id:" + ("str" if e["id"] is not None else e.get("idattr", "none")))
                ctx.count("foreign_edge_rule:" + ("absent" if e["rule"] is None else ("empty" if e["rule"] == "" else "str")))
        elif op["op"] == "merge" and op["j"] == op["k"]:
            ctx.count("merge:self")


def random_ops(rnd, length, nslots=3):
    SP = list("ABCDEF")
    RULES = [None, None, "R1", "r", "", "R2"]
    IDS = ["r_1", "r_2", "r_3", "R1_1", "R1_2", "R2_1", "x", "r_10"]
    ops = []
    for _ in range(length):
        k = rnd.choice([0, 0, 0, 1, 2][:nslots + 2]) % nslots
        c = rnd.random()
        if c < 0.42:
            def side():
                return [[s, rnd.choice([1, 1, 2, 3, 12, 0, -1])] for s in SP if rnd.random() < 0.3]
            ops.append({"op": "add", "k": k, "r": side(), "p": side(), "rule": rnd.choice(RULES),
                        "eid": rnd.choice(IDS) if rnd.random() < 0.3 else None})
        elif c < 0.57:
            ops.append({"op": "remove", "k": k, "id": rnd.choice(IDS)})
        elif c < 0.72:
            ops.append({"op": "removeSpecies", "k": k, "sp": rnd.choice(SP), "prune": rnd.random() < 0.6})
        elif c < 0.82:
            j = rnd.choice([x for x in range(nslots) if x != k])
            ops.append({"op": "merge", "k": k, "j": j, "pfx": rnd.random() < 0.5})
        elif c < 0.90:
            j = rnd.choice([x for x in range(nslots) if x != k])
            ops.append({"op": "copy", "k": k, "j": j})
        elif c < 0.93:
            # the label key is a species name, or (1 in 4) the id of a reaction: ids are not species, and
            # `x in H` is true for both (seed C15-g)
            sp = rnd.choice(SP) if rnd.random() < 0.75 else rnd.choice(IDS)
            ops.append({"op": "assignMol", "k": k, "sp": sp, "m": "m" + sp})
        elif c < 0.97:
            kind = rnd.random()
            if kind < 0.45:
                ops.append({"op": "addFromStr", "k": k, "reaction": random_line(rnd, SP), "rule": rnd.choice([None, None, "R1", ""]),
                            "suffix": rnd.random() < 0.7})
            elif kind < 0.85:
                items = [[random_line(rnd, SP), rnd.choice([None, None, "R2", "r"])] for _ in range(rnd.randint(0, 4))]
                ops.append({"op": "parseRxns", "k": k, "items": items, "default_rule": rnd.choice(["r", "D"]),
                            "suffix": rnd.random() < 0.7, "prefer_suffix": rnd.random() < 0.4,
                            "form": rnd.choice(["tuples", "mapping", "strings"])})
            else:
                n = rnd.randint(0, 3)
                lines = [random_line(rnd, SP) for _ in range(n)]
                rules = [rnd.choice([None, "R1", "R2"]) for _ in range(n if rnd.random() < 0.8 else n + 1)]
                ops.append({"op": "parseRxnsRules", "k": k, "lines": lines, "rules": rules, "default_rule": rnd.choice(["r", "D"]),
                            "suffix": rnd.random() < 0.7, "prefer_suffix": rnd.random() < 0.4})
        else:
            mp = [[s, "M" + s] for s in SP if rnd.random() < 0.4]
            mp += [[s, "M" + s] for s in IDS if rnd.random() < 0.15]      # keys that are reaction ids (seed C15-g)
            rnd.shuffle(mp)
            ops.append({"op": "setMolMap", "k": k, "mapping": mp, "strict": rnd.random() < 0.5, "clear": rnd.random() < 0.5})
    return ops


def random_line(rnd, SP):
    """A reaction string: mostly well formed (the spellings RXNSide.from_str documents), sometimes malformed."""
    def term():
        sp = rnd.choice(SP)
        c = rnd.choice([1, 1, 1, 2, 3, 10])
        return rnd.choice([sp if c == 1 else f"{c}{sp}", f"{c} {sp}", f"{c}*{sp}", sp])
    def side():
        n = rnd.choice([0, 1, 1, 2, 2, 3])
        if n == 0:
            return rnd.choice(["", "∅", " "])
        return rnd.choice([" + ", "+", " +"]).join(term() for _ in range(n))
    r = rnd.random()
    if r < 0.06:
        return side()                      # missing '>>'  -> ValueError
    if r < 0.09:
        return "*>>" + side()              # empty token list -> IndexError in from_str
    line = side() + rnd.choice([">>", " >> "]) + side()
    if rnd.random() < 0.35:
        line += rnd.choice([" | rule=R1", "| rule=R2", " | rule = R3", " | note=x"])
    return line


def load_regress():
    from ..core import ROOT
    out = []
    d = ROOT / "regress" / "C15"
    if d.exists():
        for f in sorted(d.glob("*.json")):
            out.append(json.loads(f.read_text()))
    return out


def nontrivial(ops, steps):
    # at least two successful edits and at least one stored reaction at some point
    oks = sum(1 for s in steps if s["out"] == "ok" or isinstance(s["out"], dict))
    return oks >= 2 and any(st.get("edges") for s in steps for st in s["world"])


def diverges(ctx, n, ops):
    """Run one history on both sides -> compare() result."""
    mops = []
    impl = impl_run(n, ops, mops)
    m = ctx.lean().ok([{"cmd": "store.run", "n": n, "ops": mops}])[0]
    return compare(impl, m["steps"])


def run_cases(ctx, cases, last_only, tag):
    """cases: list of (nslots, ops)."""
    for lo in range(0, len(cases), 2500):
        if _run_chunk(ctx, cases[lo:lo + 2500], last_only, tag):
            return


def _run_chunk(ctx, cases, last_only, tag):
    impls, reqs = [], []
    for n, ops in cases:
        mops = []
        impls.append(impl_run(n, ops, mops))
        reqs.append({"cmd": "store.run", "n": n, "ops": mops})
    models = ctx.lean().ok(reqs, shards=8)
    for (n, ops), impl, mod in zip(cases, impls, models):
        for s in impl:
            ctx.count("outcome:" + (s["out"] if isinstance(s["out"], str) else "id"))
        for op in ops:
            ctx.count("op:" + op["op"])
        count_forms(ctx, ops)
        ctx.case([n, ops], nontrivial(ops, impl), sample={"stream": tag, "slots": n, "ops": ops} if len(ops) <= 6 else None)
        d = compare(impl, mod["steps"], last_only)
        if d is None:
            continue
        t, desc = d

        def fails(cand):
            return bool(cand) and diverges(ctx, n, cand) is not None
        # a further divergence of a class that is already on record (with a minimised input) is only counted
        pre = classify(ops[:t + 1], fails)
        if pre and all(c in {c2 for v in ctx.violations for c2 in v["classes"]} for c in pre):
            for c in pre:
                ctx.count("classified_divergence:" + c)
            continue
        small = shrink_edges(shrink_seq(ops[:t + 1], fails), fails)
        d2 = diverges(ctx, n, small)
        classes = classify(small, fails)
        ctx.violation("store state or outcome differs from the proven model after a history of edits",
                      {"slots": n, "ops": small}, {"first_divergence": d2[1] if d2 else desc, "stream": tag,
                                                    "original_length": len(ops)}, classes=classes)
        for c in classes:
            ctx.count("classified_divergence:" + c)
        if len(unclassified(ctx)) >= 5:
            return True
    return False


def shrink_edges(ops, fails):
    """Second level of minimisation: drop edges of the foreign objects handed to merge."""
    ops = list(ops)
    for i, op in enumerate(ops):
        if op["op"] != "mergeEdges" or not op["edges"]:
            continue
        edges = list(op["edges"])
        j = 0
        while j < len(edges) and len(edges) > 1:
            cand = ops[:i] + [dict(op, edges=edges[:j] + edges[j + 1:])] + ops[i + 1:]
            if fails(cand):
                edges = edges[:j] + edges[j + 1:]
                ops = cand
            else:
                j += 1
    return ops


def classify(ops, fails):
    """Two defects of the unchanged tree are reachable only through RXNSide objects built by the caller
    (RXNSide(None) / RXNSide([]) / RXNSide(()); one RXNSide object handed to add_rxn of two networks).
    A divergence that disappears when the history is replayed without that ingredient -- and only then --
    is attributed to it."""
    uses_falsy = any(op.get(w + "form") in FALSY_FORMS for op in ops for w in ("r", "p"))
    uses_share = any((w + "share") in op for op in ops for w in ("r", "p"))
    if uses_falsy and not fails(strip_forms(ops, falsy=True, share=False)):
        return ["rxnside_falsy_data"]
    if uses_share and not fails(strip_forms(ops, falsy=False, share=True)):
        return ["add_rxn_shared_rxnside"]
    if uses_falsy and uses_share and not fails(strip_forms(ops)):
        return ["add_rxn_shared_rxnside", "rxnside_falsy_data"]
    return []


def unclassified(ctx):
    return [v for v in ctx.violations if not v["classes"]]


def run(ctx):
    ctx.trusted = [
        "Lean 4.33 kernel; axioms of the property theorems as listed in obligation_list",
        "hand-written model SynKitModel/Store.lean tied to /repo by this correspondence run (not by translation)",
        "Driver/Store.lean JSON codec and harness/props/c15.py adapter + canonicalisation (sorting of sets/dicts)",
        "modelled: add_rxn (mapping / iterable / RXNSide inputs), merge of stores, of the store itself and of foreign objects, add_rxn_from_str, parse_rxns (all input forms), remove_rxn, remove_species, merge, copy, "
        "assign_mol, set_mol_map, incidence_matrix; not modelled: paths/neighbors",
    ]
    ctx.assumptions = [
        "species labels, rules and ids are plain strings, counts are Python ints",
        "side inputs: mappings, iterables (list / tuple / generator / str) of labels and of (species, count) 2-tuples, and "
        "RXNSide objects built with RXNSide(data) / RXNSide.from_any(data); a foreign `merge` argument has well-typed edges "
        "(attribute `rule`, when present, is a str; sides in one of the forms above)",
        "an RXNSide handed to add_rxn is not mutated by the caller afterwards (the store mutating a caller-held RXNSide through "
        "another network is gated: stream rxnside-shared)",
    ]
    ctx.gen_rule = (f"regression corpus first; then ALL op sequences of a {len(alphabet_small())}-op alphabet over 3 species / 2 rules / 2 stores "
                    "(incl. explicit ids that look generated, merge both ways and into itself, merge of foreign objects, copy, sides "
                    "as label / pair iterables and RXNSide objects) to depth 2 (quick) or 3 (thorough), compared on "
                    "outcome of every op and on the final state; then random histories (<=60 ops, 6 species, 3 stores, coefficients "
                    "incl. 0, negative and multi-digit) compared after every op; then forms-small: every side form "
                    f"({', '.join(SIDE_FORMS)}) x {len(ITEM_LISTS)} item lists (empty, repeated species, empty label, non-positive "
                    "counts, mixed) on either side, each followed by copy / remove_species / remove_rxn; random-forms: random "
                    "histories whose add ops draw item lists (pairs / labels / mixed / unique-shuffled) and a side form per side, "
                    "whose merges are 50% foreign objects (0-3 edges, HyperEdge or plain object, id str / None / absent / '' / "
                    "duplicated, rule str / '' / absent, edge_list() as list / iterator / tuple, 6% without edge_list) and 15% "
                    "self-merges; last rxnside-falsy (empty sides as RXNSide(None) / RXNSide([]) / RXNSide(())) and rxnside-shared "
                    "(3 caller-held RXNSide objects reused across add_rxn calls and stores).")
    ctx.nontrivial_rule = "history distinct as a JSON value, with >=2 successful edits and a non-empty store at some point"
    build_and_audit(ctx, ["SynKitProofs.Props.C15"], "SynKitProofs/Audit/C15.lean", THEOREMS)

    reg = [(c["slots"], c["ops"]) for c in load_regress()]
    run_cases(ctx, reg, False, "regress")
    ctx.count("regress_cases", len(reg))

    alpha = alphabet_small()
    depth = 2 if ctx.quick else 3
    cases = []
    for d in range(1, depth + 1):
        for seq in itertools.product(alpha, repeat=d):
            cases.append((2, list(seq)))
    if ctx.quick:
        # plus a seeded sample of depth-3 sequences
        for _ in range(8000):
            cases.append((2, [ctx.rnd.choice(alpha) for _ in range(ctx.rnd.choice([3, 4, 5]))]))
    else:
        for _ in range(20000):
            cases.append((2, [ctx.rnd.choice(alpha) for _ in range(4)]))
    if not unclassified(ctx):
        run_cases(ctx, cases, True, "exhaustive-small")
    ctx.extra["exhaustive"] = False
    ctx.extra["exhaustive_part"] = f"all {len(alpha)}^d sequences for d<={depth}"
    nrand = 300 if ctx.quick else 2000
    rcases = [(3, random_ops(ctx.rnd, ctx.rnd.randint(5, 60))) for _ in range(nrand)]
    if not unclassified(ctx):
        run_cases(ctx, rcases, False, "random")
    # ---- other documented input forms (round G15)
    if not unclassified(ctx):
        run_cases(ctx, forms_small(), False, "forms-small")
    nform = 150 if ctx.quick else 1500
    fcases = [(3, random_form_ops(ctx.rnd, ctx.rnd.randint(5, 40))) for _ in range(nform)]
    if not unclassified(ctx):
        run_cases(ctx, fcases, False, "random-forms")
    # the two streams below reach defects of the unchanged tree (classes rxnside_falsy_data,
    # add_rxn_shared_rxnside): one minimised input per class is reported, further divergences of the
    # same class are counted, anything else they find is reported like in every other stream
    nf = 40 if ctx.quick else 300
    falsy_cases = [(1, [{"op": "add", "k": 0, "rule": None, "eid": None, "r": [], "p": [["A", 1]], "rform": f, "pform": "dict"}])
                   for f in FALSY_FORMS]
    falsy_cases += [(2, random_form_ops(ctx.rnd, ctx.rnd.randint(3, 20), nslots=2, falsy=True)) for _ in range(nf)]
    if not unclassified(ctx):
        run_cases(ctx, falsy_cases, False, "rxnside-falsy")
    shared = [["A", 1], ["D", 1]]
    share_cases = [(2, [{"op": "add", "k": 0, "rule": None, "eid": None, "r": shared, "rshare": 0, "p": [["B", 1]]},
                        {"op": "add", "k": 1, "rule": None, "eid": None, "r": shared, "rshare": 0, "p": [["C", 1]]},
                        {"op": "removeSpecies", "k": 0, "sp": "A", "prune": pr}]) for pr in (True, False)]
    share_cases += [(2, random_form_ops(ctx.rnd, ctx.rnd.randint(3, 25), nslots=2, share=True)) for _ in range(nf)]
    if not unclassified(ctx):
        run_cases(ctx, share_cases, False, "rxnside-shared")
    ctx.obligation("correspondence: store histories impl == model (outcomes, states, indices, incidence)", not unclassified(ctx),
                   "" if not ctx.violations else "classified divergences: " + ", ".join(sorted({c for v in ctx.violations for c in v["classes"]})))


def replay(ctx, case):
    c = case["case"]
    run_cases(ctx, [(c["slots"], c["ops"])], False, "replay")

"""C15 — reaction-network store stays consistent under every history of edits.

Correspondence: op sequences are run on real `CRNHyperGraph` objects and on the Lean
model `SynKit.Store.step`; after every op the canonical dump of every store (species,
reactions by id, both indices, molecule labels, sparse + dense incidence matrix) and the
op's outcome (id / error kind) must agree.  The Lean theorems (Props/C15.lean) show that
every reachable model state satisfies the store invariant and the frame conditions, so a
state on which the implementation differs from the model is a state that violates C15
(or is unreachable for correct code): the op prefix is the failing history.
"""
import itertools
import json

from ..core import build_and_audit
from ..shrink import shrink_seq

THEOREMS = [
    "SynKit.Store.inv_reachable",
    "SynKit.Store.step_frame",
    "SynKit.Store.firstFree_fresh",
    "SynKit.Store.add_lookup_self",
    "SynKit.Store.add_lookup_other",
    "SynKit.Store.remove_lookup_other",
    "SynKit.Store.removeSpecies_lookup",
    "SynKit.Store.incidence_spec",
    "SynKit.Store.mkId_injective",
    "SynKit.Store.merge_edges",
    "SynKit.Store.addFromStr_spec",
    "SynKit.Store.addFromStr_parse_error",
    "SynKit.Store.parseRxns_spec",
    "SynKit.Store.parseRxns_only_appends",
    "SynKit.Store.parseRxnsRules_length_mismatch",
    "SynKit.Store.suffix_unparsed_example",
]


# ---------------------------------------------------------------- implementation adapter
def impl_dump(H):
    import numpy as np

    edges = []
    for k, e in H.edges.items():
        edges.append({"id": k, "eid_field": e.id, "rule": e.rule,
                      "r": sorted([s, int(c)] for s, c in e.reactants.items()),
                      "p": sorted([s, int(c)] for s, c in e.products.items())})
    edges.sort(key=lambda d: d["id"])

    def idx(d):
        return sorted([s, sorted(v)] for s, v in d.items() if v)

    so, eo, m = H.incidence_matrix(sparse=True)
    inc = sorted([s, e, int(v)] for (s, e), v in m.items() if v != 0)
    so2, eo2, dense = H.incidence_matrix(sparse=False)
    inc_dense = sorted([so2[i], eo2[j], int(dense[i, j])] for i in range(len(so2)) for j in range(len(eo2)) if dense[i, j] != 0)
    return {"species": sorted(H.species), "edges": edges, "in": idx(H.species_to_in_edges), "out": idx(H.species_to_out_edges),
            "mol": sorted([s, str(v)] for s, v in H.species_to_mol.items()), "inc": inc, "inc_dense": inc_dense,
            "species_order": list(so), "edge_order": list(eo)}


def impl_run(n, ops):
    from synkit.CRN.Hypergraph.hypergraph import CRNHyperGraph

    W = [CRNHyperGraph() for _ in range(n)]
    steps = []
    for op in ops:
        k = op["k"]
        H = W[k]
        try:
            o = op["op"]
            if o == "add":
                e = H.add_rxn(dict(op["r"]), dict(op["p"]), rule=op["rule"], edge_id=op["eid"])
                out = {"id": e.id}
            elif o == "remove":
                H.remove_rxn(op["id"]); out = "ok"
            elif o == "removeSpecies":
                H.remove_species(op["sp"], prune_orphans=op["prune"]); out = "ok"
            elif o == "merge":
                H.merge(W[op["j"]], prefix_edges=op["pfx"]); out = "ok"
            elif o == "copy":
                W[op["j"]] = H.copy(); out = "ok"
            elif o == "assignMol":
                H.assign_mol(op["sp"], op["m"]); out = "ok"
            elif o == "addFromStr":
                e = H.add_rxn_from_str(op["reaction"], rule=op["rule"], parse_rule_from_suffix=op["suffix"])
                out = {"id": e.id}
            elif o == "parseRxns":
                items = [(l, r) for l, r in op["items"]]
                form = op.get("form", "tuples")
                if form == "mapping" and len({l for l, _ in items}) == len(items):
                    arg = dict(items)
                elif form == "strings" and all(r is None for _, r in items):
                    arg = [l for l, _ in items]
                else:
                    arg = items
                H.parse_rxns(arg, default_rule=op["default_rule"], parse_rule_from_suffix=op["suffix"],
                             prefer_suffix=op["prefer_suffix"])
                out = "ok"
            elif o == "parseRxnsRules":
                H.parse_rxns(list(op["lines"]), rules=list(op["rules"]), default_rule=op["default_rule"],
                             parse_rule_from_suffix=op["suffix"], prefer_suffix=op["prefer_suffix"])
                out = "ok"
            elif o == "setMolMap":
                H.set_mol_map(dict(op["mapping"]), strict=op["strict"], clear_existing=op["clear"]); out = "ok"
            else:
                raise AssertionError(o)
        except KeyError:
            out = "KeyError"
        except ValueError:
            out = "ValueError"
        except IndexError:
            out = "IndexError"
        steps.append({"out": out, "world": [impl_dump(h) for h in W]})
    return steps


def norm_model_store(s):
    s = dict(s)
    s.pop("kept", None)
    s["inc"] = [t for t in s["inc"] if t[2] != 0]
    return s


def norm_impl_store(s):
    s = dict(s)
    for k in ("inc_dense", "species_order", "edge_order"):
        s.pop(k, None)
    s["edges"] = [{k: v for k, v in e.items() if k != "eid_field"} for e in s["edges"]]
    return s


def compare(impl_steps, model_steps, last_only=False):
    """-> (index of first diverging step, description) or None."""
    rng = range(len(impl_steps))
    for t in rng:
        a, b = impl_steps[t], model_steps[t]
        if a["out"] != b["out"]:
            return t, f"outcome impl={a['out']!r} model={b['out']!r}"
        if last_only and t != len(impl_steps) - 1:
            continue
        for k, (sa, sb) in enumerate(zip(a["world"], b["world"])):
            na, nb = norm_impl_store(sa), norm_model_store(sb)
            for key in nb:
                if na[key] != nb[key]:
                    return t, f"store {k} field {key}: impl={json.dumps(na[key])[:300]} model={json.dumps(nb[key])[:300]}"
            if sa["inc_dense"] != sa["inc"]:
                return t, f"store {k}: dense incidence matrix differs from sparse mapping"
            if sa["species_order"] != sa["species"] or sa["edge_order"] != [e["id"] for e in sa["edges"]]:
                return t, f"store {k}: incidence orders are not the sorted species / reaction ids"
            for e in sa["edges"]:
                if e["eid_field"] != e["id"]:
                    return t, f"store {k}: reaction stored under {e['id']} carries id {e['eid_field']}"
    return None


# ---------------------------------------------------------------- generators
SIDES_SMALL = [[], [["A", 1]], [["B", 2]], [["A", 1], ["B", 1]], [["C", 1]]]


def alphabet_small():
    ops = []
    for r, p in [(1, 2), (3, 4), (0, 1), (2, 0), (1, 1), (0, 0), (4, 3)]:
        ops.append({"op": "add", "k": 0, "r": SIDES_SMALL[r], "p": SIDES_SMALL[p], "rule": None, "eid": None})
    ops.append({"op": "add", "k": 0, "r": SIDES_SMALL[1], "p": SIDES_SMALL[4], "rule": "R1", "eid": None})
    ops.append({"op": "add", "k": 0, "r": SIDES_SMALL[2], "p": SIDES_SMALL[1], "rule": None, "eid": "r_1"})
    ops.append({"op": "add", "k": 0, "r": SIDES_SMALL[4], "p": SIDES_SMALL[2], "rule": "R1", "eid": "r_2"})
    ops.append({"op": "add", "k": 0, "r": SIDES_SMALL[3], "p": SIDES_SMALL[4], "rule": None, "eid": "R1_1"})
    ops.append({"op": "add", "k": 1, "r": SIDES_SMALL[1], "p": SIDES_SMALL[2], "rule": None, "eid": None})
    ops.append({"op": "add", "k": 1, "r": SIDES_SMALL[4], "p": SIDES_SMALL[1], "rule": "R1", "eid": "r_2"})
    for i in ["r_1", "r_2", "R1_1"]:
        ops.append({"op": "remove", "k": 0, "id": i})
    for sp in "ABC":
        for pr in (True, False):
            ops.append({"op": "removeSpecies", "k": 0, "sp": sp, "prune": pr})
    ops.append({"op": "removeSpecies", "k": 1, "sp": "A", "prune": True})
    ops.append({"op": "merge", "k": 0, "j": 1, "pfx": True})
    ops.append({"op": "merge", "k": 0, "j": 1, "pfx": False})
    ops.append({"op": "merge", "k": 1, "j": 0, "pfx": False})
    ops.append({"op": "copy", "k": 0, "j": 1})
    ops.append({"op": "assignMol", "k": 0, "sp": "A", "m": "mA"})
    ops.append({"op": "setMolMap", "k": 0, "mapping": [["B", "mB"], ["C", "mC"]], "strict": False, "clear": True})
    ops.append({"op": "addFromStr", "k": 0, "reaction": "2A + B >> C | rule=R1", "rule": None, "suffix": True})
    ops.append({"op": "addFromStr", "k": 0, "reaction": "A>>B", "rule": "R1", "suffix": False})
    ops.append({"op": "parseRxns", "k": 0, "items": [["A>>B", None], ["B+C>>A | rule=R1", None]], "default_rule": "r",
                "suffix": True, "prefer_suffix": False, "form": "strings"})
    return ops


def random_ops(rnd, length, nslots=3):
    SP = list("ABCDEF")
    RULES = [None, None, "R1", "r", "", "R2"]
    IDS = ["r_1", "r_2", "r_3", "R1_1", "R1_2", "R2_1", "x", "r_10"]
    ops = []
    for _ in range(length):
        k = rnd.choice([0, 0, 0, 1, 2][:nslots + 2]) % nslots
        c = rnd.random()
        if c < 0.42:
            def side():
                return [[s, rnd.choice([1, 1, 2, 3, 12, 0, -1])] for s in SP if rnd.random() < 0.3]
            ops.append({"op": "add", "k": k, "r": side(), "p": side(), "rule": rnd.choice(RULES),
                        "eid": rnd.choice(IDS) if rnd.random() < 0.3 else None})
        elif c < 0.57:
            ops.append({"op": "remove", "k": k, "id": rnd.choice(IDS)})
        elif c < 0.72:
            ops.append({"op": "removeSpecies", "k": k, "sp": rnd.choice(SP), "prune": rnd.random() < 0.6})
        elif c < 0.82:
            j = rnd.choice([x for x in range(nslots) if x != k])
            ops.append({"op": "merge", "k": k, "j": j, "pfx": rnd.random() < 0.5})
        elif c < 0.90:
            j = rnd.choice([x for x in range(nslots) if x != k])
            ops.append({"op": "copy", "k": k, "j": j})
        elif c < 0.93:
            sp = rnd.choice(SP)
            ops.append({"op": "assignMol", "k": k, "sp": sp, "m": "m" + sp})
        elif c < 0.97:
            kind = rnd.random()
            if kind < 0.45:
                ops.append({"op": "addFromStr", "k": k, "reaction": random_line(rnd, SP), "rule": rnd.choice([None, None, "R1", ""]),
                            "suffix": rnd.random() < 0.7})
            elif kind < 0.85:
                items = [[random_line(rnd, SP), rnd.choice([None, None, "R2", "r"])] for _ in range(rnd.randint(0, 4))]
                ops.append({"op": "parseRxns", "k": k, "items": items, "default_rule": rnd.choice(["r", "D"]),
                            "suffix": rnd.random() < 0.7, "prefer_suffix": rnd.random() < 0.4,
                            "form": rnd.choice(["tuples", "mapping", "strings"])})
            else:
                n = rnd.randint(0, 3)
                lines = [random_line(rnd, SP) for _ in range(n)]
                rules = [rnd.choice([None, "R1", "R2"]) for _ in range(n if rnd.random() < 0.8 else n + 1)]
                ops.append({"op": "parseRxnsRules", "k": k, "lines": lines, "rules": rules, "default_rule": rnd.choice(["r", "D"]),
                            "suffix": rnd.random() < 0.7, "prefer_suffix": rnd.random() < 0.4})
        else:
            mp = [[s, "M" + s] for s in SP if rnd.random() < 0.4]
            ops.append({"op": "setMolMap", "k": k, "mapping": mp, "strict": rnd.random() < 0.5, "clear": rnd.random() < 0.5})
    return ops


def random_line(rnd, SP):
    """A reaction string: mostly well formed (the spellings RXNSide.from_str documents), sometimes malformed."""
    def term():
        sp = rnd.choice(SP)
        c = rnd.choice([1, 1, 1, 2, 3, 10])
        return rnd.choice([sp if c == 1 else f"{c}{sp}", f"{c} {sp}", f"{c}*{sp}", sp])
    def side():
        n = rnd.choice([0, 1, 1, 2, 2, 3])
        if n == 0:
            return rnd.choice(["", "∅", " "])
        return rnd.choice([" + ", "+", " +"]).join(term() for _ in range(n))
    r = rnd.random()
    if r < 0.06:
        return side()                      # missing '>>'  -> ValueError
    if r < 0.09:
        return "*>>" + side()              # empty token list -> IndexError in from_str
    line = side() + rnd.choice([">>", " >> "]) + side()
    if rnd.random() < 0.35:
        line += rnd.choice([" | rule=R1", "| rule=R2", " | rule = R3", " | note=x"])
    return line


def load_regress():
    from ..core import ROOT
    out = []
    d = ROOT / "regress" / "C15"
    if d.exists():
        for f in sorted(d.glob("*.json")):
            out.append(json.loads(f.read_text()))
    return out


def nontrivial(ops, steps):
    # at least two successful edits and at least one stored reaction at some point
    oks = sum(1 for s in steps if s["out"] not in ("KeyError", "ValueError", "IndexError"))
    return oks >= 2 and any(st["edges"] for s in steps for st in s["world"])


def run_cases(ctx, cases, last_only, tag):
    """cases: list of (nslots, ops)."""
    reqs = [{"cmd": "store.run", "n": n, "ops": ops} for n, ops in cases]
    models = ctx.lean().ok(reqs, shards=8)
    for (n, ops), mod in zip(cases, models):
        impl = impl_run(n, ops)
        for s in impl:
            ctx.count("outcome:" + (s["out"] if isinstance(s["out"], str) else "id"))
        for op in ops:
            ctx.count("op:" + op["op"])
        ctx.case([n, ops], nontrivial(ops, impl), sample={"stream": tag, "slots": n, "ops": ops} if len(ops) <= 6 else None)
        d = compare(impl, mod["steps"], last_only)
        if d is None:
            continue
        t, desc = d

        def fails(cand):
            m = ctx.lean().ok([{"cmd": "store.run", "n": n, "ops": cand}])[0]
            return bool(cand) and compare(impl_run(n, cand), m["steps"]) is not None
        small = shrink_seq(ops[:t + 1], fails)
        m = ctx.lean().ok([{"cmd": "store.run", "n": n, "ops": small}])[0]
        d2 = compare(impl_run(n, small), m["steps"])
        ctx.violation("store state or outcome differs from the proven model after a history of edits",
                      {"slots": n, "ops": small}, {"first_divergence": d2[1] if d2 else desc, "stream": tag,
                                                    "original_length": len(ops)})
        if len(ctx.violations) >= 5:
            return


def run(ctx):
    ctx.trusted = [
        "Lean 4.33 kernel; axioms of the property theorems as listed in obligation_list",
        "hand-written model SynKitModel/Store.lean tied to /repo by this correspondence run (not by translation)",
        "Driver/Store.lean JSON codec and harness/props/c15.py adapter + canonicalisation (sorting of sets/dicts)",
        "modelled: add_rxn (mapping inputs), add_rxn_from_str, parse_rxns (all input forms), remove_rxn, remove_species, merge, copy, "
        "assign_mol, set_mol_map, incidence_matrix; not modelled: paths/neighbors",
    ]
    ctx.assumptions = ["species labels, rules and ids are plain strings; side inputs are mappings (dict) as in add_rxn's documented use"]
    ctx.gen_rule = ("regression corpus first; then ALL op sequences of a 37-op alphabet over 3 species / 2 rules / 2 stores "
                    "(incl. explicit ids that look generated, merge both ways, copy) to depth 2 (quick) or 3 (thorough), compared on "
                    "outcome of every op and on the final state; then random histories (<=60 ops, 6 species, 3 stores, coefficients "
                    "incl. 0, negative and multi-digit) compared after every op.")
    ctx.nontrivial_rule = "history distinct as a JSON value, with >=2 successful edits and a non-empty store at some point"
    build_and_audit(ctx, ["SynKitProofs.Props.C15"], "SynKitProofs/Audit/C15.lean", THEOREMS)

    reg = [(c["slots"], c["ops"]) for c in load_regress()]
    run_cases(ctx, reg, False, "regress")
    ctx.count("regress_cases", len(reg))

    alpha = alphabet_small()
    depth = 2 if ctx.quick else 3
    cases = []
    for d in range(1, depth + 1):
        for seq in itertools.product(alpha, repeat=d):
            cases.append((2, list(seq)))
    if ctx.quick:
        # plus a seeded sample of depth-3 sequences
        for _ in range(8000):
            cases.append((2, [ctx.rnd.choice(alpha) for _ in range(ctx.rnd.choice([3, 4, 5]))]))
    else:
        for _ in range(20000):
            cases.append((2, [ctx.rnd.choice(alpha) for _ in range(4)]))
    if not ctx.violations:
        run_cases(ctx, cases, True, "exhaustive-small")
    ctx.extra["exhaustive"] = False
    ctx.extra["exhaustive_part"] = f"all {len(alpha)}^d sequences for d<={depth}"
    nrand = 300 if ctx.quick else 2000
    rcases = [(3, random_ops(ctx.rnd, ctx.rnd.randint(5, 60))) for _ in range(nrand)]
    if not ctx.violations:
        run_cases(ctx, rcases, False, "random")
    ctx.obligation("correspondence: store histories impl == model (outcomes, states, indices, incidence)", not ctx.violations)


def replay(ctx, case):
    c = case["case"]
    run_cases(ctx, [(c["slots"], c["ops"])], False, "replay")

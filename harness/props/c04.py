"""C04 — applying a reaction's own template regenerates it, forwards and backwards.

Implementation-level gate (the detector): for every corpus reaction inside the precondition
(parsable, every atom mapped, balanced in elements/hydrogens/charge, centre hydrogens written
consistently: all explicit -> reactor defaults, none explicit -> implicit_temp=True,
explicit_h=False; mixed reactions skipped and counted), for template in {reaction centre,
full ITS}, strategy in {all, comp, bt}, forward from the unmapped reactants and backward from the
unmapped products:

    Standardize.fit(rsmi)  in  { Standardize.fit(s) | s in SynReactor(...).smarts_list }

and the same for atom-map renumberings and SMILES rewritings of the reaction.  A miss is a
violation of C04 by definition; it is classified from the input alone:

  rc_template_incomplete  template = centre AND some atom changes charge / hydrogen count without
                          being an end of a changed bond (F10, known);
  pattern_atom_mixed_H    reactor in explicit-H mode AND, in the direction applied, a pattern atom
                          keeps an explicit hydrogen neighbour while another of its hydrogens is
                          folded into its count (F20, known).

Not gated (recorded in the evidence as `comp_strict_cc_guard_not_gated`): strategy `comp` on a substrate
that has more connected components than the prepared pattern — the documented guard of the
component-aware search (`strict_cc_count`, "host CC count must <= pattern CC count", DESIGN 5/C06
note) returns no match by design; decided from the arguments of the search call (component counts)
together with "the search returned nothing".  The same case is gated under `all` and `bt`.

Engine-level part (Lean, Props/C04.lean): the inclusion of a sub-pattern (subset of nodes and
edges, hydrogen counts only lowered) is a label-preserving monomorphism, hence enumerated by
`allMonos`; with an abstract glue step that rebuilds the reaction from the identity match, and a
pruning step that keeps an equivalent match, the reaction is among the results.  The hypothesis
`SubPattern host pattern` of that theorem is evaluated by the Lean driver (`rinv.subpattern`,
`rinv.id_in_monos`) on the graphs the implementation really builds (mapped reactant graph,
`SynRule.left` after pattern preparation).
"""
import json

from ..core import ROOT, build_and_audit
from .. import reactor_inv_common as C

THEOREMS = [
    "SynKit.ReactorInv.id_isMono",
    "SynKit.ReactorInv.id_mem_allMonos",
    "SynKit.ReactorInv.subPattern_of_subPatternOf",
    "SynKit.ReactorInv.id_mem_allMonos_subPatternOf",
    "SynKit.ReactorInv.subPatternB_iff",
    "SynKit.ReactorInv.own_template_regenerates_partial",
    "SynKit.ReactorInv.own_template_regenerates_all_partial",
    "SynKit.ReactorInv.own_template_backward_partial",
    "SynKit.ReactorLink.glue_own_template_partial",
    "SynKit.ReactorInv.C04.glueRebuilds_concrete_partial",
    "SynKit.ReactorInv.C04.own_template_regenerates_concrete_partial",
    "SynKit.ReactorInv.C04.ownTemplate_full_its",
    "SynKit.ReactorInv.C04.ownTemplate_centre",
    "SynKit.ReactorInv.C04.rcComplete_full_its",
    "SynKit.ReactorInv.C04.rcComplete_centre",
    "SynKit.ReactorInv.C04.exists_match_of_ownTemplate",
    "SynKit.ReactorInv.C04.own_template_regenerates_full_its",
    "SynKit.ReactorInv.C04.own_template_regenerates_centre",
    "SynKit.ReactorInv.concrete_results_backward",
    "SynKit.ReactorInv.C04.own_template_regenerates_concrete_strategy",
    "SynKit.ReactorInv.C04.id_mem_search_all",
    "SynKit.ReactorInv.C04.ownTemplate_backward",
    "SynKit.ReactorInv.C04.backward_pattern",
    "SynKit.ReactorInv.C04.own_template_regenerates_both_directions",
    "SynKit.ReactorInv.C04.own_template_regenerates_full_its_results",
    "SynKit.ReactorInv.C04.own_template_regenerates_centre_results",
    "SynKit.ReactorInv.C04.id_mem_search_comp",
    "SynKit.ReactorInv.C04.id_mem_search_bt",
    "SynKit.ReactorInv.C04.own_template_regenerates_comp_bt",
    "SynKit.ReactorInv.C04.own_template_regenerates_full_its_comp_bt",
    "SynKit.ReactorInv.C04.own_template_regenerates_core",
    "SynKit.ReactorInv.C04.exists_match_core",
    "SynKit.ReactorInv.C04.own_template_regenerates_both_directions_core",
    "SynKit.ReactorInv.C04.own_template_regenerates_full_its_core",
    "SynKit.ReactorInv.C04.own_template_regenerates_full_its_results_core",
    "SynKit.ReactorInv.C04.own_template_regenerates_centre_results_core",
]


def precondition(info):
    """-> None when inside C04's precondition, else the reason it is skipped."""
    if not info["ok"]:
        return "ill-formed:" + info["why"].split(":")[0]
    if not info["balanced"]:
        return "unbalanced"
    if info["mode"] == "mixed":
        return "mixed explicit/implicit centre hydrogens"
    return None


def classes_of(rsmi, info, core, invert):
    cl = []
    if core and info["rc_incomplete"]:
        cl.append("rc_template_incomplete")
    if info["mode"] == "explicit" and C.pattern_atom_mixed_h(rsmi, core, invert):
        cl.append("pattern_atom_mixed_H")
    return cl


def variant_of(rsmi, variant):
    kind, seed = variant["kind"], variant.get("seed", 0)
    if kind == "identity":
        return rsmi
    if kind == "renumber":
        return C.renumber_reaction(rsmi, seed)
    if kind == "rewrite":
        return C.rewrite_reaction(rsmi, seed)
    if kind == "both":
        return C.rewrite_reaction(C.renumber_reaction(rsmi, seed), seed + 17)
    raise ValueError(kind)


def make_tasks(items, timeout, tag):
    """items: list of {rid, reaction, variant}; -> (tasks, meta) one task per (item, template, direction)."""
    tasks, meta = [], []
    for n, it in enumerate(items):
        try:
            rs = variant_of(it["reaction"], it["variant"])
        except C.RewriteFailed:
            meta.append(None)
            continue
        info = C.analyze_reaction(rs)
        why = precondition(info)
        if why is not None:
            # a rewriting of a well-formed reaction must be well-formed: harness self-check
            meta.append(("rewriting left the precondition: " + why, it, rs))
            continue
        for core in it.get("templates", (True, False)):
            for invert in it.get("directions", (False, True)):
                tasks.append({"key": f"{tag}{n}|{int(core)}|{int(invert)}", "own_side": 1 if invert else 0, "template": rs,
                              "core": core, "invert": invert, "mode": info["mode"], "strategies": list(it.get("strategies", C.STRATEGIES)),
                              "timeout": timeout})
                meta.append({"item": it, "rsmi": rs, "info": info, "core": core, "invert": invert})
    return tasks, [m for m in meta if isinstance(m, dict)], [m for m in meta if isinstance(m, tuple)]


def run_items(ctx, pool, items, timeout, tag):
    tasks, meta, selfcheck = make_tasks(items, timeout, tag)
    for why, it, rs in selfcheck:
        ctx.count("harness_selfcheck_failed")
        ctx.violation("harness self-check: " + why, {"reaction": it["reaction"], "variant": it["variant"]}, {"rewritten": rs}, no_input=True)
    results = pool.run(tasks)
    for t, m, r in zip(tasks, meta, results):
        it, info = m["item"], m["info"]
        m["target"] = r.get("target")
        t = dict(t, substrate=r.get("substrate"))
        label = f"{'centre' if m['core'] else 'its'}/{'bw' if m['invert'] else 'fw'}"
        ctx.count("run_status:" + r["status"].split(":")[0])
        if r["status"] == "timeout":
            ctx.count("skipped_timeout:" + label)
            continue
        if r["status"].startswith("skip"):
            ctx.count("skipped:" + r["status"][5:])
            continue
        cls = classes_of(m["rsmi"], info, m["core"], m["invert"])
        case_base = {"reaction": it["reaction"], "variant": it["variant"], "core": m["core"], "invert": m["invert"]}
        if r["status"] != "ok":
            # the implementation raised: no reaction returned at all -> the own reaction is not regenerated
            ctx.count("impl_exception:" + r["status"][6:])
            ctx.case(dict(case_base, strategy="*"), True)
            ctx.violation("own template does not regenerate the reaction (rule application raised " + r["status"][6:] + ")",
                          dict(case_base, strategy="all"), {"rid": it.get("rid"), "error": r.get("error"), "substrate": t["substrate"],
                                                            "rewritten_reaction": m["rsmi"], "mode": info["mode"]}, classes=cls)
            continue
        for strat, runs in r["runs"].items():
            run = runs[0]
            hit = m["target"] in run["results"]
            if (strat == "comp" and not hit and run["host_cc"] is not None and run["host_cc"] > run["pattern_cc"]
                    and run["n_raw"] == 0):
                # documented guard of the component-aware search (strict_cc_count: "host CC count must <= pattern CC
                # count", DESIGN 5/C06 note): a substrate with a spectator component is outside what `comp` searches.
                # Recorded, not gated; the same case is gated under `all` and `bt`.
                ctx.count(f"comp_strict_cc_guard_not_gated:{label}")
                continue
            ctx.count(f"{label}/{info['mode']}:" + ("regenerated" if hit else "MISS"))
            ctx.count("variant:" + it["variant"]["kind"])
            ctx.case(dict(case_base, strategy=strat), nontrivial=run["n_raw"] is not None and run["n_raw"] >= 1,
                     sample={"stream": tag, "rid": it.get("rid"), "template": label, "strategy": strat, "mode": info["mode"],
                             "raw_matches": run["n_raw"], "kept": run["n_map"], "results": len(run["results"]), "regenerated": hit})
            if run["n_raw"] and run["n_map"] < run["n_raw"]:
                ctx.count("runs_where_pruning_removed_matches")
            if hit:
                continue
            for c in cls:
                ctx.count("miss_class:" + c)
            ctx.violation(
                "own template does not regenerate the reaction",
                dict(case_base, strategy=strat),
                {"rid": it.get("rid"), "template": label, "mode": info["mode"], "substrate": t["substrate"], "expected": m["target"],
                 "rewritten_reaction": m["rsmi"], "raw_matches": run["n_raw"], "kept_matches": run["n_map"],
                 "n_results": len(run["results"]), "results": run["results"][:5],
                 "rc_incomplete": info["rc_incomplete"]},
                classes=cls)


def load_regress():
    d = ROOT / "regress" / "C04"
    out = []
    if d.exists():
        for f in sorted(d.glob("*.json")):
            c = json.loads(f.read_text())
            c = c.get("case", c)
            out.append(item_of_case(c, "regress:" + f.stem))
    return out


def item_of_case(c, rid):
    it = {"rid": rid, "reaction": c["reaction"], "variant": c.get("variant", {"kind": "identity"})}
    if "core" in c:
        it["templates"] = (c["core"],)
    if "invert" in c:
        it["directions"] = (c["invert"],)
    if c.get("strategy") in C.STRATEGIES:
        it["strategies"] = (c["strategy"],)
    return it


def run(ctx):
    ctx.trusted = [
        "Lean 4.33 kernel; axioms of the property theorems as listed in obligation_list",
        "RDKit: SMILES parsing/sanitisation, canonical SMILES (what Standardize.fit compares), random SMILES writer",
        "the glue step and the pruning step are abstract parameters of the Lean statement (hypotheses GlueRebuilds / PruneKeeps; "
        "C03's model and C11 discharge them); at implementation level they are the real SynReactor",
        "precondition, classes rc_template_incomplete / pattern_atom_mixed_H: computed from RDKit atom/bond tables of the input (harness/reactor_inv_common.py)",
    ]
    ctx.assumptions = [
        "templates are built by rsmi_to_its(rsmi, core=...) from the mapped reaction; substrates are the unmapped sides of Standardize.fit(rsmi)",
        "reactor mode fixed by DESIGN 5a: centre hydrogens explicit -> defaults; none explicit -> implicit_temp=True, explicit_h=False",
        "balanced = same atom maps and elements on both sides, equal total hydrogen count and total charge",
    ]
    quick = ctx.quick
    timeout = 8.0 if quick else 90.0
    corpus = C.load_corpus()
    infos = {rid: C.analyze_reaction(rs) for rid, rs in corpus}
    inside = []
    for rid, rs in corpus:
        why = precondition(infos[rid])
        ctx.count("corpus:" + ("inside precondition" if why is None else "skipped " + why))
        if why is None:
            inside.append((rid, rs))
    if quick:
        # fast seeded sub-population: reactions with <= 40 atoms (decided from the input), 70 of them drawn by ctx.rnd
        small = [(rid, rs) for rid, rs in inside if infos[rid]["n_atoms"] <= 40]
        chosen = ctx.rnd.sample(small, min(70, len(small)))
        # the hand-written ring rearrangements (an unchanged bond between two centre atoms of one centre
        # component: only a monomorphic, not an induced, match regenerates them) always take part
        chosen += [x for x in small if x[0].startswith("ring:") and x not in chosen]
        kinds = ["identity", "renumber", "rewrite"]
    else:
        chosen = inside
        kinds = ["identity", "renumber", "renumber", "rewrite", "both"]
    ctx.gen_rule = (
        "regress/C04 first; then corpus/c04_reactions.txt (ecoli 274, USPTO 100, hydro 50, 6 hand-written small-ring rearrangements; vendored) restricted to the precondition "
        f"({len(inside)} reactions); {'a ctx.rnd sample of 70 with <=40 atoms' if quick else 'all of them'} x variants {kinds} "
        "(random atom-map permutation; random SMILES atom order + fragment shuffle) x template {centre, full ITS} x {forward, backward} "
        f"x strategy {{all, comp, bt}}; per-run time-out {timeout}s (skipped, counted, never reported).")
    ctx.nontrivial_rule = "distinct (reaction, variant, template, direction, strategy) where the search returned >=1 raw match"
    build_and_audit(ctx, ["SynKitProofs.Props.C04"], "SynKitProofs/Audit/C04.lean", THEOREMS)

    items = []
    for rid, rs in chosen:
        for kind in kinds:
            items.append({"rid": rid, "reaction": rs, "variant": {"kind": kind, "seed": ctx.rnd.randrange(1, 2**30)}})
    pool = C.Pool()
    try:
        reg = load_regress()
        run_items(ctx, pool, reg, max(timeout, 60.0), "r")
        ctx.count("regress_cases", len(reg))
        run_items(ctx, pool, items, timeout, "c")
        subpattern_stream(ctx, pool, chosen, infos, 25 if quick else 120)
    finally:
        pool.close()
    unknown = [v for v in ctx.violations if not v["classes"]]
    ctx.obligation("correspondence: own template regenerates the reaction (misses outside the known classes F10/F20: none)", not unknown)


def subpattern_stream(ctx, pool, chosen, infos, n):
    """Ties step 1 of `own_template_regenerates_partial` to the implementation: the hypothesis
    `SubPattern sel G P` is evaluated by the Lean driver on the graphs the reactor really searches
    (G = own substrate side drawn on the atom-map numbers, P = prepared pattern handed to the search),
    the identity must be enumerated by the proven `allMonos`, and the implementation's raw match set
    must be exactly `allMonos` (so it contains the identity as well)."""
    small = sorted((x for x in chosen if infos[x[0]]["n_atoms"] <= 45), key=lambda x: x[0])
    picked = small if len(small) <= n else ctx.rnd.sample(small, n)
    tasks = []
    for rid, rs in picked:
        for core in (True, False):
            for invert in (False, True):
                tasks.append({"key": f"{rid}|{int(core)}|{int(invert)}", "template": rs, "core": core, "invert": invert,
                              "mode": infos[rid]["mode"], "host": "own", "relabel": False, "timeout": 20.0})
    results = pool.run(tasks, C.graph_task)
    sel = {"node_keys": C.MATCH_NODE_KEYS, "edge_keys": C.MATCH_EDGE_KEYS}
    reqs, owners = [], []
    for t, r in zip(tasks, results):
        ctx.count("subpattern_stream_status:" + r["status"].split(":")[0])
        if r["status"] != "ok":
            continue
        A = r["A"]
        if A["pattern_nodes"] > 45 or len(A["raw"]) > 400:
            ctx.count("subpattern_stream_skipped_large")
            continue
        reqs += [dict(cmd="rinv.subpattern", host=A["host"], pattern=A["pattern"], **sel),
                 dict(cmd="rinv.id_in_monos", host=A["host"], pattern=A["pattern"], **sel),
                 dict(cmd="match.monos", host=A["host"], pattern=A["pattern"], **sel)]
        owners.append((t, A))
    answers = ctx.lean().ok(reqs, shards=8)
    bad = 0
    for i, (t, A) in enumerate(owners):
        sub, idin, monos = answers[3 * i: 3 * i + 3]
        ident = sorted([nid, nid] for nid, _ in A["pattern"]["nodes"])
        case = {"reaction": t["template"], "variant": {"kind": "identity"}, "core": t["core"], "invert": t["invert"], "strategy": "all"}
        ctx.count("subpattern_stream_cases")
        ctx.case(dict(case, stream="subpattern"), nontrivial=len(A["raw"]) >= 1)
        cls = classes_of(t["template"], infos[t["key"].split("|")[0]], t["core"], t["invert"])
        if not sub:
            bad += 1
            ctx.violation("the prepared pattern of the own template is not a sub-pattern of the own substrate (identity is no match)",
                          case, {"host": A["host"], "pattern": A["pattern"]}, classes=cls)
        if sub != idin:
            bad += 1
            ctx.violation("Lean: subPatternB and membership of the identity in allMonos disagree (theorem id_mem_allMonos instance)",
                          case, {"subpattern": sub, "id_in_monos": idin}, no_input=True)
        if monos != A["raw"]:
            bad += 1
            spec_broken = (ident in monos) != (ident in A["raw"])
            ctx.violation("raw match set of the implementation differs from the proven enumerator allMonos on the own template",
                          case, {"impl_only": [m for m in A["raw"] if m not in monos][:3], "model_only": [m for m in monos if m not in A["raw"]][:3],
                                 "identity_affected": spec_broken}, no_input=not spec_broken)
    ctx.obligation("hypothesis SubPattern of own_template_regenerates_partial holds on the implementation's own graphs; "
                   "identity enumerated; raw matches == allMonos", bad == 0)


def replay(ctx, case):
    pool = C.Pool(4)
    try:
        c = case.get("case", case)
        run_items(ctx, pool, [item_of_case(c, "replay")], 300.0, "p")
        try:
            rs = variant_of(c["reaction"], c.get("variant", {"kind": "identity"}))
            info = C.analyze_reaction(rs)
            if precondition(info) is None:
                subpattern_stream(ctx, pool, [("replay", rs)], {"replay": info}, 1)
        except C.RewriteFailed:
            pass
    finally:
        pool.close()

"""C04 — applying a reaction's own template regenerates it, forwards and backwards.

Implementation-level gate (the detector): for every corpus reaction inside the precondition
(parsable, every atom mapped, balanced in elements/hydrogens/charge, centre hydrogens written
consistently: all explicit -> reactor defaults, none explicit -> implicit_temp=True,
explicit_h=False; mixed reactions skipped and counted), for template in {reaction centre,
full ITS}, strategy in {all, comp, bt}, forward from the unmapped reactants and backward from the
unmapped products:

    Standardize.fit(rsmi)  in  { Standardize.fit(s) | s in SynReactor(...).smarts_list }

and the same for atom-map renumberings and SMILES rewritings of the reaction.  A miss is a
violation of C04 by definition; it is classified from the input alone:

  rc_template_incomplete  template = centre AND some atom changes charge / hydrogen count without
                          being an end of a changed bond (F10, known);
  pattern_atom_mixed_H    reactor in explicit-H mode AND, in the direction applied, a pattern atom
                          keeps an explicit hydrogen neighbour while another of its hydrogens is
                          folded into its count (F20, known).

Not gated (recorded in the evidence as `comp_strict_cc_guard_not_gated`): strategy `comp` on a substrate
that has more connected components than the prepared pattern — the documented guard of the
component-aware search (`strict_cc_count`, "host CC count must <= pattern CC count", DESIGN 5/C06
note) returns no match by design; decided from the arguments of the search call (component counts)
together with "the search returned nothing".  The same case is gated under `all` and `bt`.

Engine-level part (Lean, Props/C04.lean): the inclusion of a sub-pattern (subset of nodes and
edges, hydrogen counts only lowered) is a label-preserving monomorphism, hence enumerated by
`allMonos`; with an abstract glue step that rebuilds the reaction from the identity match, and a
pruning step that keeps an equivalent match, the reaction is among the results.  The hypothesis
`SubPattern host pattern` of that theorem is evaluated by the Lean driver (`rinv.subpattern`,
`rinv.id_in_monos`) on the graphs the implementation really builds (mapped reactant graph,
`SynRule.left` after pattern preparation).

Streams added for anchor coverage (every documented way of handing the reactor the same template and
the same substrate must regenerate the reaction as well; the expected answer is the property's own
predicate, never an output of the code):

  entry      template as nx.Graph / nx.Graph with shuffled insertion order / `SynRule` object /
             `SynRule.from_smart` / reaction string; substrate as SMILES / nx.Graph / nx.Graph with
             foreign node ids in shuffled order / `SynGraph`; constructor `SynReactor(...)` or
             `SynReactor.from_smiles(...)`; strategy as str / `Strategy` member.
             Class `synrule_invert_folded_H` (decided from the input): template handed over as a
             `SynRule`, invert=True, explicit-H mode, and the rule folds some hydrogen into a count.
  options    `embed_pre_filter` / `embed_threshold` (documented guards that may empty the search):
             every search call the reactor issues is re-run by the Lean model of the search
             (`c06.search`, same host, pattern, strategy, threshold, pre-filter); where the model says
             no guard cut any call the reaction must be regenerated, where a guard fired the run is
             counted and not gated; the raw match set of every call must equal the model's.
  tiny       hand-written degenerate reactions: nothing changes (empty reaction centre, empty
             pattern), single atoms, ions, H2, two-atom reactions.
"""
import json

from ..core import ROOT, build_and_audit
from .. import reactor_inv_common as C

THEOREMS = [
    "SynKit.ReactorInv.id_isMono",
    "SynKit.ReactorInv.id_mem_allMonos",
    "SynKit.ReactorInv.subPattern_of_subPatternOf",
    "SynKit.ReactorInv.id_mem_allMonos_subPatternOf",
    "SynKit.ReactorInv.subPatternB_iff",
    "SynKit.ReactorInv.own_template_regenerates_partial",
    "SynKit.ReactorInv.own_template_regenerates_all_partial",
    "SynKit.ReactorInv.own_template_backward_partial",
    "SynKit.ReactorLink.glue_own_template_partial",
    "SynKit.ReactorInv.C04.glueRebuilds_concrete_partial",
    "SynKit.ReactorInv.C04.own_template_regenerates_concrete_partial",
    "SynKit.ReactorInv.C04.ownTemplate_full_its",
    "SynKit.ReactorInv.C04.ownTemplate_centre",
    "SynKit.ReactorInv.C04.rcComplete_full_its",
    "SynKit.ReactorInv.C04.rcComplete_centre",
    "SynKit.ReactorInv.C04.exists_match_of_ownTemplate",
    "SynKit.ReactorInv.C04.own_template_regenerates_full_its",
    "SynKit.ReactorInv.C04.own_template_regenerates_centre",
    "SynKit.ReactorInv.concrete_results_backward",
    "SynKit.ReactorInv.C04.own_template_regenerates_concrete_strategy",
    "SynKit.ReactorInv.C04.id_mem_search_all",
    "SynKit.ReactorInv.C04.ownTemplate_backward",
    "SynKit.ReactorInv.C04.backward_pattern",
    "SynKit.ReactorInv.C04.own_template_regenerates_both_directions",
    "SynKit.ReactorInv.C04.own_template_regenerates_full_its_results",
    "SynKit.ReactorInv.C04.own_template_regenerates_centre_results",
    "SynKit.ReactorInv.C04.id_mem_search_comp",
    "SynKit.ReactorInv.C04.id_mem_search_bt",
    "SynKit.ReactorInv.C04.own_template_regenerates_comp_bt",
    "SynKit.ReactorInv.C04.own_template_regenerates_full_its_comp_bt",
    "SynKit.ReactorInv.C04.own_template_regenerates_core",
    "SynKit.ReactorInv.C04.exists_match_core",
    "SynKit.ReactorInv.C04.own_template_regenerates_both_directions_core",
    "SynKit.ReactorInv.C04.own_template_regenerates_full_its_core",
    "SynKit.ReactorInv.C04.own_template_regenerates_full_its_results_core",
    "SynKit.ReactorInv.C04.own_template_regenerates_centre_results_core",
]


def _warm():
    """Import the implementation OUTSIDE any per-case timer.  An alarm that interrupts the first import of a C
    extension leaves the worker unable to import it again ('cannot load module more than once per process');
    on a loaded machine that turned every later case of the worker into an ImportError."""
    import rdkit.Chem  # noqa: F401
    import synkit.Synthesis.Reactor.syn_reactor  # noqa: F401
    import synkit.Chem.Reaction.standardize  # noqa: F401
    import synkit.IO.chem_converter  # noqa: F401
    import synkit.Rule  # noqa: F401
    import synkit.Graph.syn_graph  # noqa: F401


def apply_task_warm(task):
    _warm()
    return C.apply_task(task)


def graph_task_warm(task):
    _warm()
    return C.graph_task(task)


def precondition(info):
    """-> None when inside C04's precondition, else the reason it is skipped."""
    if not info["ok"]:
        return "ill-formed:" + info["why"].split(":")[0]
    if not info["balanced"]:
        return "unbalanced"
    if info["mode"] == "mixed":
        return "mixed explicit/implicit centre hydrogens"
    return None


def classes_of(rsmi, info, core, invert):
    cl = []
    if core and info["rc_incomplete"]:
        cl.append("rc_template_incomplete")
    if info["mode"] == "explicit" and C.pattern_atom_mixed_h(rsmi, core, invert):
        cl.append("pattern_atom_mixed_H")
    return cl


def variant_of(rsmi, variant):
    kind, seed = variant["kind"], variant.get("seed", 0)
    if kind == "identity":
        return rsmi
    if kind == "renumber":
        return C.renumber_reaction(rsmi, seed)
    if kind == "rewrite":
        return C.rewrite_reaction(rsmi, seed)
    if kind == "both":
        return C.rewrite_reaction(C.renumber_reaction(rsmi, seed), seed + 17)
    raise ValueError(kind)


def make_tasks(items, timeout, tag):
    """items: list of {rid, reaction, variant}; -> (tasks, meta) one task per (item, template, direction)."""
    tasks, meta = [], []
    for n, it in enumerate(items):
        try:
            rs = variant_of(it["reaction"], it["variant"])
        except C.RewriteFailed:
            meta.append(None)
            continue
        info = C.analyze_reaction(rs)
        why = precondition(info)
        if why is not None:
            # a rewriting of a well-formed reaction must be well-formed: harness self-check
            meta.append(("rewriting left the precondition: " + why, it, rs))
            continue
        for core in it.get("templates", (True, False)):
            for invert in it.get("directions", (False, True)):
                tasks.append({"key": f"{tag}{n}|{int(core)}|{int(invert)}", "own_side": 1 if invert else 0, "template": rs,
                              "core": core, "invert": invert, "mode": info["mode"], "strategies": list(it.get("strategies", C.STRATEGIES)),
                              "timeout": timeout})
                meta.append({"item": it, "rsmi": rs, "info": info, "core": core, "invert": invert})
    return tasks, [m for m in meta if isinstance(m, dict)], [m for m in meta if isinstance(m, tuple)]


def run_items(ctx, pool, items, timeout, tag):
    tasks, meta, selfcheck = make_tasks(items, timeout, tag)
    for why, it, rs in selfcheck:
        ctx.count("harness_selfcheck_failed")
        ctx.violation("harness self-check: " + why, {"reaction": it["reaction"], "variant": it["variant"]}, {"rewritten": rs}, no_input=True)
    results = pool.run(tasks, apply_task_warm)
    for t, m, r in zip(tasks, meta, results):
        it, info = m["item"], m["info"]
        m["target"] = r.get("target")
        t = dict(t, substrate=r.get("substrate"))
        label = f"{'centre' if m['core'] else 'its'}/{'bw' if m['invert'] else 'fw'}"
        ctx.count("run_status:" + r["status"].split(":")[0])
        if r["status"] == "timeout":
            ctx.count("skipped_timeout:" + label)
            continue
        if r["status"].startswith("skip"):
            ctx.count("skipped:" + r["status"][5:])
            continue
        cls = classes_of(m["rsmi"], info, m["core"], m["invert"])
        case_base = {"reaction": it["reaction"], "variant": it["variant"], "core": m["core"], "invert": m["invert"]}
        if r["status"] != "ok":
            # the implementation raised: no reaction returned at all -> the own reaction is not regenerated
            ctx.count("impl_exception:" + r["status"][6:])
            ctx.case(dict(case_base, strategy="*"), True)
            ctx.violation("own template does not regenerate the reaction (rule application raised " + r["status"][6:] + ")",
                          dict(case_base, strategy="all"), {"rid": it.get("rid"), "error": r.get("error"), "substrate": t["substrate"],
                                                            "rewritten_reaction": m["rsmi"], "mode": info["mode"]}, classes=cls)
            continue
        for strat, runs in r["runs"].items():
            run = runs[0]
            hit = m["target"] in run["results"]
            if (strat == "comp" and not hit and run["host_cc"] is not None and run["host_cc"] > run["pattern_cc"]
                    and run["n_raw"] == 0):
                # documented guard of the component-aware search (strict_cc_count: "host CC count must <= pattern CC
                # count", DESIGN 5/C06 note): a substrate with a spectator component is outside what `comp` searches.
                # Recorded, not gated; the same case is gated under `all` and `bt`.
                ctx.count(f"comp_strict_cc_guard_not_gated:{label}")
                continue
            ctx.count(f"{label}/{info['mode']}:" + ("regenerated" if hit else "MISS"))
            ctx.count("variant:" + it["variant"]["kind"])
            ctx.case(dict(case_base, strategy=strat), nontrivial=run["n_raw"] is not None and run["n_raw"] >= 1,
                     sample={"stream": tag, "rid": it.get("rid"), "template": label, "strategy": strat, "mode": info["mode"],
                             "raw_matches": run["n_raw"], "kept": run["n_map"], "results": len(run["results"]), "regenerated": hit})
            if run["n_raw"] and run["n_map"] < run["n_raw"]:
                ctx.count("runs_where_pruning_removed_matches")
            if hit:
                continue
            for c in cls:
                ctx.count("miss_class:" + c)
            ctx.violation(
                "own template does not regenerate the reaction",
                dict(case_base, strategy=strat),
                {"rid": it.get("rid"), "template": label, "mode": info["mode"], "substrate": t["substrate"], "expected": m["target"],
                 "rewritten_reaction": m["rsmi"], "raw_matches": run["n_raw"], "kept_matches": run["n_map"],
                 "n_results": len(run["results"]), "results": run["results"][:5],
                 "rc_incomplete": info["rc_incomplete"]},
                classes=cls)


# ----------------------------------------------------------------------------- entry points / options / tiny reactions
TEMPLATE_FORMS = ("graph", "graph_shuffled", "synrule", "from_smart", "str")   # the last two: full ITS only
SUBSTRATE_FORMS = ("smiles", "nx", "nx_shuffled", "syngraph")
STRATEGY_FORMS = ("str", "enum")           # the two documented ways of naming a strategy
OPTION_THRESHOLDS = (None, None, 0, 1, 3, 50, 5000, 10 ** 6)
MAX_OPTION_CALLS = 5          # search calls per run handed to the Lean model (first call + explicit-H re-matches)
MAX_MODEL_MATCHES = 300       # a call with more raw matches (without options) is not sent to the model

# hand-written degenerate reactions, all inside the precondition (checked by make_tasks' self-check)
TINY = [
    ("tiny:nochange-2atom", "[CH3:1][OH:2]>>[CH3:1][OH:2]"),
    ("tiny:nochange-1atom", "[OH2:1]>>[OH2:1]"),
    ("tiny:nochange-noble", "[He:1]>>[He:1]"),
    ("tiny:nochange-2frag", "[CH3:1][OH:2].[OH2:3]>>[CH3:1][OH:2].[OH2:3]"),
    ("tiny:nochange-ions", "[Na+:1].[Cl-:2]>>[Na+:1].[Cl-:2]"),
    ("tiny:nochange-H2", "[H:1][H:2]>>[H:1][H:2]"),
    ("tiny:nochange-H2-spectator", "[H:1][H:2].[OH2:3]>>[H:1][H:2].[OH2:3]"),
    ("tiny:swap-maps", "[Cl:1][Cl:2]>>[Cl:2][Cl:1]"),
    ("tiny:ionise", "[Na:1][Cl:2]>>[Na+:1].[Cl-:2]"),
    ("tiny:proton-explicit", "[H+:1].[OH-:2]>>[H:1][OH:2]"),
    ("tiny:proton-transfer-explicit", "[H:1][Cl:2].[NH3:3]>>[H:1][NH3+:3].[Cl-:2]"),
    ("tiny:h2-addition-explicit", "[CH2:1]=[CH2:2].[H:3][H:4]>>[H:3][CH2:1][CH2:2][H:4]"),
    ("tiny:substitution-explicit", "[CH3:1][Br:2].[H:3][NH2:4]>>[CH3:1][NH2:4].[H:3][Br:2]"),
]


def folded_h(rsmi, core):
    """Decided from the template alone (RDKit tables): SynRule (implicit_h=True) folds some explicit
    hydrogen of the template into its neighbour's count, i.e. a hydrogen atom has a heavy neighbour on
    BOTH sides of the rule (`core`: only changed bonds belong to the template)."""
    C._quiet()
    rs, ps = rsmi.split(">>")
    ra, rb, _, _ = C._side_table(rs)
    pa, pb, _, _ = C._side_table(ps)
    if core:
        changed = {e for e in set(rb) | set(pb) if rb.get(e, 0) != pb.get(e, 0)}
        rb = {e: o for e, o in rb.items() if e in changed}
        pb = {e: o for e, o in pb.items() if e in changed}
    el = {m: a[0] for m, a in ra.items()}

    def heavy_nbr(bonds, h):
        return any(el[v if u == h else u] != "H" for (u, v) in bonds if h in (u, v))

    return any(el[h] == "H" and heavy_nbr(rb, h) and heavy_nbr(pb, h) for h in el)


def entry_classes(rsmi, info, core, invert, entry):
    cl = classes_of(rsmi, info, core, invert)
    if (entry and entry.get("template") in ("synrule", "from_smart") and invert and info["mode"] == "explicit"
            and folded_h(rsmi, core)):
        # SynReactor._wrap_template inverts `tpl.rc.raw` (hydrogens already folded) and wraps it in a second
        # SynRule, whose hydrogen stripping starts again from hcount = 0: the hydrogen change of the rule is lost
        cl.append("synrule_invert_folded_H")
    return cl


def _enc_calls(calls, limit):
    out = []
    for res, host, pat, kw in calls[:limit]:
        strat = kw.get("strategy")
        out.append({"host": C._enc_graph(host), "pattern": C._enc_graph(pat),
                    "strategy": getattr(strat, "value", strat), "threshold": kw.get("threshold"),
                    "pre_filter": bool(kw.get("pre_filter", False)),
                    "maps": sorted(sorted([int(a), int(b)] for a, b in m.items()) for m in res)})
    return out


def _entry_once(sr, std, task, substrate, options):
    """One SynReactor run through the entry point described by task['entry'].  Every call of the documented
    search entry point is recorded with its arguments."""
    import networkx as nx
    from synkit.IO.chem_converter import rsmi_to_its, smiles_to_graph
    from synkit.Rule import SynRule
    from synkit.Graph.syn_graph import SynGraph

    e, mode, rs = task["entry"], task["mode"], task["template"]
    seed = int(e.get("seed", 0))
    tf = e.get("template", "graph")
    if tf == "str":
        tpl = rs
    elif tf == "from_smart":
        tpl = SynRule.from_smart(rs, implicit_h=(mode == "explicit"))
    else:
        g = rsmi_to_its(rs, core=task["core"])
        if tf == "graph_shuffled":
            g = C._relabelled_copy(g, {n: n for n in g.nodes()}, seed)
        # what _wrap_template itself builds from a graph: implicit-H templates are wrapped with implicit_h=False
        tpl = SynRule(g, implicit_h=(mode == "explicit")) if tf == "synrule" else g
    sf = e.get("substrate", "smiles")
    if sf == "smiles":
        sub = substrate
    else:
        G = smiles_to_graph(substrate, use_index_as_atom_map=False, drop_non_aam=False)
        if sf == "nx_shuffled":
            G = C._relabelled_copy(G, C._random_injection(G.nodes(), seed + 5), seed + 6)
        sub = SynGraph(G) if sf == "syngraph" else G
    strat = task["strategy"]
    strat = sr.Strategy(strat) if e.get("strategy_form", "str") == "enum" else strat
    kwargs = dict(C._mode_kwargs(mode))
    calls = []
    orig = sr.SubgraphSearchEngine

    class Recorder(orig):
        @staticmethod
        def find_subgraph_mappings(*a, **k):
            r = orig.find_subgraph_mappings(*a, **k)
            calls.append(([dict(m) for m in r], k.get("host", a[0] if a else None), k.get("pattern", a[1] if len(a) > 1 else None), dict(k)))
            return r

    if e.get("ctor") == "from_smiles":
        reactor = sr.SynReactor.from_smiles(sub, tpl, invert=task["invert"], strategy=strat, **kwargs)
    else:
        reactor = sr.SynReactor(sub, tpl, invert=task["invert"], strategy=strat, **kwargs, **(options or {}))
    sr.SubgraphSearchEngine = Recorder
    try:
        maps = reactor.mappings
        smarts = list(reactor.smarts_list)
    finally:
        sr.SubgraphSearchEngine = orig
    res = set()
    for s in smarts:
        try:
            f = std.fit(s)
        except Exception:  # noqa: BLE001
            f = None
        if f is not None:
            res.add(f)
    host_cc = pattern_cc = None
    if calls and calls[0][1] is not None and calls[0][2] is not None:
        host_cc = nx.number_connected_components(calls[0][1])
        pattern_cc = nx.number_connected_components(calls[0][2])
    return {"results": sorted(res), "n_map": len(maps), "n_raw": len(calls[0][0]) if calls else None, "n_smarts": len(smarts),
            "host_cc": host_cc, "pattern_cc": pattern_cc, "n_calls": len(calls)}, calls


def entry_task(task):
    """Worker entry of the entry / options streams.  task: {key, template (mapped rsmi), core, invert, mode, strategy,
    entry: {template, substrate, ctor, strategy_form, seed}, options: None | {embed_threshold, embed_pre_filter}, timeout}.
    With options the same run is done first without them (only to bound the size of what is sent to the Lean model)."""
    import signal
    import time

    _warm()
    t0 = time.time()
    C._ALARM["fired"] = False
    out = {"key": task["key"], "status": "ok"}
    try:
        signal.setitimer(signal.ITIMER_REAL, float(task.get("timeout", 30)))
        import synkit.Synthesis.Reactor.syn_reactor as sr
        from synkit.Chem.Reaction.standardize import Standardize

        std = Standardize()
        try:
            out["target"] = std.fit(task["template"])
            substrate = out["target"].split(">>")[1 if task["invert"] else 0]
        except C.CaseTimeout:
            raise
        except Exception:  # noqa: BLE001 - the normal form of the input itself is unavailable: not a case
            out["status"] = "skip:no-normal-form"
            return out
        out["substrate"] = substrate
        options = task.get("options")
        if options:
            _, calls0 = _entry_once(sr, std, task, substrate, None)
            out["plain_calls"] = len(calls0)
            out["plain_max_matches"] = max((len(c[0]) for c in calls0), default=0)
            out["plain_max_pattern"] = max((c[2].number_of_nodes() for c in calls0 if c[2] is not None), default=0)
        run, calls = _entry_once(sr, std, task, substrate, options)
        out["run"] = run
        if options:
            out["calls"] = _enc_calls(calls, MAX_OPTION_CALLS + 1)
    except C.CaseTimeout:
        out["status"] = "timeout"
    except Exception as e:  # noqa: BLE001 - an exception of the implementation is a result, not a crash
        out["status"] = "error:" + type(e).__name__
        out["error"] = str(e)[:300]
    finally:
        signal.setitimer(signal.ITIMER_REAL, 0)
    if C._ALARM["fired"]:
        out["status"] = "timeout"
    out["wall"] = round(time.time() - t0, 3)
    return out


def _entry_label(e):
    return f"{e.get('template', 'graph')}|{e.get('substrate', 'smiles')}|{e.get('ctor', 'init')}|{e.get('strategy_form', 'str')}"


def run_entry_items(ctx, pool, items, timeout, tag):
    """items: {rid, reaction, core, invert, strategy, entry, options}.  The gate is the one of `run_items`
    (own reaction among the standardised results; documented comp guard not gated); with options the Lean model
    of the search decides whether a documented guard (pre-filter, threshold) cut a search call."""
    tasks, metas = [], []
    for n, it in enumerate(items):
        info = C.analyze_reaction(it["reaction"])
        why = precondition(info)
        if why is not None:
            ctx.count("harness_selfcheck_failed")
            ctx.violation("harness self-check: entry-stream reaction outside the precondition: " + why, {"reaction": it["reaction"]}, None, no_input=True)
            continue
        tasks.append({"key": f"{tag}{n}", "template": it["reaction"], "core": it["core"], "invert": it["invert"], "mode": info["mode"],
                      "strategy": it["strategy"], "entry": it["entry"], "options": it.get("options"), "timeout": timeout})
        metas.append({"item": it, "info": info})
    results = pool.run(tasks, entry_task)
    stream = "options" if tag.startswith("o") else "entry"
    pending = []          # option runs waiting for the model
    for t, m, r in zip(tasks, metas, results):
        it, info = m["item"], m["info"]
        ctx.count(f"{stream}_stream_status:" + r["status"].split(":")[0])
        if r["status"] == "timeout" or r["status"].startswith("skip"):
            continue
        label = f"{'centre' if it['core'] else 'its'}/{'bw' if it['invert'] else 'fw'}"
        cls = entry_classes(it["reaction"], info, it["core"], it["invert"], it["entry"])
        case = {"reaction": it["reaction"], "variant": {"kind": "identity"}, "core": it["core"], "invert": it["invert"],
                "strategy": it["strategy"], "entry": it["entry"]}
        if it.get("options"):
            case["options"] = it["options"]
        for k in ("template", "substrate", "ctor", "strategy_form"):
            ctx.count(f"{stream}:{k}={it['entry'].get(k)}")
        ctx.count(f"{stream}:mode={info['mode']}")
        ctx.count(f"{stream}:{label}/{it['strategy']}")
        if it.get("options"):
            ctx.count(f"options:embed_threshold={it['options'].get('embed_threshold')}")
            ctx.count(f"options:embed_pre_filter={it['options'].get('embed_pre_filter')}")
        detail = {"rid": it.get("rid"), "template": label, "mode": info["mode"], "substrate": r.get("substrate"), "expected": r.get("target")}
        if r["status"] != "ok":
            ctx.count(f"{stream}_impl_exception:" + r["status"][6:])
            ctx.case(case, True)
            ctx.violation("own template does not regenerate the reaction (rule application raised " + r["status"][6:] + "; entry "
                          + _entry_label(it["entry"]) + ")", case, dict(detail, error=r.get("error")), classes=cls)
            continue
        run = r["run"]
        hit = r["target"] in run["results"]
        detail.update(raw_matches=run["n_raw"], kept_matches=run["n_map"], n_results=len(run["results"]), results=run["results"][:5])
        if it.get("options"):
            pending.append((t, it, info, r, case, cls, detail, label, hit))
            continue
        if (it["strategy"] == "comp" and not hit and run["host_cc"] is not None and run["host_cc"] > run["pattern_cc"] and run["n_raw"] == 0):
            ctx.count(f"comp_strict_cc_guard_not_gated:{label}")
            continue
        ctx.count(f"entry:{label}/{info['mode']}:" + ("regenerated" if hit else "MISS"))
        ctx.case(case, nontrivial=run["n_raw"] is not None and run["n_raw"] >= 1,
                 sample={"stream": "entry", "rid": it.get("rid"), "template": label, "strategy": it["strategy"], "mode": info["mode"],
                         "entry": _entry_label(it["entry"]), "raw_matches": run["n_raw"], "kept": run["n_map"], "regenerated": hit})
        if not hit:
            for c in cls:
                ctx.count("miss_class:" + c)
            ctx.violation("own template does not regenerate the reaction (entry " + _entry_label(it["entry"]) + ")", case, detail, classes=cls)
    if pending:
        _gate_options(ctx, pending)


def _gate_options(ctx, pending):
    reqs, owners = [], []
    for p in pending:
        t, it, info, r, case, cls, detail, label, hit = p
        calls = r.get("calls", [])
        if (len(calls) > MAX_OPTION_CALLS or r.get("plain_calls", 0) > MAX_OPTION_CALLS or r.get("plain_max_matches", 0) > MAX_MODEL_MATCHES
                or r.get("plain_max_pattern", 0) > 45):
            ctx.count("options_skipped_large")
            continue
        for i, c in enumerate(calls):
            # the configuration the call must have by the reactor's options (strategy and embed_threshold reach every
            # search call, embed_pre_filter the first one; what the re-matching calls do with the pre-filter is not
            # documented: there the recorded argument is taken)
            reqs.append({"cmd": "c06.search", "host": c["host"], "pattern": c["pattern"], "node_keys": C.MATCH_NODE_KEYS,
                         "edge_keys": C.MATCH_EDGE_KEYS,
                         "cfgs": [{"strategy": it["strategy"], "max_results": None, "strict": True,
                                   "threshold": it["options"].get("embed_threshold"),
                                   "pre_filter": bool(it["options"].get("embed_pre_filter")) if i == 0 else c["pre_filter"]}]})
        owners.append((p, len(calls)))
    answers = ctx.lean().ok(reqs, shards=8) if reqs else []
    pos, bad = 0, 0
    for p, k in owners:
        t, it, info, r, case, cls, detail, label, hit = p
        ans = answers[pos: pos + k]
        pos += k
        calls = r["calls"]
        run = r["run"]
        fired = False
        diverged = None
        for i, (c, a) in enumerate(zip(calls, ans)):
            mod = a["runs"][0]
            if mod["result"] != mod["unlimited"]:
                fired = True
            if mod["prefilter"] and c["pre_filter"]:
                ctx.count("options:model_prefilter_gave_up")
            if c["maps"] != mod["result"] and diverged is None:
                diverged = (i, c, mod)
        first = ans[0]["runs"][0] if ans else None
        strict_guard = (it["strategy"] == "comp" and first is not None and ans[0]["hcc"] > ans[0]["pcc"] and first["n"] == 0)
        ctx.count("options:" + ("a documented guard cut a search call (not gated)" if fired else "no guard fired (gated)"))
        ctx.case(case, nontrivial=bool(first and first["n"] >= 1),
                 sample={"stream": "options", "rid": it.get("rid"), "template": label, "strategy": it["strategy"], "mode": info["mode"],
                         "options": it["options"], "guard_fired": fired, "raw_matches": run["n_raw"], "regenerated": hit})
        miss_gated = (not fired) and (not strict_guard) and (not hit)
        if strict_guard and not hit:
            ctx.count(f"comp_strict_cc_guard_not_gated:{label}")
        if not fired and not strict_guard:
            ctx.count(f"options:{label}/{info['mode']}:" + ("regenerated" if hit else "MISS"))
        if miss_gated:
            bad += 0 if cls else 1
            for c in cls:
                ctx.count("miss_class:" + c)
            ctx.violation("own template does not regenerate the reaction although, by the model of the search, neither the pre-filter "
                          "nor the threshold cut any search call", case, dict(detail, options=it["options"]), classes=cls)
        if diverged is not None:
            i, c, mod = diverged
            bad += 1
            ctx.violation(f"search call {i} of the reactor (options {it['options']}) returned a match set that differs from the model of the search",
                          case, {"call": i, "strategy": c["strategy"], "threshold": c["threshold"], "pre_filter": c["pre_filter"],
                                 "impl_n": len(c["maps"]), "model_n": mod["n"], "model_prefilter_gives_up": mod["prefilter"],
                                 "impl_only": [x for x in c["maps"] if x not in mod["result"]][:2],
                                 "model_only": [x for x in mod["result"] if x not in c["maps"]][:2]},
                          no_input=not miss_gated)
    ctx.obligation("options stream: every search call of the reactor under embed_pre_filter / embed_threshold equals the Lean model of the "
                   "search; where no guard fired the own reaction is regenerated (outside known classes)", bad == 0)


def _pick_forms(rnd, core, k):
    """k-th combination of a round-robin over the forms (so that every form occurs in every run), details from rnd."""
    tforms = TEMPLATE_FORMS[:3] if core else TEMPLATE_FORMS
    entry = {"template": tforms[k % len(tforms)], "substrate": SUBSTRATE_FORMS[(k // 2) % len(SUBSTRATE_FORMS)],
             "ctor": "init", "strategy_form": STRATEGY_FORMS[k % len(STRATEGY_FORMS)], "seed": rnd.randrange(1, 2 ** 30)}
    if entry["substrate"] == "smiles" and rnd.random() < 0.6:
        entry["ctor"] = "from_smiles"
    return entry


def entry_stream(ctx, pool, chosen, infos, n, timeout):
    small = sorted((x for x in chosen if infos[x[0]]["n_atoms"] <= 30), key=lambda x: x[0])
    picked = small if len(small) <= n else ctx.rnd.sample(small, n)
    items, k, flagged = [], ctx.rnd.randrange(60), 0
    for rid, rs in picked:
        for core in (True, False):
            for invert in (False, True):
                entry = _pick_forms(ctx.rnd, core, k)
                k += 1
                if "synrule_invert_folded_H" in entry_classes(rs, infos[rid], core, invert, entry):
                    # the finding class: two instances per run are enough, the others take the next template form
                    flagged += 1
                    if flagged > 2:
                        entry["template"] = "graph_shuffled"
                items.append({"rid": rid, "reaction": rs, "core": core, "invert": invert, "strategy": ctx.rnd.choice(C.STRATEGIES), "entry": entry})
    run_entry_items(ctx, pool, items, timeout, "e")
    ctx.count("entry_stream_items", len(items))


def option_stream(ctx, pool, chosen, infos, n, timeout):
    small = sorted((x for x in chosen if infos[x[0]]["n_atoms"] <= 26), key=lambda x: x[0])
    picked = small if len(small) <= n else ctx.rnd.sample(small, n)
    items = []
    for rid, rs in picked:
        for core in (True, False):
            for invert in (False, True):
                thr = ctx.rnd.choice(OPTION_THRESHOLDS)
                pf = ctx.rnd.random() < 0.7 or thr is None
                items.append({"rid": rid, "reaction": rs, "core": core, "invert": invert, "strategy": ctx.rnd.choice(C.STRATEGIES),
                              "entry": {"template": "graph", "substrate": "smiles", "ctor": "init", "strategy_form": "str", "seed": 0},
                              "options": {"embed_threshold": thr, "embed_pre_filter": pf}})
    run_entry_items(ctx, pool, items, timeout, "o")
    ctx.count("option_stream_items", len(items))


def load_regress():
    d = ROOT / "regress" / "C04"
    out = []
    if d.exists():
        for f in sorted(d.glob("*.json")):
            c = json.loads(f.read_text())
            c = c.get("case", c)
            if is_entry_case(c):
                continue
            out.append(item_of_case(c, "regress:" + f.stem))
    return out


def is_entry_case(c):
    return "entry" in c or "options" in c


def entry_item_of_case(c, rid):
    rs = variant_of(c["reaction"], c.get("variant", {"kind": "identity"}))
    return {"rid": rid, "reaction": rs, "core": bool(c.get("core", True)), "invert": bool(c.get("invert", False)),
            "strategy": c.get("strategy") if c.get("strategy") in C.STRATEGIES else "all",
            "entry": dict({"template": "graph", "substrate": "smiles", "ctor": "init", "strategy_form": "str", "seed": 0}, **c.get("entry", {})),
            "options": c.get("options")}


def load_regress_entry():
    d = ROOT / "regress" / "C04"
    out = []
    if d.exists():
        for f in sorted(d.glob("*.json")):
            c = json.loads(f.read_text())
            c = c.get("case", c)
            if is_entry_case(c):
                out.append(entry_item_of_case(c, "regress:" + f.stem))
    return out


def item_of_case(c, rid):
    it = {"rid": rid, "reaction": c["reaction"], "variant": c.get("variant", {"kind": "identity"})}
    if "core" in c:
        it["templates"] = (c["core"],)
    if "invert" in c:
        it["directions"] = (c["invert"],)
    if c.get("strategy") in C.STRATEGIES:
        it["strategies"] = (c["strategy"],)
    return it


def run(ctx):
    ctx.trusted = [
        "Lean 4.33 kernel; axioms of the property theorems as listed in obligation_list",
        "RDKit: SMILES parsing/sanitisation, canonical SMILES (what Standardize.fit compares), random SMILES writer",
        "the glue step and the pruning step are abstract parameters of the Lean statement (hypotheses GlueRebuilds / PruneKeeps; "
        "C03's model and C11 discharge them); at implementation level they are the real SynReactor",
        "precondition, classes rc_template_incomplete / pattern_atom_mixed_H: computed from RDKit atom/bond tables of the input (harness/reactor_inv_common.py)",
    ]
    ctx.assumptions = [
        "templates are built by rsmi_to_its(rsmi, core=...) from the mapped reaction; substrates are the unmapped sides of Standardize.fit(rsmi)",
        "reactor mode fixed by DESIGN 5a: centre hydrogens explicit -> defaults; none explicit -> implicit_temp=True, explicit_h=False",
        "balanced = same atom maps and elements on both sides, equal total hydrogen count and total charge",
        "entry stream: a template handed over as a SynRule is built the way SynReactor builds it from a graph "
        "(SynRule(its) for explicit centre hydrogens, SynRule(its, implicit_h=False) otherwise); a graph substrate is "
        "smiles_to_graph(unmapped side, use_index_as_atom_map=False, drop_non_aam=False), optionally re-inserted in shuffled order under foreign node ids",
        "options stream: embed_pre_filter / embed_threshold are documented guards that may empty a search; whether one did is decided by the "
        "Lean model of the search (c06.search: quickPreFilter, threshold rule) on the arguments of every search call the reactor issued; "
        "runs where a guard fired are counted, not gated",
    ]
    quick = ctx.quick
    timeout = 8.0 if quick else 90.0
    corpus = C.load_corpus()
    infos = {rid: C.analyze_reaction(rs) for rid, rs in corpus}
    inside = []
    for rid, rs in corpus:
        why = precondition(infos[rid])
        ctx.count("corpus:" + ("inside precondition" if why is None else "skipped " + why))
        if why is None:
            inside.append((rid, rs))
    if quick:
        # fast seeded sub-population: reactions with <= 40 atoms (decided from the input), 70 of them drawn by ctx.rnd
        small = [(rid, rs) for rid, rs in inside if infos[rid]["n_atoms"] <= 40]
        chosen = ctx.rnd.sample(small, min(70, len(small)))
        # the hand-written ring rearrangements (an unchanged bond between two centre atoms of one centre
        # component: only a monomorphic, not an induced, match regenerates them) always take part
        chosen += [x for x in small if x[0].startswith("ring:") and x not in chosen]
        kinds = ["identity", "renumber", "rewrite"]
    else:
        chosen = inside
        kinds = ["identity", "renumber", "renumber", "rewrite", "both"]
    ctx.gen_rule = (
        "regress/C04 first; then corpus/c04_reactions.txt (ecoli 274, USPTO 100, hydro 50, 6 hand-written small-ring rearrangements; vendored) restricted to the precondition "
        f"({len(inside)} reactions); {'a ctx.rnd sample of 70 with <=40 atoms' if quick else 'all of them'} x variants {kinds} "
        "(random atom-map permutation; random SMILES atom order + fragment shuffle) x template {centre, full ITS} x {forward, backward} "
        f"x strategy {{all, comp, bt}}; per-run time-out {timeout}s (skipped, counted, never reported).  "
        f"tiny: {len(TINY)} hand-written degenerate reactions (no change / single atom / ions / H2 / two atoms) x {{identity, renumber, rewrite}} x the same grid.  "
        f"entry: {16 if quick else 80} of the chosen reactions with <=30 atoms x template x direction, one strategy from ctx.rnd each, entry point "
        f"round-robin over template form {list(TEMPLATE_FORMS)} (the last two for the full ITS only), substrate form {list(SUBSTRATE_FORMS)}, "
        f"strategy form {list(STRATEGY_FORMS)}, SynReactor.from_smiles for 60% of the SMILES substrates.  "
        f"options: {10 if quick else 50} of the chosen reactions with <=26 atoms x template x direction, one strategy from ctx.rnd, "
        f"embed_threshold from {list(OPTION_THRESHOLDS)}, embed_pre_filter True with probability 0.7 (always when the threshold is None).")
    ctx.nontrivial_rule = "distinct (reaction, variant, template, direction, strategy) where the search returned >=1 raw match"
    build_and_audit(ctx, ["SynKitProofs.Props.C04"], "SynKitProofs/Audit/C04.lean", THEOREMS)

    items = []
    for rid, rs in chosen:
        for kind in kinds:
            items.append({"rid": rid, "reaction": rs, "variant": {"kind": kind, "seed": ctx.rnd.randrange(1, 2**30)}})
    pool = C.Pool()
    try:
        reg = load_regress()
        run_items(ctx, pool, reg, max(timeout, 60.0), "r")
        ctx.count("regress_cases", len(reg))
        reg_e = load_regress_entry()
        run_entry_items(ctx, pool, [x for x in reg_e if not x.get("options")], max(timeout, 60.0), "er")
        run_entry_items(ctx, pool, [x for x in reg_e if x.get("options")], max(timeout, 60.0), "or")
        ctx.count("regress_cases", len(reg_e))
        run_items(ctx, pool, items, timeout, "c")
        subpattern_stream(ctx, pool, chosen, infos, 25 if quick else 120)
        # streams added for anchor coverage; drawn after the streams above, so those keep their population per seed
        tiny = [{"rid": rid, "reaction": rs, "variant": {"kind": kind, "seed": ctx.rnd.randrange(1, 2**30)}}
                for rid, rs in TINY for kind in ("identity", "renumber", "rewrite")]
        run_items(ctx, pool, tiny, timeout, "t")
        ctx.count("tiny_stream_items", len(tiny))
        entry_stream(ctx, pool, chosen, infos, 16 if quick else 80, timeout)
        option_stream(ctx, pool, chosen, infos, 10 if quick else 50, timeout)
    finally:
        pool.close()
    unknown = [v for v in ctx.violations if not v["classes"]]
    ctx.obligation("correspondence: own template regenerates the reaction (misses outside the known classes F10/F20: none)", not unknown)


def subpattern_stream(ctx, pool, chosen, infos, n):
    """Ties step 1 of `own_template_regenerates_partial` to the implementation: the hypothesis
    `SubPattern sel G P` is evaluated by the Lean driver on the graphs the reactor really searches
    (G = own substrate side drawn on the atom-map numbers, P = prepared pattern handed to the search),
    the identity must be enumerated by the proven `allMonos`, and the implementation's raw match set
    must be exactly `allMonos` (so it contains the identity as well)."""
    small = sorted((x for x in chosen if infos[x[0]]["n_atoms"] <= 45), key=lambda x: x[0])
    picked = small if len(small) <= n else ctx.rnd.sample(small, n)
    tasks = []
    for rid, rs in picked:
        for core in (True, False):
            for invert in (False, True):
                tasks.append({"key": f"{rid}|{int(core)}|{int(invert)}", "template": rs, "core": core, "invert": invert,
                              "mode": infos[rid]["mode"], "host": "own", "relabel": False, "timeout": 20.0})
    results = pool.run(tasks, graph_task_warm)
    sel = {"node_keys": C.MATCH_NODE_KEYS, "edge_keys": C.MATCH_EDGE_KEYS}
    reqs, owners = [], []
    for t, r in zip(tasks, results):
        ctx.count("subpattern_stream_status:" + r["status"].split(":")[0])
        if r["status"] != "ok":
            continue
        A = r["A"]
        if A["pattern_nodes"] > 45 or len(A["raw"]) > 400:
            ctx.count("subpattern_stream_skipped_large")
            continue
        reqs += [dict(cmd="rinv.subpattern", host=A["host"], pattern=A["pattern"], **sel),
                 dict(cmd="rinv.id_in_monos", host=A["host"], pattern=A["pattern"], **sel),
                 dict(cmd="match.monos", host=A["host"], pattern=A["pattern"], **sel)]
        owners.append((t, A))
    answers = ctx.lean().ok(reqs, shards=8)
    bad = 0
    for i, (t, A) in enumerate(owners):
        sub, idin, monos = answers[3 * i: 3 * i + 3]
        ident = sorted([nid, nid] for nid, _ in A["pattern"]["nodes"])
        case = {"reaction": t["template"], "variant": {"kind": "identity"}, "core": t["core"], "invert": t["invert"], "strategy": "all"}
        ctx.count("subpattern_stream_cases")
        ctx.case(dict(case, stream="subpattern"), nontrivial=len(A["raw"]) >= 1)
        cls = classes_of(t["template"], infos[t["key"].split("|")[0]], t["core"], t["invert"])
        if not sub:
            bad += 1
            ctx.violation("the prepared pattern of the own template is not a sub-pattern of the own substrate (identity is no match)",
                          case, {"host": A["host"], "pattern": A["pattern"]}, classes=cls)
        if sub != idin:
            bad += 1
            ctx.violation("Lean: subPatternB and membership of the identity in allMonos disagree (theorem id_mem_allMonos instance)",
                          case, {"subpattern": sub, "id_in_monos": idin}, no_input=True)
        if monos != A["raw"]:
            bad += 1
            spec_broken = (ident in monos) != (ident in A["raw"])
            ctx.violation("raw match set of the implementation differs from the proven enumerator allMonos on the own template",
                          case, {"impl_only": [m for m in A["raw"] if m not in monos][:3], "model_only": [m for m in monos if m not in A["raw"]][:3],
                                 "identity_affected": spec_broken}, no_input=not spec_broken)
    ctx.obligation("hypothesis SubPattern of own_template_regenerates_partial holds on the implementation's own graphs; "
                   "identity enumerated; raw matches == allMonos", bad == 0)


def replay(ctx, case):
    pool = C.Pool(4)
    try:
        c = case.get("case", case)
        if is_entry_case(c):
            run_entry_items(ctx, pool, [entry_item_of_case(c, "replay")], 300.0, "op" if c.get("options") else "ep")
            return
        run_items(ctx, pool, [item_of_case(c, "replay")], 300.0, "p")
        try:
            rs = variant_of(c["reaction"], c.get("variant", {"kind": "identity"}))
            info = C.analyze_reaction(rs)
            if precondition(info) is None:
                subpattern_stream(ctx, pool, [("replay", rs)], {"replay": info}, 1)
        except C.RewriteFailed:
            pass
    finally:
        pool.close()

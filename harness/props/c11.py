"""C11 — automorphism groups and orbits are exact; the WL estimate never separates an orbit;
de-duplication returns a sub-list.

Correspondence (every run, against the working tree of /repo):
* `Automorphism(G).orbits / n_automorphisms / anchor_component / components` vs the Lean model
  `SynKit.Aut.analyze` (which by `aut_count_exact`, `orbits_exact`, `aut_count_components`, `orbits_exact_components` IS the
  specification: number of label-preserving self-isomorphisms, classes of exchangeable nodes, per
  component for disconnected graphs);
* `AutoEst(G).fit().orbits / anchor_component` vs `SynKit.Aut.estOrbits / estAnchor`, for several
  `max_iter`; and directly on the implementation: every exact orbit lies inside one estimated class
  (`wl_coarsens`, `est_never_separates`);
* `deduplicate_matches_with_anchor` vs `SynKit.Aut.dedup` on match lists produced by the real
  sub-graph search on random hosts (+ partial matches, duplicates, foreign orbits → ValueError), and
  directly: the result is a sub-list of the input in the original order (`dedup_sublist`).
  How many matches are merged is recorded, not gated.
* attribute-selection variation and rare-but-legal label shapes (stream `keys`): more label keys than the
  defaults, permuted key lists, the extra keys alone, one key name on nodes and on edges, a key nobody
  carries, missing optional labels (also `charge` / `element` / `order` under permuted key lists),
  symmetric skeletons whose symmetry ONE extra label breaks, tuple-valued labels ((a, b) next to (b, a),
  nested `typesGH` tuples as on ITS graphs) — same comparison as above;
* hidden state (stream `session`): sequences of queries executed in this process on shared Python
  objects — the same graph object again, under another selection / max_iter / order of attribute access,
  after in-place edits of labels, nodes, edges, on copies, relabelled copies (same id set permuted, or
  fresh ids), sub-graph copies and views; the model answers each query from a snapshot of the graph as it
  is at that moment, independently of the history;
* the reactor clause ("pruning during rule application never changes the set of distinct reactions
  compared with applying the rule at every match"), stream `reactor`: the real `SynReactor` is run on
  (template, substrate) pairs drawn as C03–C05 draw them (corpus/c05_extra.txt + seeded corpus sample,
  machinery of harness/reactor_inv_common.py), in HISTORIES of 5-12 queries that share one freshly
  forked process: every numbering of the template (as written, a permutation of its atom-map numbers, an
  injection into other numbers) with `automorphism=True`, repetitions, random order, `automorphism`
  on/off, strategies all/comp/bt, template as ITS graph / string / shared SynRule object, substrate as
  SMILES (rewritten; a quarter of those through the alternate constructor `SynReactor.from_smiles`) / shared SynGraph object,
  optionally interleaved with a second pair.  Gate, per
  step: result set with pruning == set obtained by gluing EVERY raw match of that step through the
  reactor's own internals (compared as sets of `Standardize.fit` strings, Kekule-form-only differences
  counted as in C05).  A violating history is minimised (fresh process per attempt) to the shortest
  prefix that still makes the last step fail.  The Lean side of this clause is C05's
  `pruneSpec_preserves_results` / `prune_sound_of_aut` (DESIGN §6 F11).
* the same clause on rare-but-legal rules, stream `reactor-sym`: the corpora above hold no rule whose centre is symmetric in
  everything but ONE attribute of the rule (there an asymmetry always shows in an element, a bond change or the structure too).
  `sym_rule` enumerates such rules: small skeletons with a known symmetry x one breaker (product- or reactant-side charge,
  hydrogen count, one side of a bond-order pair; balanced on an atom and its image or on one position only) or none (control),
  optionally with equal context atoms; applied forwards and backwards, as centre and as full template, to substrates grown from
  the matched side with random substituents so that the exchanged positions differ chemically; same histories, same gate.
* alternative entry points and options (anchor coverage, coverage/C11.json), stream `entry`: `anchor_largest_component=False`, the
  empty graph / single nodes / edgeless graphs, node ids that are negative ints / strings / tuples / a mixture (the model sees the
  graph under a bijection of the ids onto naturals), `len(A)` / `A.is_connected` / `repr(A)` read in between, the estimate through
  `groups` / `orbit_index` / `node_colors` / `n_orbits` / `n_groups` / `len(E)` and through `estimate_automorphism_groups` with
  list / tuple / one-shot-iterator key arguments, empty key lists; in stream `dedup` a third of the calls hands the `Iterable`
  arguments over as tuples / one-shot iterators / plain lists or sets per orbit and passes `host_anchor` (documented as without
  influence); in every reactor step with >= 2 raw matches the pruning routine's documented fall-back (`max_group` exceeded ->
  nothing pruned) is called on that step's raw matches with max_group=0; stream `reactor-partial`: `SynReactor(partial=True)`
  (matches, partial ones included, from `PartialMatcher`), gate at full strength: the result set equals the set obtained by gluing
  EVERY match of `PartialMatcher(prune_auto=False)` of that very step (and the set from the matches the reactor was handed; no
  result that no match gives; no exception inside the pruning).  Finding F30: before /repo 0cd96bf the partial matcher pre-pruned
  by the multiset of estimated host orbits and lost distinct reactions (regress/C11/f30_partial_host_orbit_pruning.json).
* the pruning routine against its model (gate `model-prune`, in every reactor stream, above all `reactor-partial`): in every step with
  >= 2 raw matches the matches `SynReactor._prune_by_rule_automorphisms` keeps are compared, as ordered lists, with the Lean model
  `ReactorInv.pruneWithCap` (driver command `rinv.prune_partial`) on the same inputs - the pattern nodes, the automorphisms of the rule on
  them (enumerated afresh with the same `nx` GraphMatcher call the routine makes, serialised as harness/props/c05.py does for `rinv.prune`),
  the raw matches in the order the routine saw them, PARTIAL ones included: once for what `reactor.mappings` kept (default bound 5040) and
  once per direct call with `max_group` in {0, |group| - 1, |group|} (the documented fall-back above the bound, and the bound itself).  The
  model follows the routine literally (a match that lacks a pattern node has no key and is passed through; keys compared as `repr` strings;
  KeyError / ValueError are outcomes), theorems `C11.prunePartial_*`, `C11.pruneWithCap_spec`.  A difference is classified by the
  specification `rinv.prune_spec` (`PruneSpec`: sub-list, every raw match kept or related to a kept one; a partial match is related to
  nothing, so it must be kept): violated -> violation with the failing history; met (the routine prunes less, or picks other
  representatives) -> the correspondence impl == model is reported as broken without a spec-violating input.
* representation and scale (streams `repr`, `repr-session`, `repr-dedup`, run last): labels that are EQUAL under Python `==` stored under
  different types within one graph - int / float / numpy.int64 / numpy.float64 / numpy.int32 / numpy.float32, str / numpy.str_, also
  inside tuple-valued labels; every occurrence drawn, exactly ONE occurrence, or a "parsed" part next to a part "added by hand" - on the
  tiny-exhaustive classes, random / symmetric / keyed / ITS-like graphs; in sessions (a label re-stored under another type, a bond added
  with the labels of another one typed by hand); numpy.int64 node ids in the matches or in the orbit arguments of the de-duplication.
  The exact analysis compares labels with `==`, the model sees one `Val.num` / `Val.str` per class of equal labels (bool stays apart and
  is never mixed with numbers).  Plus: attributes nobody selects (`weight`, `label`, `id`, `name`, `capacity`, ...), falsy labels
  (0, 0.0, '', (), bond order 0), multi-digit numbers ((1, 12) next to (11, 2); orders up to 2500), bond orders given as strings
  ('-', '=', 'SINGLE', '1' next to '1.0'), 10-30 node graphs (paths / cycles longer than twice the round cap of the estimate, 10-13
  node molecule-like graphs, 4-5 repeated components).  Same comparison and gates as the first two items.  A violation records the
  graph with the types of its labels (`"as"` next to the value), so that the replay rebuilds the very same Python objects.
"""
import itertools
import json

from ..core import build_and_audit, ROOT
from ..shrink import shrink_seq
from .. import graphio
from .. import reactor_inv_common as RC
from . import c05 as C05

THEOREMS = [
    "SynKit.Aut.aut_count_exact",
    "SynKit.Aut.orbits_exact",
    "SynKit.Aut.orbits_cover",
    "SynKit.Aut.components_spec",
    "SynKit.Aut.aut_count_components",
    "SynKit.Aut.orbits_exact_components",
    "SynKit.Aut.aut_group",
    "SynKit.Aut.wl_coarsens",
    "SynKit.Aut.est_never_separates",
    "SynKit.Aut.est_coarser_than_exact",
    "SynKit.Aut.dedup_sublist",
    "SynKit.Aut.dedup_nodup_sig",
    "SynKit.Aut.dedup_complete",
    "SynKit.Aut.dedup_id",
    "SynKit.Aut.dedup_merges_non_automorphic",
    "SynKit.Aut.C11.full_partial",
    "SynKit.Aut.C11.pruning_clause_model",
    "SynKit.Aut.C11.full_model",
    "SynKit.Aut.C11.prunePartial_sublist",
    "SynKit.Aut.C11.prunePartial_covers",
    "SynKit.Aut.C11.prunePartial_keeps_lacking",
    "SynKit.Aut.C11.prunePartial_total",
    "SynKit.Aut.C11.prunePartial_spec",
    "SynKit.Aut.C11.prunePartial_reaction_set",
    "SynKit.Aut.C11.prunePartial_reaction_set_on",
    "SynKit.Aut.C11.pruneWithCap_spec",
    "SynKit.Aut.C11.prunePartial_no_error",
    "SynKit.Aut.C11.pruning_clause_partial_model",
]

NK = ["element", "charge"]
EK = ["order"]


# ---------------------------------------------------------------- implementation adapters
def canon_sets(xs):
    return sorted(sorted(int(v) for v in x) for x in xs)


def impl_exact(G, nk, ek, anchor_largest=True, access=("anchor", "orbits", "n_aut", "components")):
    """`access`: the order in which the lazily computed public attributes are read (the answers must not depend on it)"""
    from synkit.Graph.Matcher.automorphism import Automorphism

    A = Automorphism(G, node_attr_keys=nk, edge_attr_keys=ek, anchor_largest_component=anchor_largest)
    out = {}
    for a in list(access) + [x for x in ("anchor", "orbits", "n_aut", "components") if x not in access]:
        if a == "anchor":
            anc = A.anchor_component
            out["anchor"] = None if anc is None else sorted(int(v) for v in anc)
        elif a == "orbits":
            out["orbits"] = canon_sets(A.orbits)
        elif a == "n_aut":
            out["n_aut"] = int(A.n_automorphisms)
        else:
            out["components"] = canon_sets(A.components)
    return out


def impl_wl(G, nk, ek, max_iter):
    from synkit.Graph.Matcher.auto_est import AutoEst

    try:
        E = AutoEst(G, node_attrs=nk, edge_attrs=ek, max_iter=max_iter).fit()
    except TypeError:
        return {"error": "TypeError"}  # sorting mixed None/number signatures (malformed stream only)
    return {"orbits": canon_sets(E.orbits), "anchor": sorted(int(v) for v in E.anchor_component)}


def impl_dedup(matches, po, pa, ho, form=None):
    """`form` (optional): how the documented `Iterable` arguments are handed over - {"matches": list|tuple|iter,
    "orbits": list|tuple|iter (the container), "orbit": frozenset|set|tuple|list (each orbit), "anchor": frozenset|set,
    "host_anchor": None | [host nodes] (documented as kept for API symmetry: the answer must not depend on it),
    "ids": None | "np" (every node id of every match a numpy.int64) | "mixed" (every second match) | "values_np" (host side of the
    matches only) | "orbits_np" (the orbit / anchor arguments only): ids equal to the ints of the other arguments, of another type}"""
    from synkit.Graph.Matcher.dedup_matches import deduplicate_matches_with_anchor

    form = form or {}
    cont = {"list": list, "tuple": tuple, "iter": iter}
    orb = {"frozenset": frozenset, "set": set, "tuple": tuple, "list": list}[form.get("orbit", "frozenset")]
    anc = {"frozenset": frozenset, "set": set}[form.get("anchor", "frozenset")]
    ms = [{p: h for p, h in m} for m in matches]
    ids = form.get("ids")
    if ids:
        import numpy as np
        if ids in ("np", "mixed"):
            ms = [({np.int64(p): np.int64(h) for p, h in m.items()} if (ids == "np" or i % 2) else m) for i, m in enumerate(ms)]
        elif ids == "values_np":
            ms = [{p: np.int64(h) for p, h in m.items()} for m in ms]
        else:
            po = None if po is None else [[np.int64(x) for x in o] for o in po]
            ho = None if ho is None else [[np.int64(x) for x in o] for o in ho]
            pa = None if pa is None else [np.int64(x) for x in pa]
    kw = {}
    if form.get("host_anchor") is not None:
        kw["host_anchor"] = frozenset(form["host_anchor"])
    try:
        r = deduplicate_matches_with_anchor(
            cont[form.get("matches", "list")](ms),
            pattern_orbits=None if po is None else cont[form.get("orbits", "list")]([orb(o) for o in po]),
            pattern_anchor=None if pa is None else anc(pa),
            host_orbits=None if ho is None else cont[form.get("orbits", "list")]([orb(o) for o in ho]), **kw)
    except ValueError:
        return {"error": "ValueError"}
    if not isinstance(r, list):
        return {"error": "not a list: " + type(r).__name__}
    return {"kept": [[[int(p), int(h)] for p, h in m.items()] for m in r]}


# ---------------------------------------------------------------- generators
ELEMS = ["C", "N", "O", "S"]


def mk_graph(n_ids, edges, elems, charges=None, order_of=None, complete=True):
    import networkx as nx

    G = nx.Graph()
    for i, v in enumerate(n_ids):
        d = {"element": elems[i], "charge": 0 if charges is None else charges[i]}
        G.add_node(v, **d)
    for k, (a, b) in enumerate(edges):
        G.add_edge(n_ids[a], n_ids[b], order=(1.0 if order_of is None else order_of[k]))
    return G


def scramble(rnd, G):
    """Same graph up to isomorphism: fresh non-contiguous ids, shuffled node and edge insertion order."""
    import networkx as nx

    nodes = list(G.nodes())
    ids = rnd.sample(range(0, 3 * len(nodes) + 5), len(nodes))
    ren = dict(zip(nodes, ids))
    order = nodes[:]
    rnd.shuffle(order)
    H = nx.Graph()
    for v in order:
        H.add_node(ren[v], **dict(G.nodes[v]))
    es = list(G.edges(data=True))
    rnd.shuffle(es)
    for u, v, d in es:
        if rnd.random() < 0.5:
            u, v = v, u
        H.add_edge(ren[u], ren[v], **dict(d))
    return H


def tiny_classes(nmax):
    """Every labelled graph on 1..nmax nodes over 2 elements x 2 bond orders, once per isomorphism class."""
    from networkx.generators.atlas import graph_atlas_g

    for g in graph_atlas_g():
        n = g.number_of_nodes()
        if n == 0 or n > nmax:
            continue
        V = list(range(n))
        E = [tuple(sorted(e)) for e in g.edges()]
        eidx = {e: i for i, e in enumerate(E)}
        auts = []
        for p in itertools.permutations(V):
            if all(tuple(sorted((p[u], p[v]))) in eidx for u, v in E):
                auts.append((p, [eidx[tuple(sorted((p[u], p[v])))] for (u, v) in E]))
        for nl in itertools.product((0, 1), repeat=n):
            for el in itertools.product((0, 1), repeat=len(E)):
                cur = (nl, el)
                canonical = True
                for p, ep in auts:
                    nl2 = [0] * n
                    for v in V:
                        nl2[p[v]] = nl[v]
                    el2 = [0] * len(E)
                    for i, j in enumerate(ep):
                        el2[j] = el[i]
                    if (tuple(nl2), tuple(el2)) < cur:
                        canonical = False
                        break
                if canonical:
                    yield n, E, nl, el


def mol_like(rnd, n, p_ring=0.35, uniform=False):
    """random tree with degree <= 4 plus ring closures"""
    edges = []
    deg = [0] * n
    for v in range(1, n):
        cands = [u for u in range(v) if deg[u] < 4]
        u = rnd.choice(cands)
        edges.append((u, v))
        deg[u] += 1
        deg[v] += 1
    for _ in range(n // 3 + 1):
        if rnd.random() < p_ring and n >= 3:
            u, v = rnd.sample(range(n), 2)
            if (min(u, v), max(u, v)) not in [(min(a, b), max(a, b)) for a, b in edges] and deg[u] < 4 and deg[v] < 4:
                edges.append((u, v))
                deg[u] += 1
                deg[v] += 1
    if uniform:
        elems = ["C"] * n
        charges = [0] * n
        orders = [1.0] * len(edges)
    else:
        elems = [rnd.choice(["C", "C", "C", "N", "O"]) for _ in range(n)]
        charges = [rnd.choice([0] * 9 + [1, -1]) for _ in range(n)]
        orders = [rnd.choice([1.0, 1.0, 1.0, 2.0, 1.5]) for _ in edges]
    return mk_graph(list(range(n)), edges, elems, charges, orders)


def family(rnd):
    import networkx as nx

    k = rnd.choice(["cycle", "kab", "cube", "star", "path", "complete", "prism", "petersen", "repeat", "repeat_mixed", "wheel"])
    if k == "cycle":
        g = nx.cycle_graph(rnd.randint(3, 9))
    elif k == "kab":
        g = nx.complete_bipartite_graph(rnd.randint(1, 4), rnd.randint(1, 4))
    elif k == "cube":
        g = nx.convert_node_labels_to_integers(nx.hypercube_graph(3))
    elif k == "star":
        g = nx.star_graph(rnd.randint(2, 7))
    elif k == "path":
        g = nx.path_graph(rnd.randint(2, 8))
    elif k == "complete":
        g = nx.complete_graph(rnd.randint(2, 5))
    elif k == "prism":
        g = nx.circular_ladder_graph(rnd.randint(3, 4))
    elif k == "wheel":
        g = nx.wheel_graph(rnd.randint(4, 7))
    elif k == "petersen":
        g = nx.petersen_graph()
    else:
        base = rnd.choice([nx.path_graph(2), nx.path_graph(3), nx.cycle_graph(3), nx.cycle_graph(4), nx.star_graph(3), nx.path_graph(1)])
        reps = rnd.randint(2, 3)
        g = nx.Graph()
        for _ in range(reps):
            g = nx.disjoint_union(g, base)
        if k == "repeat_mixed":
            g = nx.disjoint_union(g, rnd.choice([nx.path_graph(2), nx.cycle_graph(5), nx.path_graph(4)]))
    el = "C"
    for v in g.nodes:
        g.nodes[v].update(element=el, charge=0)
    for u, v in g.edges:
        g[u][v]["order"] = 1.0
    r = rnd.random()
    if r < 0.25 and g.number_of_nodes():
        v = rnd.choice(list(g.nodes))
        g.nodes[v]["element"] = "N"
    elif r < 0.4 and g.number_of_edges():
        u, v = rnd.choice(list(g.edges))
        g[u][v]["order"] = 2.0
    elif r < 0.5 and g.number_of_nodes():
        v = rnd.choice(list(g.nodes))
        g.nodes[v]["charge"] = 1
    return k, g


def random_graph(rnd):
    """-> (tag, graph): connected / disconnected (with repeated identical components) <= 9 nodes"""
    import networkx as nx

    r = rnd.random()
    if r < 0.45:
        return "connected", mol_like(rnd, rnd.randint(2, 9), uniform=rnd.random() < 0.4)
    parts = []
    total = 0
    ncomp = rnd.randint(2, 4)
    for _ in range(ncomp):
        if parts and rnd.random() < 0.45:
            g = parts[rnd.randrange(len(parts))].copy()
        else:
            g = mol_like(rnd, rnd.randint(1, 4), uniform=rnd.random() < 0.6)
        if total + g.number_of_nodes() > 9:
            break
        total += g.number_of_nodes()
        parts.append(g)
    G = nx.Graph()
    for g in parts:
        G = nx.disjoint_union(G, g)
    return "disconnected", G


def malformed(rnd):
    """graphs with selected attributes missing on some nodes / edges (defaults of the exact matcher)"""
    tag, G = random_graph(rnd)
    G = G.copy()
    for v in G.nodes:
        if rnd.random() < 0.3:
            G.nodes[v].pop("charge", None)
        if rnd.random() < 0.15:
            G.nodes[v].pop("element", None)
    for u, v in G.edges:
        if rnd.random() < 0.25:
            G[u][v].pop("order", None)
    return "malformed-" + tag, G


def attr_complete(G, nk, ek):
    return all(k in d for _, d in G.nodes(data=True) for k in nk) and all(k in d for _, _, d in G.edges(data=True) for k in ek)


# ---------------------------------------------------------------- exact + WL stream
def graph_requests(gj, nk, ek, mi):
    # Automorphism: None/[] -> class defaults (resolved by the model);  AutoEst: None -> defaults, [] stays []
    return [{"cmd": "aut.exact", "graph": gj, "node_keys": nk or [], "edge_keys": ek or [], "anchor_largest": True},
            {"cmd": "aut.wl", "graph": gj, "node_keys": NK if nk is None else nk, "edge_keys": EK if ek is None else ek, "max_iter": mi}]


def largest_ok(anchor, comps, must_exist):
    """anchor must be one of the components of maximal size (which one on ties is not fixed by the property)"""
    if anchor is None:
        return not must_exist
    if not comps:
        return anchor == []
    mx = max(len(c) for c in comps)
    return sorted(anchor) in [c for c in comps if len(c) == mx]


def compare_graph(G, nk, ek, mi, mex, mwl, gate_coarse=True, ie=None, iw=None):
    """-> list of (what, detail, spec_relevant) disagreements  (ie / iw: answers of the implementation taken earlier)"""
    out = []
    ie = impl_exact(G, nk, ek) if ie is None else ie
    iw = impl_wl(G, nk, ek, mi) if iw is None else iw
    if ie["components"] != mex["components"]:
        out.append(("components differ from the model", {"impl": ie["components"], "model": mex["components"]}, False))
    if ie["n_aut"] != mex["n_aut"]:
        out.append(("number of automorphisms differs from the proven model", {"impl": ie["n_aut"], "model": mex["n_aut"]}, True))
    if ie["orbits"] != mex["orbits"]:
        out.append(("exact orbits differ from the proven model", {"impl": ie["orbits"], "model": mex["orbits"]}, True))
    multi = len(mex["components"]) > 1
    if not largest_ok(ie["anchor"], mex["components"], multi) or (ie["anchor"] is not None and not multi):
        out.append(("exact anchor is not a largest component", {"impl": ie["anchor"], "model": mex["anchor"]}, True))
    if "error" in iw:
        return out, ie, iw
    if iw["orbits"] != mwl["orbits"]:
        out.append(("WL orbit estimate differs from the model", {"impl": iw["orbits"], "model": mwl["orbits"], "max_iter": mi}, False))
    if not largest_ok(iw["anchor"], mex["components"], True):
        out.append(("estimate's anchor is not a largest component", {"impl": iw["anchor"], "model": mwl["anchor"]}, True))
    if gate_coarse:
        cls = {v: i for i, o in enumerate(iw["orbits"]) for v in o}
        for o in ie["orbits"]:
            if len({cls.get(v) for v in o}) > 1:
                out.append(("the orbit estimate separates two nodes of one exact orbit", {"exact_orbit": o, "estimate": iw["orbits"], "max_iter": mi}, True))
                break
        # the model's rounds: every round's colour classes must be coarser than the exact orbits
        for k, rk in enumerate(mwl["rounds_orbits"]):
            c2 = {v: i for i, o in enumerate(rk) for v in o}
            if any(len({c2.get(v) for v in o}) > 1 for o in mex["orbits"]):
                out.append(("model: WL round separates an exact orbit (theorem wl_coarsens contradicted?)", {"round": k}, False))
                break
    return out, ie, iw


def sub_graph(G, keep_nodes, keep_edges):
    import networkx as nx

    H = nx.Graph()
    for v in G.nodes:
        if v in keep_nodes:
            H.add_node(v, **dict(G.nodes[v]))
    for u, v, d in G.edges(data=True):
        if u in keep_nodes and v in keep_nodes and (u, v) in keep_edges:
            H.add_edge(u, v, **dict(d))
    return H


def shrink_graph(ctx, G, nk, ek, mi, gate_coarse, relevant=False):
    """relevant: the failure to keep while shrinking is one that contradicts the property's predicate (not merely the model)"""
    def fails_g(H):
        if H.number_of_nodes() == 0:
            return False
        gj = graphio.graph(H)
        mex, mwl = ctx.lean().ok(graph_requests(gj, nk, ek, mi))
        ds = compare_graph(H, nk, ek, mi, mex, mwl, gate_coarse)[0]
        return any(d[2] for d in ds) if relevant else bool(ds)

    nodes = list(G.nodes)
    edges = [(u, v) for u, v in G.edges]
    nodes = shrink_seq(nodes, lambda ns: fails_g(sub_graph(G, set(ns), set(edges))), budget=60)
    edges = [e for e in edges if e[0] in nodes and e[1] in nodes]
    edges = shrink_seq(edges, lambda es: fails_g(sub_graph(G, set(nodes), set(es))), budget=60)
    return sub_graph(G, set(nodes), set(edges))


def run_graphs(ctx, cases, stream):
    """cases: list of (tag, G, nk, ek, max_iter)"""
    reqs = []
    for tag, G, nk, ek, mi in cases:
        reqs += graph_requests(graphio.graph(G), nk, ek, mi)
    reps = ctx.lean().ok(reqs, shards=8)
    for i, (tag, G, nk, ek, mi) in enumerate(cases):
        mex, mwl = reps[2 * i], reps[2 * i + 1]
        complete = attr_complete(G, nk or NK, ek or EK)
        diffs, ie, iw = compare_graph(G, nk, ek, mi, mex, mwl, gate_coarse=complete)
        n = G.number_of_nodes()
        ncomp = len(mex["components"])
        ctx.count(f"{stream}:{tag}")
        ctx.count("nodes:%d" % n)
        ctx.count("components:%s" % (ncomp if ncomp < 4 else "4+"))
        ctx.count("n_aut:" + ("1" if mex["n_aut"] == 1 else "2-7" if mex["n_aut"] < 8 else "8-47" if mex["n_aut"] < 48 else "48+"))
        ctx.count("max_iter:%d" % mi)
        ctx.count("node_keys:" + ("default" if not nk else str(len(nk)) if len(nk) <= 4 else "5+"))
        ctx.count("edge_keys:" + ("default" if not ek else str(len(ek))))
        if "error" in iw:
            ctx.count("wl_impl_TypeError(malformed)")
        else:
            ctx.count("estimate_equals_exact" if iw["orbits"] == ie["orbits"] else "estimate_strictly_coarser_or_other")
            if not complete:
                cls = {v: k for k, o in enumerate(iw["orbits"]) for v in o}
                if any(len({cls.get(v) for v in o}) > 1 for o in ie["orbits"]):
                    ctx.count("recorded:estimate_separates_exact_orbit_on_graph_with_missing_attributes(default vs None)")
        if ie["anchor"] is not None:
            ctx.count("anchor_equals_model" if ie["anchor"] == mex["anchor"] else "anchor_other_largest")
        if "anchor" in iw:
            ctx.count("est_anchor_equals_model" if iw["anchor"] == mwl["anchor"] else "est_anchor_other_largest")
        gj = graphio.graph(G)
        ctx.case([gj, nk, ek, mi], nontrivial=(n >= 2 and (mex["n_aut"] > 1 or ncomp > 1)),
                 sample={"stream": stream, "tag": tag, "graph": gj, "n_aut": mex["n_aut"], "orbits": mex["orbits"]} if 3 <= n <= 5 else None)
        if diffs:
            report_graph_failure(ctx, G, nk, ek, mi, complete, diffs, stream, tag)
            if len(ctx.violations) >= 5:
                return


def spec_verdict(spec, what, spec_rel, ie):
    prod = 1
    for c in spec["counts"]:
        prod *= c
    return bool(spec_rel and (ie["n_aut"] != prod or ie["orbits"] != spec["orbits"] or "separates" in what or "anchor" in what))


def _first_relevant(diffs):
    """the disagreement to report: one that contradicts the property's own predicate if there is one (a difference from the
    model that leaves the predicate intact is a broken correspondence only)"""
    return next((d for d in diffs if d[2]), diffs[0])


def report_graph_failure(ctx, G, nk, ek, mi, complete, diffs, stream, tag):
    small = shrink_graph(ctx, G, nk, ek, mi, complete, relevant=any(d[2] for d in diffs))
    sj = graphio.graph(small)
    mex2, mwl2, spec = ctx.lean().ok(graph_requests(sj, nk, ek, mi) + [{"cmd": "spec.aut", "graph": sj, "node_keys": nk or [], "edge_keys": ek or []}])
    d2, ie2, iw2 = compare_graph(small, nk, ek, mi, mex2, mwl2, complete)
    what, detail, spec_rel = _first_relevant(d2 or diffs)
    ctx.violation(what, {"graph": graph_typed(small), "node_keys": nk, "edge_keys": ek, "max_iter": mi, "kind": "graph"},
                  {"detail": detail, "impl_exact": ie2, "impl_wl": iw2, "spec": spec, "stream": stream, "tag": tag},
                  no_input=not spec_verdict(spec, what, spec_rel, ie2))


# ---------------------------------------------------------------- attribute-selection and rare-input streams
# value pools of the extra label keys: ONE type per key (see ctx.assumptions); no booleans on edges (the exact matcher's
# default for a missing edge label is 1.0, and Python has 1.0 == True)
XNODE = {
    "hcount": [0, 1, 2, 3],
    "aromatic": [False, True],
    "isotope": [0, 13, 2],
    "neighbors": [("C",), ("C", "H"), ("H", "H", "O"), ()],
    "tag": ["a", "b", "*"],                  # also an edge key: one key name on nodes AND edges; "*" is what the exact matcher reads for a missing label
}
XEDGE = {
    "standard_order": [0, 1.0, -1.0, 0.5],
    "ez": ["", "E", "Z"],
    "tag": ["a", "b", "c"],
    "pair": [(1.0, 2.0), (2.0, 1.0), (1.0, 1.0)],   # tuple-valued, (a, b) next to (b, a)
}
POOLS_N = dict(XNODE, element=ELEMS, charge=[0, 1, -1])
POOLS_E = dict(XEDGE, order=[1.0, 2.0, 1.5])


def base_graph(rnd):
    r = rnd.random()
    if r < 0.55:
        tag, G = family(rnd)
        return "family-" + tag, G
    if r < 0.8:
        return "mol-uniform", mol_like(rnd, rnd.randint(3, 8), uniform=True)
    tag, G = random_graph(rnd)
    return tag, G


def decorate(rnd, G, missing=False):
    """Extra label keys on every node / edge of G (in place).  Styles: uniform; ONE node or edge differs in ONE key (a symmetric
    skeleton whose symmetry only that attribute breaks); scattered values.  -> (style, extra node keys, extra edge keys)"""
    xn = rnd.sample(sorted(XNODE), rnd.randint(1, 3))
    xe = rnd.sample(sorted(XEDGE), rnd.randint(0, 2))
    style = rnd.choice(["uniform", "one", "one", "one", "scatter"])
    base = {("n", k): rnd.choice(XNODE[k]) for k in xn}
    base.update({("e", k): rnd.choice(XEDGE[k]) for k in xe})
    for v in G.nodes:
        for k in xn:
            G.nodes[v][k] = base[("n", k)] if style != "scatter" or rnd.random() < 0.7 else rnd.choice(XNODE[k])
    for u, v in G.edges:
        for k in xe:
            G[u][v][k] = base[("e", k)] if style != "scatter" or rnd.random() < 0.7 else rnd.choice(XEDGE[k])
    if style == "one":
        slots = [("n", k) for k in xn] + ([("e", k) for k in xe] if G.number_of_edges() else [])
        if slots and G.number_of_nodes():
            kind, k = rnd.choice(slots)
            pool = [x for x in (XNODE if kind == "n" else XEDGE)[k] if x != base[(kind, k)]]
            if kind == "n":
                G.nodes[rnd.choice(sorted(G.nodes))][k] = rnd.choice(pool)
            else:
                u, v = rnd.choice(sorted(G.edges))
                G[u][v][k] = rnd.choice(pool)
    if missing:
        for v in G.nodes:
            for k in xn + ["charge"]:
                if rnd.random() < 0.25:
                    G.nodes[v].pop(k, None)
            if rnd.random() < 0.1:
                G.nodes[v].pop("element", None)
        for u, v in G.edges:
            for k in xe + ["order"]:
                if rnd.random() < 0.2:
                    G[u][v].pop(k, None)
    return style, xn, xe


def select_keys(rnd, xn, xe):
    """A non-default attribute selection: more keys than the defaults, permuted key lists, the extra keys alone, a key that is
    on nodes and on edges, a key nobody carries."""
    r = rnd.random()
    if r < 0.35:
        nk = NK + xn                                  # defaults first, then the extra keys
    elif r < 0.6:
        nk = NK + xn
        rnd.shuffle(nk)
    elif r < 0.75:
        nk = list(xn)
    elif r < 0.9:
        nk = rnd.sample(NK + xn, rnd.randint(1, len(NK + xn)))
    else:
        nk = NK + xn + ["missing_key"]
    r = rnd.random()
    if r < 0.4:
        ek = EK + xe
    elif r < 0.65:
        ek = EK + xe
        rnd.shuffle(ek)
    elif r < 0.8 and xe:
        ek = list(xe)
    elif r < 0.9:
        ek = EK
    else:
        ek = rnd.sample(EK + xe, rnd.randint(1, len(EK + xe)))
    return list(nk), list(ek)


def its_like(rnd):
    """A graph labelled like an ITS / reaction-centre graph: tuple-valued bond orders (before, after) with (a, b) next to
    (b, a), `standard_order` = a - b, nested-tuple node labels `typesGH`."""
    _, G = base_graph(rnd)
    for v in G.nodes:
        d = G.nodes[v]
        t = (d.get("element", "C"), False, 1, d.get("charge", 0), ("C",))
        G.nodes[v]["typesGH"] = (t, t)
    for u, v in G.edges:
        o = G[u][v].get("order", 1.0)
        G[u][v]["order"] = (o, o)
        G[u][v]["standard_order"] = 0.0
    es = sorted(G.edges)
    k = rnd.choice([0, 1, 2, 2, 3])
    for j, (u, v) in enumerate(rnd.sample(es, min(k, len(es)))):
        pair = [(1.0, 2.0), (2.0, 1.0), (1.0, 2.0), (0, 1.0)][j] if rnd.random() < 0.8 else rnd.choice([(1.0, 2.0), (2.0, 1.0), (0, 1.0), (1.0, 0)])
        G[u][v]["order"] = pair
        G[u][v]["standard_order"] = float(pair[0] - pair[1])
    if rnd.random() < 0.3 and G.number_of_nodes():
        v = rnd.choice(sorted(G.nodes))
        t = G.nodes[v]["typesGH"][0]
        G.nodes[v]["typesGH"] = (t, (t[0], t[1], t[2] - 1, t[3] + 1, t[4]))
    nk = rnd.choice([["typesGH"], NK + ["typesGH"], ["typesGH", "element"], None, NK])
    ek = rnd.choice([["order"], ["order", "standard_order"], ["standard_order"], ["standard_order", "order"], None])
    return "its-like", G, nk, ek


def keys_case(rnd, missing=False):
    _, G = base_graph(rnd)
    style, xn, xe = decorate(rnd, G, missing=missing)
    nk, ek = select_keys(rnd, xn, xe)
    return f"{'missing-' if missing else ''}keys-{style}", G, nk, ek


# ---------------------------------------------------------------- sessions: hidden state between queries
# One session = one base graph and a sequence of operations executed in this process on shared Python objects: queries with
# varying attribute selections / max_iter / order of attribute access, on the same object again, on copies, relabelled copies,
# (views of) sub-graphs, and after in-place edits of labels, nodes and edges.  The model answers every query from a snapshot of
# the queried graph taken at that moment, independently of the history.
ACCESS = ["anchor", "orbits", "n_aut", "components"]


def apply_op(slots, frozen, op):
    k = op["op"]
    if k == "copy":
        slots.append(slots[op["src"]].copy())
        frozen.append(False)
    elif k == "relabel":
        slots.append(RC._relabelled_copy(slots[op["src"]], {int(a): int(b) for a, b in op["table"]}, op["oseed"]))
        frozen.append(False)
    elif k == "sub":
        H = slots[op["src"]].subgraph(op["nodes"])
        slots.append(H if op["view"] else H.copy())
        frozen.append(bool(op["view"]))
    elif k == "setn":
        slots[op["slot"]].nodes[op["node"]][op["key"]] = unval_typed(op["val"])
    elif k == "sete":
        slots[op["slot"]][op["u"]][op["v"]][op["key"]] = unval_typed(op["val"])
    elif k == "rmnode":
        slots[op["slot"]].remove_node(op["node"])
    elif k == "addedge":
        slots[op["slot"]].add_edge(op["u"], op["v"], **{a: unval_typed(b) for a, b in op["attrs"].items()})


def gen_session(rnd, typed=False):
    """typed=True (stream `repr-session`): the base graph and every value written by an edit are stored under a randomly drawn
    representation of the SAME value (int / float / numpy scalars, see retype_value), and a quarter of the operations re-store a
    label that is already there under another type (an edit that changes nothing: every answer must stay what it was)."""
    r = rnd.random()
    if r < 0.45:
        tag, G = base_graph(rnd)
        xn, xe = [], []
    elif r < 0.85:
        tag, G = base_graph(rnd)
        _, xn, xe = decorate(rnd, G)
        tag = "keys-" + tag
    else:
        tag, G, _, _ = its_like(rnd)
        xn, xe = ["typesGH"], ["standard_order"]
    G = scramble(rnd, G)
    its = tag == "its-like"
    if typed:
        retype_graph(rnd, G, rnd.choice(REPR_MODES))
    gj0 = graph_typed(G) if typed else graphio.graph(G)
    slots, frozen, ops = [to_nx_typed(gj0)], [False], []

    def tv(x):
        # the value as it goes into the operation: typed sessions draw a representation of it
        return val_typed(retype_value(rnd, x, 0.6)) if typed else graphio.val(x)

    def selection():
        r = rnd.random()
        if its:
            return rnd.choice([["typesGH"], NK + ["typesGH"], NK]), rnd.choice([["order"], ["order", "standard_order"], ["standard_order"]])
        if r < 0.4 or not (xn or xe):
            return rnd.choice([(NK, EK), (NK, EK), (None, None), (["element"], EK)])
        return select_keys(rnd, xn, xe)

    def query(slot):
        nk, ek = selection()
        acc = ACCESS[:]
        rnd.shuffle(acc)
        return {"op": "query", "slot": slot, "node_keys": nk, "edge_keys": ek, "max_iter": rnd.choice([0, 1, 2, 10, 10]), "access": acc}

    ops.append(query(0))
    for _ in range(rnd.randint(5, 10)):
        r = rnd.random()
        live = [i for i, g in enumerate(slots) if g.number_of_nodes() >= 1]
        slot = rnd.choice(live)
        G1 = slots[slot]
        editable = [i for i in live if not frozen[i]]
        op = None
        if typed and editable and rnd.random() < 0.25:
            # re-store a label that is already there as an equal value of another type
            slot = rnd.choice(editable)
            G1 = slots[slot]
            es = sorted(G1.edges)
            if es and rnd.random() < 0.6:
                u, v = rnd.choice(es)
                ks = [k for k in sorted(G1[u][v]) if retypable(G1[u][v][k])]
                if ks:
                    k = rnd.choice(ks)
                    op = {"op": "sete", "slot": slot, "u": u, "v": v, "key": k, "val": val_typed(retype_value(rnd, G1[u][v][k], 1.0, other=True))}
            else:
                v = rnd.choice(sorted(G1.nodes))
                ks = [k for k in sorted(G1.nodes[v]) if retypable(G1.nodes[v][k])]
                if ks:
                    k = rnd.choice(ks)
                    op = {"op": "setn", "slot": slot, "node": v, "key": k, "val": val_typed(retype_value(rnd, G1.nodes[v][k], 1.0, other=True))}
            if op is not None:
                op["same_value"] = True
        if op is not None:
            pass
        elif r < 0.45:
            op = query(slot)
        elif r < 0.53:
            op = {"op": "copy", "src": slot}
        elif r < 0.63:
            nodes = sorted(G1.nodes)
            # mostly a permutation of the same ids (derived object with the SAME id set, other roles), else fresh ids
            ids = nodes[:] if rnd.random() < 0.6 else rnd.sample(range(0, 3 * len(nodes) + 5), len(nodes))
            rnd.shuffle(ids)
            op = {"op": "relabel", "src": slot, "table": [[a, b] for a, b in zip(nodes, ids)], "oseed": rnd.randrange(1, 2**30)}
        elif r < 0.71 and G1.number_of_nodes() >= 2:
            nodes = sorted(G1.nodes)
            op = {"op": "sub", "src": slot, "nodes": sorted(rnd.sample(nodes, rnd.randint(1, len(nodes) - 1))), "view": rnd.random() < 0.4}
        elif r < 0.83 and editable:
            slot = rnd.choice(editable)
            G1 = slots[slot]
            v = rnd.choice(sorted(G1.nodes))
            keys = [k for k in G1.nodes[v] if k in POOLS_N] or ["element"]
            k = rnd.choice(keys)
            pool = [x for x in POOLS_N[k] if x != G1.nodes[v].get(k)]
            op = {"op": "setn", "slot": slot, "node": v, "key": k, "val": tv(rnd.choice(pool))}
        elif r < 0.92 and editable and any(slots[i].number_of_edges() for i in editable):
            slot = rnd.choice([i for i in editable if slots[i].number_of_edges()])
            G1 = slots[slot]
            u, v = rnd.choice(sorted(G1.edges))
            keys = [k for k in G1[u][v] if k in POOLS_E and not (its and k == "order")] or ["order"]
            k = rnd.choice(keys)
            pool = [x for x in (XEDGE["pair"] if (its and k == "order") else POOLS_E[k]) if x != G1[u][v].get(k)]
            op = {"op": "sete", "slot": slot, "u": u, "v": v, "key": k, "val": tv(rnd.choice(pool))}
        elif r < 0.96 and editable:
            slot = rnd.choice(editable)
            G1 = slots[slot]
            if G1.number_of_nodes() >= 2:
                op = {"op": "rmnode", "slot": slot, "node": rnd.choice(sorted(G1.nodes))}
        elif editable:
            slot = rnd.choice(editable)
            G1 = slots[slot]
            non = [(a, b) for a in sorted(G1.nodes) for b in sorted(G1.nodes) if a < b and not G1.has_edge(a, b)]
            if non and G1.number_of_edges():
                a, b = rnd.choice(non)
                e = rnd.choice(sorted(G1.edges))
                # typed: the new bond carries the labels of an existing one, stored by hand under other types
                op = {"op": "addedge", "slot": slot, "u": a, "v": b, "attrs": {k: tv(x) for k, x in G1[e[0]][e[1]].items()} if typed else graphio.attrs(G1[e[0]][e[1]])}
        if op is None:
            op = query(slot)
        ops.append(op)
        if op["op"] != "query":
            apply_op(slots, frozen, op)
            if op["op"] in ("setn", "sete", "rmnode", "addedge") or rnd.random() < 0.7:
                # the edited / derived object is asked about right away
                ops.append(query(op.get("slot", len(slots) - 1) if op["op"] in ("setn", "sete", "rmnode", "addedge") else len(slots) - 1))
    return {"kind": "session", "tag": tag, "graph": gj0, "ops": ops}


def exec_session(sess):
    """-> list of records (op index, snapshot, nk, ek, mi, impl exact, impl wl)"""
    slots, frozen, recs = [to_nx_typed(sess["graph"])], [False], []
    for k, op in enumerate(sess["ops"]):
        if op["op"] != "query":
            apply_op(slots, frozen, op)
            continue
        G = slots[op["slot"]]
        gj = graphio.graph(G)
        nk, ek, mi = op["node_keys"], op["edge_keys"], op["max_iter"]
        ie = impl_exact(G, nk, ek, access=op.get("access", ACCESS))
        iw = impl_wl(G, nk, ek, mi)
        recs.append((k, gj, nk, ek, mi, ie, iw, graph_typed(G)))
    return recs


def run_sessions(ctx, sessions, stream):
    allrecs = [exec_session(s) for s in sessions]           # the implementation first, session after session, in this process
    reqs = []
    for recs in allrecs:
        for k, gj, nk, ek, mi, ie, iw, _ in recs:
            reqs += graph_requests(gj, nk, ek, mi)
    reps = ctx.lean().ok(reqs, shards=8)
    j = 0
    for sess, recs in zip(sessions, allrecs):
        ctx.count(f"{stream}:sessions")
        ctx.count(f"{stream}:base:" + sess.get("tag", "?").split("-")[0])
        for op in sess["ops"]:
            ctx.count(f"{stream}:op:" + op["op"])
        failed = False
        for k, gj, nk, ek, mi, ie, iw, gt in recs:
            mex, mwl = reps[j], reps[j + 1]
            j += 2
            if failed:
                continue
            G = to_nx_typed(gt)          # the queried graph as it was (labels under the types they were stored with)
            complete = attr_complete(G, nk or NK, ek or EK)
            diffs, _, _ = compare_graph(G, nk, ek, mi, mex, mwl, gate_coarse=complete, ie=ie, iw=iw)
            n = G.number_of_nodes()
            ctx.count("nodes:%d" % n if n < 10 else "nodes:10+")
            ctx.case([gj, nk, ek, mi], nontrivial=(n >= 2 and (mex["n_aut"] > 1 or len(mex["components"]) > 1)))
            if not diffs:
                continue
            failed = True
            # does the query fail on a freshly built graph as well?  then it is a plain input, reported (and minimised) as such
            fresh, _, _ = compare_graph(G, nk, ek, mi, mex, mwl, gate_coarse=complete)
            if fresh:
                report_graph_failure(ctx, G, nk, ek, mi, complete, fresh, stream, sess.get("tag", "session"))
            else:
                spec = ctx.lean().ok([{"cmd": "spec.aut", "graph": gj, "node_keys": nk or [], "edge_keys": ek or []}])[0]
                what, detail, spec_rel = _first_relevant(diffs)
                ctx.violation(what + " (only after the preceding operations of the session)",
                              {"kind": "session", "tag": sess.get("tag"), "graph": sess["graph"], "ops": sess["ops"][:k + 1]},
                              {"detail": detail, "impl_exact": ie, "impl_wl": iw, "spec": spec, "queried_graph": gt, "stream": stream},
                              no_input=not spec_verdict(spec, what, spec_rel, ie))
        if len(ctx.violations) >= 5:
            return


# ---------------------------------------------------------------- alternative entry points and options (stream `entry`)
# The documented ways into the two analyses that the streams above never take:
# * `Automorphism(..., anchor_largest_component=False)` (no anchor is reported; counts and orbits as before);
# * the empty graph (no orbit, one automorphism, no anchor, connected), single nodes, isolated nodes;
# * node ids that are not non-negative ints (`NodeId = int | str | tuple | object`): negative ints, strings (whose order
#   differs from the numeric one), tuples, and for the exact analysis a mixture of the three (its orbit list is sorted by repr);
#   the Lean model sees the same graph under a bijection of the ids onto naturals, the answers are mapped back;
# * the other public views of the exact analysis: `len(A)`, `A.is_connected`, `repr(A)` (read in between, in random order);
# * the other public views of the estimate: `groups`, `orbit_index`, `node_colors`, `n_orbits`, `n_groups`, `len(E)`, and the
#   convenience function `estimate_automorphism_groups(graph, node_attrs, edge_attrs, max_iter)` with the key lists handed
#   over as list / tuple / one-shot iterator; `node_attrs=[]` / `edge_attrs=[]` (the class docstring's own example);
# * key lists as tuples.
# Expected answers: the Lean model (`aut.exact` with the `anchor_largest` flag, `aut.wl`); every view of the estimate must
# describe the model's partition, and must not separate an exact orbit.
ID_KINDS = ["int", "neg", "str", "tuple", "mixed"]
EXACT_VIEWS = ["anchor", "orbits", "n_aut", "components", "len", "is_connected", "repr"]
EST_VIEWS = ["orbits", "groups", "orbit_index", "node_colors", "n_orbits", "n_groups", "len", "anchor"]


def entry_id(kind, v):
    """The id the implementation sees for the model's node v (injective on naturals for every kind)."""
    if kind == "int":
        return v
    if kind == "neg":
        return 3 - v                        # order reversed, negative from 4 on
    if kind == "str":
        return "a%d" % v                    # "a10" < "a2": another order than the numeric one
    if kind == "tuple":
        return (v % 3, v // 3)
    return [v, "s%d" % v, ("t", v)][v % 3]  # mixed: ints, strings and tuples in one graph


def entry_graph(gj, kind):
    """-> (graph with the ids of `kind`, same node and edge insertion order; table impl id -> model id)"""
    G = graphio.to_nx(gj)
    import networkx as nx

    H = nx.Graph()
    back = {}
    for v, d in G.nodes(data=True):
        H.add_node(entry_id(kind, v), **dict(d))
        back[entry_id(kind, v)] = v
    for u, v, d in G.edges(data=True):
        H.add_edge(entry_id(kind, u), entry_id(kind, v), **dict(d))
    return H, back


def _keys_as(keys, form):
    if keys is None:
        return None
    return {"list": list, "tuple": tuple, "iter": iter}[form](keys)


def impl_entry(c):
    """Run the implementation on one `entry` case.  -> (exact answers, estimate answers | None), ids mapped back to the model's"""
    from synkit.Graph.Matcher.automorphism import Automorphism
    from synkit.Graph.Matcher.auto_est import AutoEst, estimate_automorphism_groups

    H, back = entry_graph(c["graph"], c["ids"])
    sets = lambda xs: sorted(sorted(back[v] for v in x) for x in xs)  # noqa: E731
    nk, ek = c["node_keys"], c["edge_keys"]
    kf = c.get("keys_as", "list")
    A = Automorphism(H, node_attr_keys=_keys_as(nk, "tuple" if kf == "tuple" else "list"),
                     edge_attr_keys=_keys_as(ek, "tuple" if kf == "tuple" else "list"),
                     anchor_largest_component=c["anchor_largest"])
    ie = {}
    for a in c["exact_views"]:
        if a == "anchor":
            anc = A.anchor_component
            ie["anchor"] = None if anc is None else sorted(back[v] for v in anc)
        elif a == "orbits":
            ie["orbits"] = sets(A.orbits)
        elif a == "n_aut":
            ie["n_aut"] = int(A.n_automorphisms)
        elif a == "components":
            ie["components"] = sets(A.components)
        elif a == "len":
            ie["len"] = len(A)
        elif a == "is_connected":
            ie["is_connected"] = bool(A.is_connected)
        else:
            ie["repr"] = repr(A)
    if c["ids"] == "mixed":
        return ie, None               # the estimate orders its classes by min(id): ids must be mutually comparable
    try:
        if c["est_via"] == "function":
            E = estimate_automorphism_groups(H, node_attrs=_keys_as(nk, kf), edge_attrs=_keys_as(ek, kf), max_iter=c["max_iter"])
        else:
            E = AutoEst(H, node_attrs=_keys_as(nk, "list"), edge_attrs=_keys_as(ek, "list"), max_iter=c["max_iter"]).fit()
    except TypeError:
        return ie, {"error": "TypeError"}   # sorting signatures that mix None and numbers: graphs with missing labels only
    iw = {}
    for a in c["est_views"]:
        if a == "orbits":
            iw["orbits"] = sets(E.orbits)
        elif a == "groups":
            iw["groups"] = sets(E.groups)
        elif a in ("orbit_index", "node_colors"):
            cls = {}
            for v, k in getattr(E, a).items():
                cls.setdefault(k, []).append(v)
            iw[a] = sets(cls.values())
        elif a == "n_orbits":
            iw["n_orbits"] = int(E.n_orbits)
        elif a == "n_groups":
            iw["n_groups"] = int(E.n_groups)
        elif a == "len":
            iw["len"] = len(E)
        else:
            iw["anchor"] = sorted(back[v] for v in E.anchor_component)
    return ie, iw


def entry_requests(c):
    nk, ek = c["node_keys"], c["edge_keys"]
    return [{"cmd": "aut.exact", "graph": c["graph"], "node_keys": list(nk or []), "edge_keys": list(ek or []), "anchor_largest": c["anchor_largest"]},
            {"cmd": "aut.wl", "graph": c["graph"], "node_keys": NK if nk is None else list(nk), "edge_keys": EK if ek is None else list(ek),
             "max_iter": c["max_iter"]}]


def entry_diffs(c, mex, mwl):
    """-> list of (what, detail, the property's own predicate is violated)"""
    try:
        ie, iw = impl_entry(c)
    except Exception as e:  # noqa: BLE001 - the analyses are total on labelled graphs: an exception is an answer that is missing
        return [("the analysis raises " + type(e).__name__ + " on a documented input", {"error": str(e)[:300]}, True)], None, None
    out = []
    comps = mex["components"]
    multi = len(comps) > 1
    if ie["components"] != comps:
        out.append(("components differ from the model", {"impl": ie["components"], "model": comps}, False))
    if ie["n_aut"] != mex["n_aut"]:
        out.append(("number of automorphisms differs from the proven model", {"impl": ie["n_aut"], "model": mex["n_aut"]}, True))
    if ie["orbits"] != mex["orbits"]:
        out.append(("exact orbits differ from the proven model", {"impl": ie["orbits"], "model": mex["orbits"]}, True))
    if ie["len"] != len(mex["orbits"]):
        out.append(("len(Automorphism) is not the number of orbits", {"impl": ie["len"], "model": len(mex["orbits"])}, True))
    if ie["is_connected"] != (len(comps) <= 1):
        out.append(("Automorphism.is_connected disagrees with the components", {"impl": ie["is_connected"], "components": comps}, False))
    if c["anchor_largest"]:
        if not largest_ok(ie["anchor"], comps, multi) or (ie["anchor"] is not None and not multi):
            out.append(("exact anchor is not a largest component", {"impl": ie["anchor"], "model": mex["anchor"]}, True))
    elif ie["anchor"] is not None:
        out.append(("an anchor is reported although anchor_largest_component=False", {"impl": ie["anchor"]}, False))
    if iw is None:
        return out, ie, iw
    if "error" in iw:
        if c["complete"]:
            out.append(("the orbit estimate raises on a graph that carries every selected label", {"impl": iw["error"]}, True))
        return out, ie, iw
    for view in ("orbits", "groups", "orbit_index", "node_colors"):
        if iw[view] != mwl["orbits"]:
            out.append((f"WL orbit estimate (AutoEst.{view}) differs from the model", {"impl": iw[view], "model": mwl["orbits"], "max_iter": c["max_iter"]}, False))
            break
    for view in ("n_orbits", "n_groups", "len"):
        if iw[view] != len(mwl["orbits"]):
            out.append((f"AutoEst {view} is not the number of estimated classes", {"impl": iw[view], "model": len(mwl["orbits"])}, False))
            break
    if not largest_ok(iw["anchor"], comps, True):
        out.append(("estimate's anchor is not a largest component", {"impl": iw["anchor"], "model": mwl["anchor"]}, True))
    if c["complete"]:
        for view in ("orbits", "groups", "orbit_index", "node_colors"):
            cls = {v: i for i, o in enumerate(iw[view]) for v in o}
            bad = [o for o in mex["orbits"] if len({cls.get(v) for v in o}) > 1]
            if bad:
                out.append((f"the orbit estimate (AutoEst.{view}) separates two nodes of one exact orbit",
                            {"exact_orbit": bad[0], "estimate": iw[view], "max_iter": c["max_iter"]}, True))
                break
    return out, ie, iw


def entry_case(rnd):
    r = rnd.random()
    if r < 0.04:
        tag, G = "empty", mk_graph([], [], [])
    elif r < 0.08:
        tag, G = "single", mk_graph([0], [], [rnd.choice(ELEMS)])
    elif r < 0.13:
        n = rnd.randint(2, 4)
        tag, G = "isolated", mk_graph(list(range(n)), [], [rnd.choice(["C", "C", "N"]) for _ in range(n)])
    elif r < 0.3:
        tag, G, _, _ = keys_case(rnd)
        for _, d in G.nodes(data=True):        # default keys only in this stream
            for k in [k for k in d if k not in NK]:
                del d[k]
        for _, _, d in G.edges(data=True):
            for k in [k for k in d if k not in EK]:
                del d[k]
    elif r < 0.4:
        tag, G = malformed(rnd)
    else:
        tag, G = base_graph(rnd)
    G = scramble(rnd, G)
    nk, ek = rnd.choice([(NK, EK), (NK, EK), (None, None), (["element"], EK), ([], []), (NK, []), (["charge", "element"], EK)])
    ev, wv = EXACT_VIEWS[:], EST_VIEWS[:]
    rnd.shuffle(ev)
    rnd.shuffle(wv)
    return {"kind": "entry", "tag": tag, "graph": graphio.graph(G), "ids": rnd.choice(ID_KINDS), "node_keys": nk, "edge_keys": ek,
            "max_iter": rnd.choice([0, 1, 2, 3, 10, 10, 10]), "anchor_largest": rnd.random() < 0.5,
            "keys_as": rnd.choice(["list", "tuple", "iter"]), "est_via": rnd.choice(["ctor", "function"]),
            "exact_views": ev, "est_views": wv,
            "complete": attr_complete(G, nk or NK, ek or EK)}


def run_entry(ctx, cases, stream):
    reqs = []
    for c in cases:
        reqs += entry_requests(c)
    reps = ctx.lean().ok(reqs, shards=8)
    for i, c in enumerate(cases):
        mex, mwl = reps[2 * i], reps[2 * i + 1]
        diffs, ie, iw = entry_diffs(c, mex, mwl)
        n = len(c["graph"]["nodes"])
        ncomp = len(mex["components"])
        ctx.count(f"{stream}:base:" + c.get("tag", "?").split("-")[0])
        ctx.count(f"{stream}:ids:" + c["ids"])
        ctx.count(f"{stream}:anchor_largest:" + str(c["anchor_largest"]))
        ctx.count(f"{stream}:components:%s" % (ncomp if ncomp < 4 else "4+"))
        ctx.count(f"{stream}:nodes:%s" % (n if n < 2 else "2-4" if n <= 4 else "5+"))
        ctx.count(f"{stream}:keys:" + ("default(None)" if c["node_keys"] is None else "empty" if not c["node_keys"] else "given"))
        if iw is not None and "error" in iw:
            ctx.count(f"{stream}:estimate_TypeError(labels missing)")
        elif iw is not None:
            ctx.count(f"{stream}:estimate_via:" + c["est_via"] + ("/" + c["keys_as"] if c["est_via"] == "function" else ""))
        else:
            ctx.count(f"{stream}:estimate_not_asked(mixed id types)")
        ctx.count("nodes:%d" % n if n < 10 else "nodes:10+")
        ctx.case([c["graph"], c["ids"], c["node_keys"], c["edge_keys"], c["max_iter"], c["anchor_largest"], c["est_via"]],
                 nontrivial=(n >= 2 and (mex["n_aut"] > 1 or ncomp > 1)))
        if not diffs:
            continue
        # minimise: nodes, then edges
        def fails_sub(gj):
            c2 = dict(c, graph=gj)
            m1, m2 = ctx.lean().ok(entry_requests(c2))
            return bool(entry_diffs(c2, m1, m2)[0])

        nodes, edges = c["graph"]["nodes"], c["graph"]["edges"]
        nodes = shrink_seq(nodes, lambda ns: fails_sub({"nodes": ns, "edges": [e for e in edges if e[0] in {x[0] for x in ns} and e[1] in {x[0] for x in ns}]}), budget=60)
        ids = {x[0] for x in nodes}
        edges = [e for e in edges if e[0] in ids and e[1] in ids]
        edges = shrink_seq(edges, lambda es: fails_sub({"nodes": nodes, "edges": es}), budget=60)
        c2 = dict(c, graph={"nodes": nodes, "edges": edges})
        m1, m2 = ctx.lean().ok(entry_requests(c2))
        d2, ie2, iw2 = entry_diffs(c2, m1, m2)
        what, detail, spec_violated = (d2 or diffs)[0]
        ctx.violation(what + f" (node ids: {c['ids']}, anchor_largest_component={c['anchor_largest']}, estimate via {c['est_via']})", c2,
                      {"detail": detail, "impl_exact": ie2, "impl_wl": iw2, "model_exact": m1, "model_wl_orbits": m2["orbits"], "stream": stream},
                      no_input=not spec_violated)
        if len(ctx.violations) >= 5:
            return


# ---------------------------------------------------------------- dedup stream
def pattern_for(rnd):
    import networkx as nx

    k = rnd.choice(["path2", "path3", "path4", "star3", "cycle3", "cycle4", "two_edges", "edge_plus_node", "branch", "cycle6"])
    g = {"path2": nx.path_graph(2), "path3": nx.path_graph(3), "path4": nx.path_graph(4), "star3": nx.star_graph(3),
         "cycle3": nx.cycle_graph(3), "cycle4": nx.cycle_graph(4), "cycle6": nx.cycle_graph(6),
         "two_edges": nx.disjoint_union(nx.path_graph(2), nx.path_graph(2)),
         "edge_plus_node": nx.disjoint_union(nx.path_graph(2), nx.path_graph(1)),
         "branch": nx.Graph([(0, 1), (1, 2), (1, 3), (3, 4)])}[k]
    for v in g.nodes:
        g.nodes[v].update(element="C", charge=0)
    for u, v in g.edges:
        g[u][v]["order"] = 1.0
    if rnd.random() < 0.3:
        v = rnd.choice(list(g.nodes))
        g.nodes[v]["element"] = "N"
    return k, g


def host_for(rnd, pat):
    import networkx as nx

    n = rnd.randint(4, 9)
    if rnd.random() < 0.15:
        # dense host (complete graph / wheel): many embeddings that differ by non-automorphic orbit-wise permutations
        G = nx.complete_graph(rnd.randint(4, 6)) if rnd.random() < 0.6 else nx.wheel_graph(rnd.randint(5, 7))
        for v in G.nodes:
            G.nodes[v].update(element="C", charge=0)
        for u, v in G.edges:
            G[u][v]["order"] = 1.0
        return G
    G = mol_like(rnd, n, p_ring=0.6, uniform=True)
    for v in G.nodes:
        if rnd.random() < 0.25:
            G.nodes[v]["element"] = "N"
    if rnd.random() < 0.4:
        G = nx.disjoint_union(G, mol_like(rnd, rnd.randint(2, 4), uniform=True))
    return G


def dedup_case(rnd):
    """-> (tag, matches, po, pa, ho) with matches from the real sub-graph search"""
    from synkit.Graph.Matcher.subgraph_matcher import SubgraphSearchEngine
    from synkit.Graph.Matcher.automorphism import Automorphism
    from synkit.Graph.Matcher.auto_est import AutoEst

    pk, pat = pattern_for(rnd)
    pat = scramble(rnd, pat)
    host = scramble(rnd, host_for(rnd, pat))
    strategy = rnd.choice(["all", "all", "comp", "bt"])
    raw = SubgraphSearchEngine.find_subgraph_mappings(host, pat, node_attrs=NK, edge_attrs=EK, strategy=strategy, strict_cc_count=False)
    matches = [[[int(p), int(h)] for p, h in m.items()] for m in raw]
    if len(matches) > 120:
        idx = sorted(rnd.sample(range(len(matches)), 120))
        matches = [matches[i] for i in idx]
    mode = rnd.choice(["exact", "exact", "est", "host_only", "both", "pattern_no_anchor", "none", "foreign", "partial", "overlap", "empty_po", "anchor_only"])
    po = pa = ho = None
    if mode in ("exact", "both", "pattern_no_anchor", "partial", "foreign"):
        A = Automorphism(pat)
        po = [sorted(o) for o in A.orbits]
        pa = None if A.anchor_component is None else sorted(A.anchor_component)
        if mode == "pattern_no_anchor":
            pa = None
    if mode == "est":
        E = AutoEst(pat, node_attrs=NK + ["aromatic", "hcount"], edge_attrs=EK).fit()
        po = [sorted(o) for o in E.orbits]
        pa = sorted(E.anchor_component)
        if rnd.random() < 0.5:
            # anchor = one pattern node only, so that free orbits exist
            pa = [rnd.choice(sorted(pat.nodes))]
    if mode in ("host_only", "both"):
        ho = [sorted(o) for o in Automorphism(host).orbits]
    if mode == "foreign":
        # host orbits that do not cover every host node -> ValueError as soon as such a node is hit;
        # overlapping orbits (the later index wins)
        hs = sorted(host.nodes)
        ho = [sorted(rnd.sample(hs, rnd.randint(1, len(hs)))) for _ in range(rnd.randint(1, 3))]
    if mode == "empty_po":
        # pattern_orbits given but empty: falls back to the host-only signature (identity or host orbits)
        po = []
        pa = rnd.choice([None, []])
        if rnd.random() < 0.5:
            ho = [sorted(o) for o in Automorphism(host).orbits]
    if mode == "anchor_only":
        # an anchor without usable orbits: po = [] with an anchor (anchored placement only), or po = None (anchor ignored)
        po = rnd.choice([[], None])
        pa = sorted(rnd.sample(sorted(pat.nodes), rnd.randint(1, pat.number_of_nodes())))
        if po is None:
            ho = [sorted(o) for o in Automorphism(host).orbits]
    if mode == "overlap":
        # host "orbits" that cover every host node but overlap: the later index wins
        hs = sorted(host.nodes)
        ho = [hs] + [sorted(rnd.sample(hs, rnd.randint(1, max(1, len(hs) // 2)))) for _ in range(rnd.randint(1, 3))]
        if rnd.random() < 0.5:
            A = Automorphism(pat)
            po = [sorted(o) for o in A.orbits]
    if mode == "partial":
        matches = [[pr for pr in m if rnd.random() < 0.7] for m in matches]
    if matches and rnd.random() < 0.3:
        # exact duplicates and a reshuffled list
        matches = matches + [list(m) for m in rnd.sample(matches, min(3, len(matches)))]
        rnd.shuffle(matches)
    if matches and rnd.random() < 0.2:
        # same mapping, other dict order
        m = list(rnd.choice(matches))
        rnd.shuffle(m)
        matches.append(m)
    if po is not None and rnd.random() < 0.15:
        rnd.shuffle(po)
    info = None
    if mode in ("exact", "pattern_no_anchor"):
        # automorphisms of the pattern on (element, charge, order), by NetworkX directly (harness-side statistic only)
        from networkx.algorithms.isomorphism import GraphMatcher, categorical_node_match, categorical_edge_match
        gm = GraphMatcher(pat, pat, node_match=categorical_node_match(NK, ["*", 0]), edge_match=categorical_edge_match(EK, [1.0]))
        info = [dict(a) for a in gm.isomorphisms_iter()]
    form = None
    if rnd.random() < 0.35:
        # the documented argument types are Iterable[...]: other containers, one-shot iterators; host_anchor (ignored by design)
        hs = sorted(host.nodes)
        form = {"matches": rnd.choice(["list", "tuple", "iter"]), "orbits": rnd.choice(["list", "tuple", "iter"]),
                "orbit": rnd.choice(["frozenset", "set", "tuple", "list"]), "anchor": rnd.choice(["frozenset", "set"]),
                "host_anchor": rnd.choice([None, sorted(rnd.sample(hs, rnd.randint(0, len(hs)))), hs])}
    return f"{pk}/{strategy}/{mode}", matches, po, pa, ho, info, form


def is_sublist(small, big):
    it = iter(big)
    return all(any(x == y for y in it) for x in small)


def dedup_diffs(matches, po, pa, ho, model, form=None):
    impl = impl_dedup(matches, po, pa, ho, form)
    out = []
    if "kept" in impl and not is_sublist(impl["kept"], matches):
        out.append(("de-duplication result is not a sub-list of its input in the original order", True))
    if impl.get("error", "").startswith("not a list"):
        out.append(("de-duplication does not return a list (" + impl["error"] + ")", True))
    elif ("error" in impl) != ("error" in model):
        out.append(("de-duplication raises where the model does not (or vice versa)", False))
    elif "kept" in impl and impl["kept"] != model["kept"]:
        out.append(("de-duplication keeps other matches than the model", False))
    return out, impl


def run_dedup(ctx, cases, stream):
    reqs = [{"cmd": "aut.dedup", "matches": c[1], "pattern_orbits": c[2], "pattern_anchor": c[3], "host_orbits": c[4]} for c in cases]
    reps = ctx.lean().ok(reqs, shards=8)
    for case, model in zip(cases, reps):
        tag, ms, po, pa, ho = case[:5]
        info = case[5] if len(case) > 5 else None
        form = case[6] if len(case) > 6 else None
        if info is not None and "kept" in model:
            # recorded, not gated: dropped matches that are NOT a kept match composed with a pattern automorphism
            kept = [dict(map(tuple, k)) for k in model["kept"]]
            keptset = {tuple(sorted(k.items())) for k in kept}
            for m in ms:
                dm = dict(map(tuple, m))
                if tuple(sorted(dm.items())) in keptset:
                    continue
                related = any(tuple(sorted((p, dm[tau[p]]) for p in dm)) in keptset for tau in info)
                ctx.count("recorded:dropped_match_" + ("is_kept_match_composed_with_a_pattern_automorphism" if related
                                                        else "NOT_related_to_any_kept_match_by_a_pattern_automorphism"))
        diffs, impl = dedup_diffs(ms, po, pa, ho, model, form)
        mode = tag.split("/")[-1]
        ctx.count(f"{stream}:mode:{mode}")
        if form is not None:
            ctx.count(f"{stream}:call_form:matches={form['matches']}")
            ctx.count(f"{stream}:call_form:orbit_container={form['orbits']}/{form['orbit']}")
            ctx.count(f"{stream}:call_form:host_anchor=" + ("absent" if form["host_anchor"] is None else "given"))
            if form.get("ids"):
                ctx.count(f"{stream}:call_form:node_ids=" + form["ids"])
        ctx.count("dedup_matches_in", len(ms))
        if "kept" in model:
            ctx.count("dedup_matches_kept", len(model["kept"]))
            ctx.count("dedup_matches_merged", len(ms) - len(model["kept"]))
            ctx.count("dedup_case:" + ("merges" if len(model["kept"]) < len(ms) else "keeps_all"))
        else:
            ctx.count("dedup_case:ValueError")
        ctx.case([ms, po, pa, ho], nontrivial=len(ms) >= 2 and (po is not None or ho is not None),
                 sample={"stream": stream, "tag": tag, "matches": ms[:4], "pattern_orbits": po, "pattern_anchor": pa, "host_orbits": ho,
                         "kept": len(model.get("kept", []))} if 2 <= len(ms) <= 6 else None)
        if diffs:
            def fails(cand):
                m2 = ctx.lean().ok([{"cmd": "aut.dedup", "matches": cand, "pattern_orbits": po, "pattern_anchor": pa, "host_orbits": ho}])[0]
                return bool(dedup_diffs(cand, po, pa, ho, m2, form)[0])
            small = shrink_seq(ms, fails, budget=80)
            m2 = ctx.lean().ok([{"cmd": "aut.dedup", "matches": small, "pattern_orbits": po, "pattern_anchor": pa, "host_orbits": ho}])[0]
            d2, impl2 = dedup_diffs(small, po, pa, ho, m2, form)
            what, spec_violated = (d2 or diffs)[0]
            ctx.violation(what, dict({"kind": "dedup", "matches": small, "pattern_orbits": po, "pattern_anchor": pa, "host_orbits": ho},
                                     **({"form": form} if form is not None else {})),
                          {"impl": impl2, "model": m2, "stream": stream, "tag": tag}, no_input=not spec_violated)
            if len(ctx.violations) >= 5:
                return


# ---------------------------------------------------------------- reactor histories (last clause of C11)
# "the symmetry pruning used during rule application never changes the set of distinct reactions obtained compared with
# applying the rule at every match" — checked on the real SynReactor, per query, INSIDE A HISTORY of queries that share one
# process: the same template under several atom-map numberings (a permutation of its numbers; an injection into other
# numbers, as for templates from different sources), repeated, in random order, with `automorphism` on and off, strategies
# all/comp/bt, the template handed over as ITS graph / reaction string / a SynRule object shared between the steps, the
# substrate rewritten; optionally interleaved with the queries of a second (template, substrate) pair.  Every history runs
# in a freshly forked process (so a history is exactly reproducible), and the reference of a step — the set obtained by
# gluing EVERY raw match of that very query through the reactor's own internals — does not go through the pruning at all.
def _renumber_injective(rsmi, seed):
    """The same mapped reaction with its atom-map numbers sent injectively into OTHER numbers (1 .. 3n+5)."""
    import random as _random
    from rdkit import Chem

    RC._quiet()
    rnd = _random.Random(seed)
    rs, ps = rsmi.split(">>")
    mr, mp = RC._mol_keep_h(rs), RC._mol_keep_h(ps)
    maps = sorted({a.GetAtomMapNum() for m in (mr, mp) for a in m.GetAtoms() if a.GetAtomMapNum()})
    table = dict(zip(maps, rnd.sample(range(1, 3 * len(maps) + 6), len(maps))))
    for m in (mr, mp):
        for a in m.GetAtoms():
            if a.GetAtomMapNum():
                a.SetAtomMapNum(table[a.GetAtomMapNum()])
    out = Chem.MolToSmiles(mr) + ">>" + Chem.MolToSmiles(mp)
    if [RC.canon_unmapped(x) for x in out.split(">>")] != [RC.canon_unmapped(x) for x in rsmi.split(">>")]:
        raise RC.RewriteFailed("renumbering changed the molecules: " + rsmi)
    return out


PRUNE_MAX_GROUP, PRUNE_MAX_RAW = 60, 200


def _prune_record(reactor, pattern, raw, kept, prune):
    """Inputs and outputs of the pruning routine for the model comparison (`rinv.prune_partial`): the pattern nodes, the rule's
    automorphisms restricted to them - enumerated afresh with the very GraphMatcher call `_prune_by_rule_automorphisms` makes, serialised as
    harness/props/c05.py serialises them for `rinv.prune` -, the raw matches in the order the routine saw them (partial ones included), what
    the reactor kept under the default bound, and what direct calls keep under bounds at and around the group size.  None: not encodable
    (ids that are no naturals) or beyond the size bounds."""
    import networkx as nx

    def nat(x):
        return isinstance(x, int) and not isinstance(x, bool) and x >= 0

    keep = list(pattern.nodes())
    rcg = reactor.rule.rc.raw
    if len(raw) > PRUNE_MAX_RAW or not all(nat(x) for x in keep) or not all(nat(x) for x in rcg.nodes()) \
            or not all(nat(a) and nat(b) for m in raw for a, b in m.items()):
        return None
    keepset = set(keep)
    gm = nx.algorithms.isomorphism.GraphMatcher(
        rcg, rcg, node_match=lambda a, b: a.get("typesGH") == b.get("typesGH"), edge_match=lambda a, b: a.get("order") == b.get("order"))
    group = []
    for sigma in gm.isomorphisms_iter():
        group.append(sorted([int(x), int(y)] for x, y in sigma.items() if x in keepset))
        if len(group) > PRUNE_MAX_GROUP:
            return None

    def enc(ms):
        return [sorted([int(a), int(b)] for a, b in m.items()) for m in ms]

    rec = {"keep": sorted(int(x) for x in keep), "group": group, "raw_ordered": enc(raw), "calls": []}
    if kept is not None:
        rec["calls"].append({"max_group": 5040, "via": "reactor.mappings", "kept_ordered": enc(kept)})
    for g in sorted({0, max(len(group) - 1, 0), len(group)}):
        try:
            ku = prune([dict(m) for m in raw], rcg, list(keep), max_group=g)
            rec["calls"].append({"max_group": g, "via": "direct call", "kept_ordered": enc(ku)})
        except RC.CaseTimeout:
            raise
        except Exception as e:  # noqa: BLE001 - an exception of the routine is an outcome the model has too (KeyError / ValueError)
            rec["calls"].append({"max_group": g, "via": "direct call", "raised": type(e).__name__})
    return rec


def _history_step(sr, std, step, rules):
    """One SynReactor query.  -> {status, results, results_raw, n_raw, n_map}"""
    from synkit.IO.chem_converter import rsmi_to_its

    out = {"status": "ok", "results": None, "results_raw": None, "n_raw": None, "n_map": None}
    kw = RC._mode_kwargs(step["mode"])
    tform = step["tform"]
    if tform == "string" and step["core"]:
        tform = "graph"
    if tform == "string":
        tpl = step["template"]
    else:
        tpl = rsmi_to_its(step["template"], core=step["core"])
        if tform == "rule":
            # one SynRule object per (template text, centre/full, mode), shared by the steps of the history
            key = (step["template"], step["core"], step["mode"])
            if key not in rules:
                # built exactly as SynReactor._wrap_template builds it from a graph
                rules[key] = sr.SynRule(tpl, canonicaliser=sr.GraphCanonicaliser(), **({"implicit_h": False} if kw.get("implicit_temp") else {}))
            tpl = rules[key]
    calls = []
    patterns = []
    every = []
    orig = sr.SubgraphSearchEngine
    orig_pm = getattr(sr, "PartialMatcher", None)
    partial = bool(step.get("partial"))

    class Recorder(orig):  # what the search returned, before any pruning
        @staticmethod
        def find_subgraph_mappings(*a, **k):
            r = orig.find_subgraph_mappings(*a, **k)
            calls.append(r)
            patterns.append(k.get("pattern"))
            return r

    if partial:
        class RecorderPM(orig_pm):  # partial=True: what the partial matcher handed to the reactor, and EVERY match it found
            def __init__(self, *a, **k):
                super().__init__(*a, **k)
                calls.append(list(self.get_mappings()))
                patterns.append(k.get("pattern"))
                # the same search without the matcher's own (host-orbit) pruning: every match, partial ones included
                every.append(list(orig_pm(*a, **dict(k, prune_auto=False)).get_mappings()))

    sub = step["substrate"]
    if step.get("sform") == "syngraph":
        # one SynGraph object per substrate text, built exactly as SynReactor._wrap_input builds it, shared by the steps
        key = ("substrate", sub)
        if key not in rules:
            from synkit.IO.chem_converter import smiles_to_graph
            rules[key] = sr.SynGraph(smiles_to_graph(sub, use_index_as_atom_map=False, drop_non_aam=False), sr.GraphCanonicaliser())
        sub = rules[key]
    if step.get("ctor") == "from_smiles" and isinstance(sub, str) and not partial:
        # the documented alternate constructor (it has no `partial` parameter)
        reactor = sr.SynReactor.from_smiles(sub, tpl, invert=step["invert"], strategy=step["strategy"], automorphism=step["automorphism"], **kw)
    else:
        reactor = sr.SynReactor(sub, tpl, invert=step["invert"], strategy=step["strategy"],
                                automorphism=step["automorphism"], **(dict(kw, partial=True) if partial else kw))
    if partial:
        sr.PartialMatcher = RecorderPM
    else:
        sr.SubgraphSearchEngine = Recorder
    pruned_error = None
    maps = None
    try:
        try:
            maps = reactor.mappings
            out["n_map"] = len(maps)
        except RC.CaseTimeout:
            raise
        except Exception as e:  # noqa: BLE001
            if not calls:
                raise            # the search itself (or the preparation of the inputs) failed: no pruning involved
            pruned_error = type(e).__name__
    finally:
        sr.SubgraphSearchEngine = orig
        if partial:
            sr.PartialMatcher = orig_pm
    raw = [dict(m) for m in calls[0]] if calls else None
    out["n_raw"] = None if raw is None else len(raw)
    if partial and raw is not None and patterns and patterns[0] is not None:
        npat = patterns[0].number_of_nodes()
        out["n_partial"] = sum(1 for m in raw if len(m) < npat)
        out["n_every"] = len(every[0]) if every else None

    def fitted(smarts):
        res = set()
        for x in smarts:
            try:
                f = std.fit(x)
            except RC.CaseTimeout:
                raise
            except Exception:  # noqa: BLE001
                f = None
            if f is not None:
                res.add(f)
        return sorted(res)

    if pruned_error is None:
        out["results"] = fitted(list(reactor.smarts_list))
    else:
        out["status"] = "pruning-raised:" + pruned_error
    if raw is not None:
        reactor._mappings = raw          # glue EVERY raw match through the reactor's own internals (no pruning)
        reactor._its = None
        reactor._smarts = None
        out["results_raw"] = fitted(list(reactor.smarts_list))
        if partial and every:
            reactor._mappings = [dict(m) for m in every[0]]
            reactor._its = None
            reactor._smarts = None
            out["results_every"] = fitted(list(reactor.smarts_list))
        # the documented fall-back of the pruning ("if the rule has more than max_group automorphisms nothing is pruned"),
        # reached through the pruning routine's own parameter: every match must come back, in the order given
        prune = getattr(sr.SynReactor, "_prune_by_rule_automorphisms", None)
        if prune is not None and len(raw) >= 2 and patterns and patterns[0] is not None and step.get("overflow", True):
            try:
                back = prune([dict(m) for m in raw], reactor.rule.rc.raw, list(patterns[0].nodes()), max_group=0)
                same = [dict(m) for m in back] == raw
                out["overflow"] = "all-kept" if same else "differs"
                if not same:
                    reactor._mappings = [dict(m) for m in back]
                    reactor._its = None
                    reactor._smarts = None
                    out["results_overflow"] = fitted(list(reactor.smarts_list))
                    out["n_overflow"] = len(back)
            except RC.CaseTimeout:
                raise
            except Exception as e:  # noqa: BLE001
                out["overflow"] = "raised:" + type(e).__name__
        # the routine against its model: inputs / outputs of the pruning of this step (gate model-prune in run_histories)
        if prune is not None and len(raw) >= 2 and patterns and patterns[0] is not None and step.get("model_prune", True):
            out["prune"] = _prune_record(reactor, patterns[0], raw, None if (pruned_error or maps is None) else [dict(m) for m in maps], prune)
            if out["prune"] is None:
                out["prune_skipped"] = True
    return out


def history_task(task):
    """Worker entry (fresh process per task).  task: {key, steps: [step...], timeout}"""
    import signal
    import time

    t0 = time.time()
    RC._ALARM["fired"] = False
    outs = []
    try:
        signal.setitimer(signal.ITIMER_REAL, float(task.get("timeout", 30)))
        import synkit.Synthesis.Reactor.syn_reactor as sr
        from synkit.Chem.Reaction.standardize import Standardize

        std = Standardize()
        rules = {}
        for step in task["steps"]:
            try:
                outs.append(_history_step(sr, std, step, rules))
            except RC.CaseTimeout:
                raise
            except Exception as e:  # noqa: BLE001 - an exception of the implementation is an outcome of that step
                outs.append({"status": "error:" + type(e).__name__, "error": str(e)[:200]})
    except RC.CaseTimeout:
        pass
    finally:
        signal.setitimer(signal.ITIMER_REAL, 0)
    while len(outs) < len(task["steps"]):
        outs.append({"status": "timeout"})
    return {"key": task["key"], "steps": outs, "wall": round(time.time() - t0, 3)}


def _history_child(conn, task):
    try:
        RC._worker_init()
        conn.send(history_task(task))
    finally:
        conn.close()


class HistoryPool:
    """One freshly forked child per history (forked from the main thread, at most `workers` alive): a history never sees the
    state another history left behind.  A child that does not answer within its time-out plus a margin (or dies) is killed and
    its history counted as timed out; nothing can block the harness."""

    def __init__(self, workers=None):
        import multiprocessing as mp
        import os

        import synkit.Synthesis.Reactor.syn_reactor  # noqa: F401 - imported once here so that the children need not
        import synkit.Chem.Reaction.standardize  # noqa: F401
        import synkit.IO.chem_converter  # noqa: F401
        self.mp = mp.get_context("fork")
        self.n = workers or min(12, os.cpu_count() or 4)
        self.live = {}

    def run(self, tasks):
        import time
        from multiprocessing.connection import wait

        res, todo = {}, list(tasks)[::-1]

        def lost(task):
            return {"key": task["key"], "steps": [{"status": "timeout"} for _ in task["steps"]], "wall": None}

        while todo or self.live:
            while todo and len(self.live) < self.n:
                task = todo.pop()
                rd, wr = self.mp.Pipe(duplex=False)
                proc = self.mp.Process(target=_history_child, args=(wr, task), daemon=True)
                proc.start()
                wr.close()
                self.live[rd] = (proc, task, time.time() + float(task.get("timeout", 30)) + 15.0)
            for rd in wait(list(self.live), timeout=1.0):
                proc, task, _ = self.live.pop(rd)
                try:
                    res[task["key"]] = rd.recv()
                except (EOFError, OSError):
                    res[task["key"]] = lost(task)      # the child died without an answer
                rd.close()
                proc.join(5)
                if proc.is_alive():
                    proc.kill()
            now = time.time()
            for rd in [r for r, (_, _, dl) in self.live.items() if now > dl]:
                proc, task, _ = self.live.pop(rd)
                proc.kill()
                proc.join(5)
                rd.close()
                res[task["key"]] = lost(task)
        return [res[t["key"]] for t in tasks]

    def close(self):
        for rd, (proc, _, _) in list(self.live.items()):
            proc.kill()
            proc.join(5)
            rd.close()
        self.live.clear()


def step_verdict(r):
    """-> None | (what, detail): the C11 gate on one step, from that step's own two result sets"""
    if r["status"].startswith("pruning-raised") and r.get("results_raw"):
        return ("rule application raises inside the symmetry pruning although applying the rule at every raw match gives reactions",
                {"error": r["status"], "every_raw_match": len(r["results_raw"]), "raw_matches": r["n_raw"]})
    if r["status"] != "ok" or r.get("results") is None or r.get("results_raw") is None:
        return None
    cmp = C05._Cmp()
    if r.get("overflow", "all-kept") != "all-kept":
        if r["overflow"].startswith("raised") or not cmp.equal(r["results_raw"], r.get("results_overflow") or []):
            return ("the pruning's fall-back for rules with more than max_group automorphisms (max_group=0 here) does not keep the set of "
                    "distinct reactions of every raw match", {"overflow": r["overflow"], "raw_matches": r["n_raw"], "returned": r.get("n_overflow"),
                                                              "every_raw_match": len(r["results_raw"]), "fall_back": len(r.get("results_overflow") or [])})
    if r.get("results_every") is not None:
        # partial=True, full strength: the reference is EVERY match of PartialMatcher(prune_auto=False), partial ones included
        if not cmp.subset(r["results"], r["results_every"]):
            return ("rule application with partial=True returns a reaction that no match of the partial matcher gives",
                    {"gained": sorted(set(r["results"]) - set(r["results_every"]))[:6], "every_match": r.get("n_every"), "kept_matches": r["n_map"]})
        if not cmp.equal(r["results_every"], r["results"]):
            return ("symmetry pruning under partial=True changes the set of distinct reactions compared with applying the rule at every match "
                    "of the partial matcher",
                    {"reference": "every match of PartialMatcher(prune_auto=False) for this very step, glued by the reactor's own internals",
                     "every_match": r.get("n_every"), "matches_handed_to_the_rule_pruning": r["n_raw"], "kept_matches": r["n_map"],
                     "with_pruning": len(r["results"]), "from_every_match": len(r["results_every"]),
                     "lost": sorted(set(r["results_every"]) - set(r["results"]))[:6]})
    if cmp.equal(r["results_raw"], r["results"]):
        return None
    return ("symmetry pruning changes the set of distinct reactions compared with applying the rule at every raw match",
            {"reference": r.get("reference", "every raw match of this very step, glued by the reactor's own internals"),
             "raw_matches": r["n_raw"], "kept_matches": r["n_map"], "with_pruning": len(r["results"]), "every_raw_match": len(r["results_raw"]),
             "lost": sorted(set(r["results_raw"]) - set(r["results"]))[:6], "gained": sorted(set(r["results"]) - set(r["results_raw"]))[:6]})


def reactor_bases(ctx, n_rxn, max_atoms):
    """(template, substrate) pairs as C03-C05 draw them: the hand-written symmetric pairs of corpus/c05_extra.txt and a seeded
    sample of corpus reactions x {centre, full ITS} x {forward, backward} x {own side, a foreign corpus side}."""
    bases = [dict(b, name=b["name"]) for b in C05.extra_cases(ctx, 0)]
    corpus = RC.load_corpus()
    small = []
    for rid, rs in corpus:
        if rs.count(":") <= max_atoms:      # cheap pre-selection before the RDKit analysis
            small.append((rid, rs))
    infos = {rid: RC.analyze_reaction(rs) for rid, rs in small}
    bases += C05.build_cases(ctx, small, infos, n_rxn, 0, max_atoms)
    return [{k: b[k] for k in ("name", "template", "core", "invert", "mode", "substrate")} for b in bases]


def make_history(rnd, bases_of_history):
    """A random history over one or two (template, substrate) pairs.  Every numbering of a template occurs at least once with
    automorphism=True, at least one query is repeated verbatim, the order is random."""
    steps = []
    share = rnd.random() < 0.35      # every step hands over shared SynRule / SynGraph objects (state kept on those objects)
    for b in bases_of_history:
        tvars = [b["template"]]
        for fn in (RC.renumber_reaction, _renumber_injective):
            try:
                tvars.append(fn(b["template"], rnd.randrange(1, 2**30)))
            except Exception:  # noqa: BLE001 - the harness's own self-check of the rewriting failed: variant not used
                pass
        if rnd.random() < 0.4:
            try:
                tvars.append(_renumber_injective(b["template"], rnd.randrange(1, 2**30)))
            except Exception:  # noqa: BLE001
                pass
        svars = [b["substrate"], RC.rewrite_smiles(b["substrate"], rnd.randrange(1, 2**30))]

        def step(t, auto):
            return {"template": t, "core": b["core"], "invert": b["invert"], "mode": b["mode"],
                    "substrate": svars[0] if rnd.random() < 0.6 else svars[1],
                    "strategy": rnd.choice(["all", "all", "all", "comp", "bt"]),
                    "tform": "rule" if share else rnd.choice(["graph", "graph", "rule", "string"]),
                    "sform": "syngraph" if (share or rnd.random() < 0.2) else "smiles",
                    "automorphism": auto}
        mine = [step(t, True) for t in tvars]
        for st in mine:
            if st["sform"] == "smiles" and rnd.random() < 0.25:
                st["ctor"] = "from_smiles"
        for _ in range(rnd.randint(1, 3)):
            mine.append(step(rnd.choice(tvars), rnd.random() < 0.6))
        mine.append(dict(rnd.choice(mine)))          # a verbatim repetition
        steps += mine
    rnd.shuffle(steps)
    return steps


def eval_histories(pool, histories, timeout, tag="h"):
    """Run every history in its own fresh process.  A step in which the implementation answered WITHOUT calling the search (so
    that there are no raw matches of that step to glue) gets its reference from the same query asked alone in a fresh process:
    the reference of a query never depends on the history."""
    results = pool.run([{"key": f"{tag}{i}", "steps": h, "timeout": timeout} for i, h in enumerate(histories)])
    need = [(i, k) for i, res in enumerate(results) for k, r in enumerate(res["steps"])
            if r["status"] == "ok" and r.get("results") is not None and r.get("results_raw") is None]
    if need:
        fresh = pool.run([{"key": f"{tag}f{j}", "steps": [histories[i][k]], "timeout": timeout} for j, (i, k) in enumerate(need)])
        for (i, k), f in zip(need, fresh):
            r, f0 = results[i]["steps"][k], f["steps"][0]
            r["results_raw"], r["n_raw"], r["reference"] = f0.get("results_raw"), f0.get("n_raw"), "same query alone in a fresh process"
    return results


def model_prune_gate(ctx, pool, histories, results, timeout, stream, shrink=True):
    """Gate model-prune: what `_prune_by_rule_automorphisms` keeps == what the Lean model `pruneWithCap` keeps (`rinv.prune_partial`), as
    ordered lists, on the automorphism group and the raw matches (partial ones included) recorded in the step.  -> number of differences"""
    jobs, reqs = [], []
    for hi, res in enumerate(results):
        for si, r in enumerate(res["steps"]):
            if r.get("prune_skipped"):
                ctx.count(f"{stream}:model_prune:step_not_encodable_or_beyond_the_size_bounds")
            pr = r.get("prune")
            if not pr:
                continue
            for c in pr["calls"]:
                jobs.append((hi, si, c))
                reqs.append(dict(cmd="rinv.prune_partial", keep=pr["keep"], group=pr["group"], matches=pr["raw_ordered"], max_group=c["max_group"]))
    if not reqs:
        return 0
    answers = ctx.lean().ok(reqs, shards=8)
    diffs = []
    for (hi, si, c), ans in zip(jobs, answers):
        pr = results[hi]["steps"][si]["prune"]
        npat = len(pr["keep"])
        has_partial = any(len(m) < npat for m in pr["raw_ordered"])
        ctx.count(f"{stream}:model_prune:calls_compared")
        ctx.count(f"{stream}:model_prune:via " + c["via"])
        if has_partial:
            ctx.count(f"{stream}:model_prune:calls_with_partial_matches_among_the_raw_matches")
        ctx.count(f"{stream}:model_prune:bound " + ("below" if c["max_group"] < len(pr["group"]) else "at or above") + " the group size")
        impl = ("raised", c["raised"]) if "raised" in c else ("ok", c["kept_ordered"])
        model = ("ok", ans["kept"]) if ans["status"] == "ok" else ("raised", ans["status"])
        if impl[0] == "ok" and len(impl[1]) < len(pr["raw_ordered"]):
            ctx.count(f"{stream}:model_prune:calls_where_the_routine_removed_matches")
            if has_partial:
                ctx.count(f"{stream}:model_prune:calls_where_the_routine_removed_matches_next_to_partial_ones")
        if impl[0] == "raised":
            ctx.count(f"{stream}:model_prune:routine_raised:" + impl[1])
        if impl != model:
            diffs.append((hi, si, c, model))
    if not diffs:
        return 0
    # classify by the specification: is what the routine kept an admissible pruning (PruneSpec)?
    sreqs = [dict(cmd="rinv.prune_spec", keep=results[hi]["steps"][si]["prune"]["keep"], group=results[hi]["steps"][si]["prune"]["group"],
                  matches=results[hi]["steps"][si]["prune"]["raw_ordered"], kept=c.get("kept_ordered", []))
             for hi, si, c, _ in diffs]
    specs = ctx.lean().ok(sreqs)
    reported = set()
    for (hi, si, c, model), spec_ok in zip(diffs, specs):
        if (hi, si) in reported or len(ctx.violations) >= 5:
            continue
        reported.add((hi, si))
        h, pr = histories[hi], results[hi]["steps"][si]["prune"]
        spec_ok = bool(spec_ok) and "raised" not in c
        prefix = h[:si + 1]
        if shrink and si:
            # the routine is a static method of its arguments: try the failing query alone in a fresh process
            rr = eval_histories(pool, [[h[si]]], timeout, "m")[0]["steps"][0]
            if rr.get("prune") and any(cc["max_group"] == c["max_group"] and cc["via"] == c["via"] and cc.get("kept_ordered") == c.get("kept_ordered")
                                       and cc.get("raised") == c.get("raised") for cc in rr["prune"]["calls"]) \
                    and rr["prune"]["raw_ordered"] == pr["raw_ordered"] and rr["prune"]["group"] == pr["group"]:
                prefix = [h[si]]
        npat = len(pr["keep"])
        detail = {"stream": stream, "gate": "model-prune", "call": c["via"], "max_group": c["max_group"], "pattern_nodes": pr["keep"],
                  "rule_automorphisms_on_the_pattern": pr["group"], "raw_matches": pr["raw_ordered"],
                  "partial_raw_matches": sum(1 for m in pr["raw_ordered"] if len(m) < npat),
                  "routine": {"raised": c["raised"]} if "raised" in c else {"kept": c["kept_ordered"]},
                  "model(pruneWithCap)": {"raised": model[1]} if model[0] == "raised" else {"kept": model[1]},
                  "PruneSpec(sub-list; every raw match kept or related to a kept one by rule automorphisms; partial matches kept)": spec_ok,
                  "failing_step": len(prefix) - 1, "template": prefix[-1]["template"], "substrate": prefix[-1]["substrate"]}
        if spec_ok:
            ctx.violation("correspondence broken: SynReactor._prune_by_rule_automorphisms keeps other matches than the model ReactorInv.pruneWithCap "
                          "on the same rule automorphisms and raw matches (what it keeps still is an admissible pruning: PruneSpec holds)",
                          {"kind": "reactor-history", "steps": prefix}, detail, no_input=True)
        else:
            ctx.violation("the symmetry pruning of rule application " + ("raises" if "raised" in c else "does not keep an admissible selection of the raw "
                          "matches: a dropped match (a partial one, or one with no kept match related to it by an automorphism of the rule) or an "
                          "invented / reordered one") + "; the model ReactorInv.pruneWithCap differs on the same inputs",
                          {"kind": "reactor-history", "steps": prefix}, detail)
    return len(reported)


def run_histories(ctx, pool, histories, timeout, stream, shrink=True):
    """histories: list of step lists"""
    results = eval_histories(pool, histories, timeout, stream)
    bad = 0
    for h, res in zip(histories, results):
        ctx.count(f"{stream}:histories")
        seen_q = {}
        for i, (st, r) in enumerate(zip(h, res["steps"])):
            ctx.count("reactor_step_status:" + r["status"].split(":")[0])
            if r["status"].startswith("error"):
                ctx.count("reactor_impl_exception:" + r["status"][6:])
            if r["status"] == "timeout" or r["status"].startswith("error"):
                continue
            n_raw = r["n_raw"] or 0
            ctx.count("reactor_raw_matches:" + ("0" if n_raw == 0 else "1" if n_raw == 1 else "2-9" if n_raw <= 9 else "10+"))
            if r.get("reference"):
                ctx.count("reactor_steps_answered_without_a_search_call(reference: the same query alone in a fresh process)")
            if r.get("n_map") is not None and r["n_map"] < n_raw:
                ctx.count("reactor_steps_where_pruning_removed_matches")
            if r.get("results_raw") is not None:
                n = len(r["results_raw"])
                ctx.count("reactor_distinct_reactions:" + ("0" if n == 0 else "1" if n == 1 else "2-4" if n <= 4 else "5+"))
                if stream != "reactor":
                    ctx.count(f"{stream}:steps")
                    if n >= 2 and n_raw >= 2:
                        ctx.count(f"{stream}:steps_with_>=2_raw_matches_and_>=2_distinct_reactions")
                    if r.get("n_map") is not None and r["n_map"] < n_raw:
                        ctx.count(f"{stream}:steps_where_pruning_removed_matches")
            if r.get("overflow"):
                ctx.count("reactor_pruning_fall_back(max_group exceeded):" + r["overflow"].split(":")[0])
            if st.get("partial"):
                ctx.count(f"{stream}:partial_steps")
                if r.get("n_partial"):
                    ctx.count(f"{stream}:partial_steps_with_partial_matches_handed_to_the_rule_pruning")
                if r.get("n_every") is not None and r.get("n_raw") is not None and r["n_every"] > r["n_raw"]:
                    ctx.count(f"{stream}:partial_steps_where_the_matcher's_host_orbit_pruning_removed_matches")
                if r.get("results_every") is not None and r.get("results") is not None:
                    ctx.count(f"{stream}:partial_steps_compared_with_every_match_of_the_partial_matcher")
                    if len(r["results_every"]) >= 2:
                        ctx.count(f"{stream}:partial_steps_with_>=2_distinct_reactions_from_every_match")
            ctx.count("reactor_automorphism:" + ("on" if st["automorphism"] else "off"))
            ctx.count("reactor_strategy:" + st["strategy"])
            ctx.count("reactor_template_form:" + ("graph" if (st["tform"] == "string" and st["core"]) else st["tform"]))
            ctx.count("reactor_substrate_form:" + st.get("sform", "smiles"))
            if st.get("ctor") == "from_smiles" and st.get("sform", "smiles") == "smiles" and not st.get("partial"):
                ctx.count("reactor_constructor:SynReactor.from_smiles")
            q = json.dumps(st, sort_keys=True)
            if q in seen_q:
                ctx.count("reactor_steps_repeating_an_earlier_query")
                if r.get("results_raw") is not None and seen_q[q] is not None and r["results_raw"] != seen_q[q]:
                    ctx.count("recorded:every_raw_match_set_differs_from_the_first_time_this_query_was_asked(not gated here; C05)")
            else:
                seen_q[q] = r.get("results_raw")
            if i and any(p["template"] != st["template"] and C05.rc_key_of(p["template"]) == C05.rc_key_of(st["template"]) for p in h[:i]):
                ctx.count("reactor_steps_after_another_numbering_of_the_template")
            ctx.case({"kind": "reactor-history", "steps": h[:i + 1]}, nontrivial=n_raw >= 2,
                     sample={"stream": stream, "step": i, "template": st["template"], "substrate": st["substrate"], "raw_matches": n_raw,
                             "distinct_reactions": len(r.get("results_raw") or [])} if (i >= 2 and n_raw >= 2) else None)
            v = step_verdict(r)
            if v is None:
                continue
            bad += 1
            what, detail = v
            prefix = h[:i + 1]
            if shrink:
                last = h[i]

                def fails(cand):
                    rr = eval_histories(pool, [list(cand) + [last]], timeout, "s")[0]["steps"][-1]
                    vv = step_verdict(rr)
                    return vv is not None and vv[0] == what
                prefix = shrink_seq(h[:i], fails, budget=24) + [last]
                rr = eval_histories(pool, [prefix], timeout, "s")[0]["steps"][-1]
                vv = step_verdict(rr)
                if vv is not None:
                    detail = vv[1]
                else:
                    prefix = h[:i + 1]
            ctx.violation(what, {"kind": "reactor-history", "steps": prefix},
                          dict(detail, stream=stream, failing_step=len(prefix) - 1,
                               needs_history=len(prefix) > 1, template=prefix[-1]["template"], substrate=prefix[-1]["substrate"]))
            break
        if len(ctx.violations) >= 5:
            break
    if len(ctx.violations) < 5:
        nbad = model_prune_gate(ctx, pool, histories, results, timeout, stream, shrink)
        ctx.extra["model_prune_differences"] = ctx.extra.get("model_prune_differences", 0) + nbad
        bad += nbad
    return bad


# ---------------------------------------------------------------- generated symmetric-skeleton rules (reactor clause, rare inputs)
# The corpora the reactor stream draws from hold no rule whose centre is symmetric in EVERYTHING but one attribute of the rule:
# there the asymmetry of a rule always shows in an element, a bond change or the structure as well, so a comparison of rule atoms
# / rule bonds that forgets one attribute (the product-side charge, a hydrogen count, one side of a bond-order pair) still finds
# the right automorphism group.  This generator ENUMERATES such rules: a small skeleton with a known symmetry (two equal ends of
# a bond that changes, X=Y=X, two equal components, 4- and 6-cycles of changed bonds), optionally with equal context atoms on the
# exchanged positions, and exactly ONE breaker drawn from {charge, hydrogen count, bond order} x {left, right side as written} x
# {balanced (+d on an atom, -d on its image) / one position only}; or no breaker (control: the rule IS symmetric and pruning has
# legitimate work to do).  Rules are applied forwards and backwards (so that the broken attribute sits on the before- as well as
# on the after-side of the rule as applied), as centre and as full template, to substrates grown from the matched side by
# saturating every open valence with hydrogen / a random substituent / nothing (a radical centre), so that the positions the
# skeleton's symmetry exchanges are usually chemically different and the two orientations of a match give different reactions.
# The gate is the one of the reactor stream (pruned result set == set from gluing every raw match of the same query).
SYM_ORDER = {1: "SINGLE", 2: "DOUBLE", 3: "TRIPLE"}

# name, element choices for (X, Y), atoms (as X / Y), bonds before, bonds after, symmetries (image of atom i at position i-1)
SYM_SKELETONS = [
    ("pi2", [("C", None), ("N", None)], "XX", {(1, 2): 2}, {(1, 2): 1}, [(2, 1)]),
    ("sigma2", [("O", None), ("S", None), ("N", None), ("C", None)], "XX", {(1, 2): 1}, {}, [(2, 1)]),
    ("triple2", [("C", None)], "XX", {(1, 2): 3}, {(1, 2): 2}, [(2, 1)]),
    ("single_to_double2", [("C", None), ("N", None)], "XX", {(1, 2): 1}, {(1, 2): 2}, [(2, 1)]),
    ("cumulene3", [("N", "C"), ("C", "C"), ("O", "C"), ("O", "S")], "XYX", {(1, 2): 2, (2, 3): 2}, {(1, 2): 1, (2, 3): 1}, [(3, 2, 1)]),
    ("path3", [("C", "C"), ("C", "N"), ("C", "O"), ("O", "C")], "XYX", {(1, 2): 1, (2, 3): 1}, {(1, 2): 2, (2, 3): 2}, [(3, 2, 1)]),
    ("path3_break", [("C", "C"), ("C", "O"), ("C", "S"), ("O", "C")], "XYX", {(1, 2): 1, (2, 3): 1}, {}, [(3, 2, 1)]),
    ("dimer4", [("C", None)], "XXXX", {(1, 2): 2, (3, 4): 2}, {(1, 2): 1, (2, 3): 1, (3, 4): 1}, [(4, 3, 2, 1)]),
    ("cyclo4", [("C", None)], "XXXX", {(1, 2): 2, (3, 4): 2}, {(1, 2): 1, (3, 4): 1, (1, 3): 1, (2, 4): 1},
     [(2, 1, 4, 3), (3, 4, 1, 2), (4, 3, 2, 1)]),
    ("metathesis4", [("C", None)], "XXXX", {(1, 2): 2, (3, 4): 2}, {(1, 3): 2, (2, 4): 2}, [(2, 1, 4, 3), (3, 4, 1, 2), (4, 3, 2, 1)]),
    ("coupling4", [("C", "O"), ("C", "S"), ("C", "N")], "XYYX", {(1, 2): 1, (3, 4): 1}, {(2, 3): 1, (1, 4): 1}, [(4, 3, 2, 1)]),
    ("diels_alder6", [("C", None)], "XXXXXX", {(1, 2): 2, (2, 3): 1, (3, 4): 2, (5, 6): 2},
     {(1, 2): 1, (2, 3): 2, (3, 4): 1, (4, 5): 1, (5, 6): 1, (1, 6): 1}, [(4, 3, 2, 1, 6, 5)]),
]
SYM_ATTRS = ("charge", "charge", "charge", "hcount", "hcount", "order", "none")
SYM_GROUPS = ["C", "CC", "C(C)C", "F", "Cl", "OC", "CCC", "C(C)(C)C", "N(C)C", "C#N", "c1ccccc1", "C(F)(F)F"]
SYM_HETERO_GROUPS = ["C", "CC", "C(C)C", "CCC", "C(C)(C)C", "c1ccccc1", "CCF"]
SYM_SPECTATORS = ["O", "CCO", "N", "CC(C)=O", "ClCCl", "c1ccccc1", "C=CC#N", "CC=O", "COO", "C[N+](C)(C)C"]


def _sym_side_smiles(atoms, bonds):
    """atoms: {map: (element, charge, hcount)}; bonds: {(i, j): order}.  Written with RDKit, every atom in brackets with its
    hydrogen count as given (an atom written without hydrogens is read back as a radical, as rule collections write centres)."""
    from rdkit import Chem

    rw = Chem.RWMol()
    idx = {}
    for m in sorted(atoms):
        el, q, h = atoms[m]
        a = Chem.Atom(el)
        a.SetFormalCharge(q)
        a.SetNoImplicit(True)
        a.SetNumExplicitHs(h)
        a.SetAtomMapNum(m)
        idx[m] = rw.AddAtom(a)
    for (i, j), o in sorted(bonds.items()):
        if o:
            rw.AddBond(idx[i], idx[j], getattr(Chem.BondType, SYM_ORDER[o]))
    mol = rw.GetMol()
    mol.UpdatePropertyCache(strict=False)
    return Chem.MolToSmiles(mol)


def sym_rule(rnd, forced_attr=None):
    """One generated rule.  -> {name, template, skeleton, attr, side, balanced, context, sigma_broken} or None when RDKit refuses
    to read the rule back as written (the generator's own self-check)."""
    name, elem_choices, shape, lb, rb, syms = rnd.choice(SYM_SKELETONS)
    X, Y = rnd.choice(elem_choices)
    n = len(shape)
    el = {i + 1: (X if ch == "X" else Y) for i, ch in enumerate(shape)}
    attr = forced_attr or rnd.choice(SYM_ATTRS)
    side = rnd.choice(["right", "right", "left"])        # as written; the direction of application is drawn by the caller
    balanced = rnd.random() < 0.6
    base_h = 1 if (attr == "hcount" or rnd.random() < 0.15) else 0
    q = {"left": {i: 0 for i in el}, "right": {i: 0 for i in el}}
    h = {"left": {i: base_h for i in el}, "right": {i: base_h for i in el}}
    b = {"left": dict(lb), "right": dict(rb)}
    sigma = rnd.choice(syms)
    moved = [i for i in el if sigma[i - 1] != i]
    what = "-"
    if attr in ("charge", "hcount"):
        a = rnd.choice(moved)
        a2 = sigma[a - 1]
        d = rnd.choice([1, -1])
        tab = q if attr == "charge" else h
        tab[side][a] += d
        if balanced:
            tab[side][a2] -= d
        what = f"{attr}[{side}] of atom {a}{' and (opposite) of its image ' + str(a2) if balanced else ''}"
    elif attr == "order":
        pairs = []
        for (i, j) in sorted(set(lb) | set(rb)):
            i2, j2 = sorted((sigma[i - 1], sigma[j - 1]))
            if (i2, j2) != (i, j):
                pairs.append((i, j))
        if not pairs:
            return None
        e = rnd.choice(pairs)
        other = "left" if side == "right" else "right"
        cur = b[side].get(e, 0)
        cand = [o for o in (0, 1, 2, 3) if o != cur and o != b[other].get(e, 0)]
        if not (b[other].get(e, 0)) and side == "left":
            cand = [o for o in cand if o]      # the bond must exist on one side at least
        new = rnd.choice(cand)
        if new:
            b[side][e] = new
        else:
            b[side].pop(e, None)
        what = f"order[{side}] of bond {e}: {cur} -> {new}"
    # equal context atoms on a pair of exchanged positions (mapped, bonds unchanged): part of a full template, outside the centre
    context = rnd.random() < 0.3
    nxt = n + 1
    if context:
        a = rnd.choice(moved)
        cel = rnd.choice(["C", "C", "O", "N"])
        for x in sorted({a, sigma[a - 1]}):
            el[nxt] = cel
            for s in ("left", "right"):
                q[s][nxt], h[s][nxt] = 0, 0
                b[s][(x, nxt)] = 1
            nxt += 1
    if any(v < 0 for s in h for v in h[s].values()):
        return None
    try:
        sides = [_sym_side_smiles({i: (el[i], q[s][i], h[s][i]) for i in el}, b[s]) for s in ("left", "right")]
    except Exception:  # noqa: BLE001 - RDKit refuses the drawn rule: not used
        return None
    tpl = sides[0] + ">>" + sides[1]
    info = RC.analyze_reaction(tpl)
    if not info["ok"] or info["mode"] == "mixed" or not info["changed_bonds"]:
        return None
    # self-check of the writing: read back, the rule is the one that was drawn
    try:
        for s, smi in zip(("left", "right"), sides):
            at, bo, _, _ = RC._side_table(smi)
            if at != {i: (el[i], q[s][i], h[s][i]) for i in el} or bo != {e: 2 * o for e, o in b[s].items() if o}:
                return None
    except Exception:  # noqa: BLE001
        return None
    return {"name": f"sym:{name}:{X}{Y or ''}:{attr}:{side}{':bal' if balanced and attr in ('charge', 'hcount') else ''}{':ctx' if context else ''}",
            "template": tpl, "mode": info["mode"], "skeleton": name, "attr": attr, "side": side, "breaker": what}


def sym_substrate(side, rnd, p_group=0.55, p_radical=0.15, p_spectator=0.2, max_heavy=20):
    """A substrate containing one side of a generated rule: every open valence of a rule atom is saturated with hydrogen, a small
    substituent drawn per position, or (rarely) left open, i.e. a radical centre.  -> SMILES without atom maps, or None."""
    from rdkit import Chem

    RC._quiet()
    p_open = 0.3 if rnd.random() < p_radical else 0.0      # most substrates are closed-shell molecules
    try:
        rw = Chem.RWMol(RC._mol_keep_h(side))
        todo = []
        for a in rw.GetAtoms():
            a.SetAtomMapNum(0)
            k = a.GetNumRadicalElectrons()
            if a.GetSymbol() == "H" or not k:
                continue
            todo.append((a.GetIdx(), k, a.GetTotalNumHs()))
        for idx, k, h in todo:
            left_open = 0
            for _ in range(k):
                carbon = rw.GetAtomWithIdx(idx).GetSymbol() == "C"
                r = rnd.random()
                if r < p_open:
                    left_open += 1
                elif r < p_open + (p_group if carbon else 0.7):
                    grp = Chem.MolFromSmiles(rnd.choice(SYM_GROUPS if carbon else SYM_HETERO_GROUPS))
                    off = rw.GetNumAtoms()
                    rw = Chem.RWMol(Chem.CombineMols(rw, grp))
                    rw.AddBond(idx, off, Chem.BondType.SINGLE)
                else:
                    h += 1
            a = rw.GetAtomWithIdx(idx)
            a.SetNumRadicalElectrons(left_open)
            a.SetNoImplicit(True)
            a.SetNumExplicitHs(h)
        Chem.SanitizeMol(rw)
        smi = Chem.MolToSmiles(rw)
    except Exception:  # noqa: BLE001 - the generator failed to build a molecule: no substrate
        return None
    out = RC.unmapped_side(smi)
    if out is None:
        return None
    if rnd.random() < p_spectator:
        out = out + "." + rnd.choice(SYM_SPECTATORS)
    mol = Chem.MolFromSmiles(out)
    if mol is None or mol.GetNumHeavyAtoms() > max_heavy:
        return None
    return out


def sym_rule_bases(ctx, n, tag="sym"):
    """n (template, substrate) pairs: generated symmetric-skeleton rules with one breaker x {forward, backward} x {centre, full
    template} x generated substrates.  Attribute x side x direction are drawn in rotation so that every run holds each."""
    rnd = ctx.rnd
    bases, tries = [], 0
    while len(bases) < n and tries < 4 * n:
        tries += 1
        rule = None
        for _ in range(12):     # the attribute is drawn in rotation; a draw RDKit refuses (valences) is redrawn
            rule = sym_rule(rnd, forced_attr=SYM_ATTRS[tries % len(SYM_ATTRS)])
            if rule is not None:
                break
            ctx.count(f"{tag}:rule_draws_not_usable")
        if rule is None:
            continue
        # the breaker is on the after-side of the rule as applied when (side == right) == (direction forward)
        invert = rnd.random() < (0.25 if rule["side"] == "right" else 0.6)
        side = rule["template"].split(">>")[1 if invert else 0]
        sub = None
        for _ in range(4):
            sub = sym_substrate(side, rnd)
            if sub:
                break
        if not sub:
            ctx.count(f"{tag}:no_substrate_for_rule")
            continue
        core = rnd.random() < 0.5
        ctx.count(f"{tag}:attr:{rule['attr']}")
        ctx.count(f"{tag}:skeleton:{rule['skeleton']}")
        if rule["attr"] != "none":
            ctx.count(f"{tag}:breaker_on:{'after' if (rule['side'] == 'right') != invert else 'before'}-side of the rule as applied")
        bases.append({"name": rule["name"] + ("/bw" if invert else "/fw") + ("/centre" if core else "/full"), "template": rule["template"],
                      "core": core, "invert": invert, "mode": rule["mode"], "substrate": sub})
    return bases


# ---------------------------------------------------------------- representation and scale (streams `repr*`)
# A label is what Python's `==` says it is: the exact analysis compares labels with `==` (NetworkX categorical matchers), so 1,
# 1.0, numpy.int64(1), numpy.float64(1.0) and numpy.float32(1.0) are ONE label, and so are "C" and numpy.str_("C"); all of them
# travel to the Lean model as one `Val.num` / `Val.str` (harness/graphio.py).  Real graphs mix them: a parsed molecule carries
# float bond orders, a bond added by hand an int, a value read back from an array a numpy scalar.  The streams below store equal
# labels under different types WITHIN one graph (every occurrence drawn / exactly one occurrence / a "parsed" part next to an
# "added" part), on top of every kind of graph the other streams draw, and add the rare-but-legal shapes of labels and sizes the
# small alphabets above leave out: attributes nobody selects but a library default might pick up (`weight`, `label`, `id`, ...),
# falsy labels (0, 0.0, '', (), a bond order 0), multi-digit numbers (pairs such as (1, 12) next to (11, 2)), bond orders given
# as strings ('-', '=', 'SINGLE', '1' next to '1.0'), graphs just beyond the sizes of the other streams (10-14 nodes, paths and
# cycles longer than 2 x max_iter rounds can explore, 4-5 repeated components).  Booleans are never mixed with numbers (the model
# keeps them apart), and one key never carries strings on some edges and numbers on others (the estimate sorts signatures).
# A case records its graph WITH the types (`"as"` next to the value; the Lean codec reads only the value), so a replay is exact.
REPR_INT = ["int", "float", "np.int64", "np.float64", "np.int32", "np.float32"]
REPR_HALF = ["float", "np.float64", "np.float32"]
REPR_MODES = ["mixed", "mixed", "one", "one", "split", "none"]


def _num_as(h, tag):
    """the number h/2 stored as `tag`"""
    import numpy as np

    if tag == "int":
        return h // 2
    if tag == "float":
        return h / 2
    if tag in ("np.int64", "np.int32", "np.int16", "np.int8"):
        return getattr(np, tag[3:])(h // 2)
    if tag in ("np.float64", "np.float32", "np.float16"):
        return getattr(np, tag[3:])(h / 2)
    raise ValueError(tag)


def _tag_of(x):
    import numpy as np

    if isinstance(x, np.generic):
        return "np." + type(x).__name__
    return type(x).__name__


def unval_typed(j):
    """graphio.unval, honouring the optional type tag `as`"""
    if j is None:
        return None
    tag = j.get("as")
    if "t" in j:
        return tuple(unval_typed(y) for y in j["t"])
    if tag is None:
        return graphio.unval(j)
    if "n" in j:
        return _num_as(j["n"], tag)
    if "s" in j and tag == "np.str_":
        import numpy as np
        return np.str_(j["s"])
    raise ValueError(j)


def val_typed(x):
    """graphio.val plus the type the value is stored with (absent for the types graphio.unval produces anyway)"""
    import numpy as np

    if x is None:
        return None
    if isinstance(x, (bool, np.bool_)):
        return {"b": bool(x)}
    if isinstance(x, np.str_):
        return {"s": str(x), "as": "np.str_"}
    if isinstance(x, str):
        return {"s": x}
    if isinstance(x, (tuple, list)):
        return {"t": [val_typed(y) for y in x]}
    j = dict(graphio.val(x))
    if isinstance(x, np.generic) or isinstance(x, float):
        j["as"] = _tag_of(x)
    return j


def graph_typed(G):
    return {"nodes": [[int(n), {str(k): val_typed(v) for k, v in d.items()}] for n, d in G.nodes(data=True)],
            "edges": [[int(u), int(v), {str(k): val_typed(x) for k, x in d.items()}] for u, v, d in G.edges(data=True)]}


def to_nx_typed(j):
    import networkx as nx

    G = nx.Graph()
    for n, a in j["nodes"]:
        G.add_node(n, **{k: unval_typed(v) for k, v in a.items()})
    for u, v, a in j["edges"]:
        G.add_edge(u, v, **{k: unval_typed(x) for k, x in a.items()})
    return G


def retypable(x):
    import numpy as np

    if isinstance(x, tuple):
        return any(retypable(y) for y in x)
    if x is None or isinstance(x, (bool, np.bool_)):
        return False
    return isinstance(x, (int, float, str, np.number))


def retype_value(rnd, x, p, other=False, to=None):
    """An EQUAL value (Python ==, same hash) stored under a possibly different type: each number with probability p as one of
    int / float / numpy.int64 / numpy.float64 / numpy.int32 / numpy.float32 (the integer types for integral values only), each
    string with probability p/3 as numpy.str_.  other=True: the drawn type differs from the present one; to: a fixed target."""
    import numpy as np

    if isinstance(x, tuple):
        return tuple(retype_value(rnd, y, p, other, to) for y in x)
    if x is None or isinstance(x, (bool, np.bool_)):
        return x
    if isinstance(x, str):
        if to is not None:
            return x
        if other:
            return str(x) if isinstance(x, np.str_) else np.str_(x)
        return np.str_(x) if rnd.random() < p / 3 else x
    if not isinstance(x, (int, float, np.number)):
        return x
    if rnd.random() >= p:
        return x
    h = graphio.val(x)["n"]
    pool = REPR_INT if h % 2 == 0 else REPR_HALF
    if to is not None:
        return _num_as(h, to if to in pool else "float" if to == "int" else "np.float64")
    if other:
        pool = [t for t in pool if t != _tag_of(x)]
    y = _num_as(h, rnd.choice(pool))
    assert y == x and hash(y) == hash(x), (x, y)
    return y


def retype_graph(rnd, G, mode):
    """Store labels of G under other types, in place; the labelled graph (labels compared with ==) stays the same.
    mixed: every occurrence drawn independently; one: exactly ONE occurrence (the sharpest case: a symmetric graph in which only
    the type of one label differs); split: the nodes / edges met first keep their types ("the parsed part"), all later ones carry
    one other type ("added by hand" / "read back from an array"); none: control."""
    if mode == "none":
        return mode
    slots = [("n", v, k) for v in G.nodes for k in sorted(G.nodes[v]) if retypable(G.nodes[v][k])]
    slots += [("e", (u, v), k) for u, v in G.edges for k in sorted(G[u][v]) if retypable(G[u][v][k])]
    if not slots:
        return "none"

    def cell(kind, w):
        return G.nodes[w] if kind == "n" else G[w[0]][w[1]]

    if mode == "mixed":
        for kind, w, k in slots:
            d = cell(kind, w)
            d[k] = retype_value(rnd, d[k], 0.5)
    elif mode == "one":
        num = [sl for sl in slots if not isinstance(cell(sl[0], sl[1])[sl[2]], str)]
        kind, w, k = rnd.choice(num if num and rnd.random() < 0.85 else slots)
        d = cell(kind, w)
        d[k] = retype_value(rnd, d[k], 1.0, other=True)
    else:
        to = rnd.choice(["int", "np.float64", "np.int64", "float", "np.float32"])
        cut = rnd.randint(1, max(1, len(slots) - 1))
        ne = [sl for sl in slots if sl[0] == "e"]
        later = slots[cut:] if rnd.random() < 0.5 or not ne else ne[rnd.randrange(len(ne)):]
        for kind, w, k in later:
            d = cell(kind, w)
            d[k] = retype_value(rnd, d[k], 1.0, to=to)
    return mode


SPECT_E = ["weight", "label", "id", "name", "capacity", "length", "color"]
SPECT_N = ["label", "id", "name", "weight", "color", "atom_map"]


def add_spectators(rnd, G):
    """Attributes nobody selects, with values that would break every symmetry if anything picked them up (on some graphs: on a
    part of the nodes / edges only)."""
    ke = rnd.sample(SPECT_E, rnd.randint(1, 3))
    kn = rnd.sample(SPECT_N, rnd.randint(0, 2))
    part = rnd.random() < 0.3
    for i, (u, v) in enumerate(G.edges):
        for k in ke:
            if part and rnd.random() < 0.5:
                continue
            G[u][v][k] = ("e%d" % i) if k in ("label", "name", "color") else rnd.choice([i + 1, (i + 1) / 2, float(i)])
    for i, v in enumerate(G.nodes):
        for k in kn:
            if part and rnd.random() < 0.5:
                continue
            G.nodes[v][k] = ("a%d" % i) if k in ("label", "name", "color") else i + 1
    return ke, kn


FALSY_N = {"element": ["", "C", "*", "0"], "charge": [0, 1, -1], "hcount": [0, 1, 2], "tag": ["", "a", "*"],
           "neighbors": [(), ("C",), ("",)], "isotope": [0, 13]}
FALSY_E = {"order": [0, 1.0, 2.0], "standard_order": [0, 1.0, -1.0], "ez": ["", "E", "Z"], "tag": ["", "a", "*"], "pair": [(), (0, 0), (1.0, 0), (0, 1.0)]}
BIG_N = {"hcount": [1, 11, 12, 21, 111, 2], "charge": [1, 2, 12, -12, 10, 21, -1, -2], "isotope": [13, 235, 2350, 23, 35, 1],
         "element": ["C", "Cl", "C1", "l"]}
BIG_E = {"order": [1.0, 10.0, 12.5, 25.0, 50.0, 2500.0, 1.5, 15.0, 2.0], "standard_order": [1.0, -1.0, 10.0, -10.0, 11.0, 0.5, 100.0]}
STR_ORDERS = [{1.0: "-", 2.0: "=", 1.5: ":", 3.0: "#"}, {1.0: "SINGLE", 2.0: "DOUBLE", 1.5: "AROMATIC", 3.0: "TRIPLE"},
              {1.0: "1", 2.0: "2", 1.5: "1.5", 3.0: "3"}, {1.0: "1", 2.0: "1.0", 1.5: "1.50", 3.0: " 1"}, {1.0: "", 2.0: "=", 1.5: ":", 3.0: "#"}]


def _spread(rnd, G, kind, k, pool, need=None):
    """Write key k on every node / edge of G: one base value and ONE or TWO occurrences of another (symmetric skeleton, only this
    label differs), or scattered values.  need: a value that must occur."""
    items = sorted(G.nodes) if kind == "n" else sorted(G.edges)
    if not items:
        return
    base = rnd.choice(pool)
    others = [x for x in pool if x != base] or [base]
    if need is not None and base != need:
        others = [need]
    style = rnd.choice(["one", "one", "two", "scatter"])
    vals = {it: base for it in items}
    if style == "scatter":
        for it in items:
            if rnd.random() < 0.35:
                vals[it] = rnd.choice(others)
    else:
        for it in rnd.sample(items, min(len(items), 1 if style == "one" else 2)):
            vals[it] = rnd.choice(others)
    for it, x in vals.items():
        if kind == "n":
            G.nodes[it][k] = x
        else:
            G[it[0]][it[1]][k] = x


def rare_case(rnd):
    """-> (tag, G, nk, ek): one of the rare-but-legal label shapes on a (mostly symmetric) skeleton"""
    kind = rnd.choice(["spectator", "spectator", "falsy", "falsy", "falsy", "bignum", "bignum", "strorder", "strorder"])
    _, G = base_graph(rnd)
    nk, ek = list(NK), list(EK)
    if kind == "spectator":
        if rnd.random() < 0.4:
            _, xn, xe = decorate(rnd, G)
            nk, ek = select_keys(rnd, xn, xe)
        add_spectators(rnd, G)
        if rnd.random() < 0.3:
            nk, ek = None, None
    elif kind == "falsy":
        for _ in range(rnd.randint(1, 2)):
            if rnd.random() < 0.5 or not G.number_of_edges():
                k = rnd.choice(sorted(FALSY_N))
                falsy = [x for x in FALSY_N[k] if not x]
                _spread(rnd, G, "n", k, FALSY_N[k], need=rnd.choice(falsy))
                if k not in nk:
                    nk.append(k)
            else:
                k = rnd.choice(sorted(FALSY_E))
                falsy = [x for x in FALSY_E[k] if not x]
                _spread(rnd, G, "e", k, FALSY_E[k], need=rnd.choice(falsy))
                if k not in ek:
                    ek.append(k)
    elif kind == "bignum":
        ks = rnd.sample(sorted(BIG_N), rnd.randint(2, 3))
        for k in ks:
            _spread(rnd, G, "n", k, BIG_N[k])
            if k not in nk:
                nk.append(k)
        if G.number_of_edges():
            for k in rnd.sample(sorted(BIG_E), rnd.randint(1, 2)):
                _spread(rnd, G, "e", k, BIG_E[k])
                if k not in ek:
                    ek.append(k)
        if rnd.random() < 0.4:
            rnd.shuffle(nk)
    else:
        table = rnd.choice(STR_ORDERS)
        if G.number_of_edges() and rnd.random() < 0.6:
            _spread(rnd, G, "e", "order", [1.0, 2.0, 1.5, 3.0])
        for u, v in G.edges:
            G[u][v]["order"] = table[float(G[u][v].get("order", 1.0))]
        if rnd.random() < 0.3:
            nk, ek = None, None
    return "rare-" + kind, G, nk, ek


def scale_case(rnd):
    """-> (tag, G, max_iter): just beyond the sizes of the other streams; group orders stay small by construction"""
    import networkx as nx

    r = rnd.random()
    if r < 0.3:
        return "scale-mol10-13", mol_like(rnd, rnd.randint(10, 13), uniform=rnd.random() < 0.15), rnd.choice([0, 1, 2, 3, 10, 10, 5, 20])
    if r < 0.45:
        parts = []
        base = mol_like(rnd, rnd.randint(1, 3), uniform=rnd.random() < 0.7)
        for _ in range(rnd.randint(4, 5)):
            parts.append(base.copy() if rnd.random() < 0.8 else mol_like(rnd, rnd.randint(1, 3), uniform=True))
        G = nx.Graph()
        for g in parts:
            G = nx.disjoint_union(G, g)
        return "scale-components4-5", G, rnd.choice([0, 1, 2, 10])
    k = rnd.choice(["path", "path", "cycle", "ladder", "caterpillar"])
    if k == "path":
        g = nx.path_graph(rnd.randint(10, 30))
    elif k == "cycle":
        g = nx.cycle_graph(rnd.randint(10, 26))
    elif k == "ladder":
        g = nx.ladder_graph(rnd.randint(5, 9))
    else:
        g = nx.path_graph(rnd.randint(8, 14))
        spine = list(g.nodes)
        for v in rnd.sample(spine, rnd.randint(1, 4)):
            g.add_edge(v, g.number_of_nodes())
    for v in g.nodes:
        g.nodes[v].update(element="C", charge=0)
    for u, v in g.edges:
        g[u][v]["order"] = 1.0
    nodes = sorted(g.nodes)
    r = rnd.random()
    if r < 0.35:
        g.nodes[rnd.choice([nodes[0], nodes[-1], rnd.choice(nodes)])]["element"] = "N"      # a label at one end / somewhere
    elif r < 0.55:
        u, v = rnd.choice(sorted(g.edges))
        g[u][v]["order"] = 2.0
    elif r < 0.7:
        a = rnd.choice(nodes)
        g.nodes[a]["element"] = "N"
        g.nodes[nodes[len(nodes) - 1 - nodes.index(a)]]["element"] = "N"                     # the mirror image as well
    # the estimate's round cap: max_iter rounds see max_iter bonds far, the default is 10
    return "scale-" + k, g, rnd.choice([0, 1, 2, 3, 5, 10, 10, 10, 12, 40])


def scramble_connected(rnd, G):
    """As `scramble` (fresh non-contiguous ids, shuffled edge order and orientation), but the nodes are inserted component by
    component in a breadth-first order from a random start: every node but the first of its component has an earlier neighbour.
    (The model's enumerator extends a partial map in insertion order; on 20-30 node paths and cycles an arbitrary order makes it
    explore exponentially many partial maps, a connected order keeps it linear.  The answers do not depend on the order.)"""
    import networkx as nx

    nodes = list(G.nodes())
    ren = dict(zip(nodes, rnd.sample(range(0, 3 * len(nodes) + 5), len(nodes))))
    comps = [sorted(c) for c in nx.connected_components(G)]
    rnd.shuffle(comps)
    order = []
    for comp in comps:
        seen, queue = set(), [rnd.choice(comp)]
        seen.add(queue[0])
        while queue:
            v = queue.pop(0)
            order.append(v)
            nb = sorted(w for w in G.neighbors(v) if w not in seen)
            rnd.shuffle(nb)
            seen.update(nb)
            queue += nb
    H = nx.Graph()
    for v in order:
        H.add_node(ren[v], **dict(G.nodes[v]))
    es = list(G.edges(data=True))
    rnd.shuffle(es)
    for u, v, d in es:
        if rnd.random() < 0.5:
            u, v = v, u
        H.add_edge(ren[u], ren[v], **dict(d))
    return H


def repr_case(rnd, base, mode=None):
    """One case of stream `repr`: a graph of kind `base`, labels stored under the types `mode` says."""
    nk, ek, m = NK, EK, rnd.choice([0, 1, 2, 3, 10, 10, 10])
    if base == "plain":
        tag, G = base_graph(rnd)
        r = rnd.random()
        nk, ek = (NK, EK) if r < 0.7 else (None, None) if r < 0.9 else (["element"], EK)
    elif base == "keys":
        tag, G, nk, ek = keys_case(rnd, missing=rnd.random() < 0.1)
    elif base == "its":
        tag, G, nk, ek = its_like(rnd)
    elif base == "rare":
        tag, G, nk, ek = rare_case(rnd)
    else:
        tag, G, m = scale_case(rnd)
    G = scramble_connected(rnd, G) if base == "scale" else scramble(rnd, G)
    mode = retype_graph(rnd, G, mode or rnd.choice(REPR_MODES))
    return f"{mode}/{tag}", G, nk, ek, m


def dedup_id_form(rnd, host_nodes):
    """Call forms of stream `repr-dedup`: node ids that are equal to the ints of the other arguments but of another type
    (numpy.int64 from an array of indices): in every match, in every second match, in the orbit arguments only."""
    return {"matches": rnd.choice(["list", "tuple", "iter"]), "orbits": rnd.choice(["list", "tuple", "iter"]),
            "orbit": rnd.choice(["frozenset", "set", "tuple", "list"]), "anchor": rnd.choice(["frozenset", "set"]),
            "host_anchor": None, "ids": rnd.choice(["np", "mixed", "mixed", "orbits_np", "values_np"])}


# ---------------------------------------------------------------- entry points
def load_regress():
    d = ROOT / "regress" / "C11"
    return [json.loads(f.read_text()) for f in sorted(d.glob("*.json"))] if d.exists() else []


_POOL = []


def history_pool():
    if not _POOL:
        _POOL.append(HistoryPool())
    return _POOL[0]


def close_pool():
    while _POOL:
        _POOL.pop().close()


def run_case_dict(ctx, c, stream):
    if c.get("kind") == "dedup":
        run_dedup(ctx, [("regress", c["matches"], c["pattern_orbits"], c["pattern_anchor"], c["host_orbits"], None, c.get("form"))], stream)
    elif c.get("kind") == "entry":
        run_entry(ctx, [c], stream)
    elif c.get("kind") == "session":
        run_sessions(ctx, [c], stream)
    elif c.get("kind") == "reactor-history":
        run_histories(ctx, history_pool(), [c["steps"]], 120.0, stream, shrink=False)
    else:
        G = to_nx_typed(c["graph"])
        run_graphs(ctx, [("regress", G, c["node_keys"], c["edge_keys"], c.get("max_iter", 10))], stream)


def run(ctx):
    ctx.trusted = [
        "Lean 4.33 kernel; axioms of the property theorems as listed in obligation_list",
        "hand-written model SynKitModel/Automorphism.lean tied to /repo by this correspondence run (not by translation)",
        "NetworkX VF2 (GraphMatcher.isomorphisms_iter) and connected_components are external: the model uses the proven enumerator "
        "Match.auts and its own closure-based components; that VF2 enumerates exactly the self-isomorphisms is what the comparison checks",
        "Driver/Automorphism.lean + Driver/GraphJson.lean JSON codec, harness/graphio.py encoder, this adapter (sets sorted before comparison)",
        "the order of Automorphism.orbits / AutoEst.orbits lists and the tie-break between equally large anchor components are not fixed by "
        "the property: orbit lists are compared as partitions, anchors as 'one of the largest components' (agreement with the model's choice is counted)",
        "the reactor clause (pruning never changes the set of distinct reactions) is checked on the real SynReactor: per query, pruned result set == "
        "set from gluing every raw match through the reactor's own internals (_mappings := raw matches recorded at SubgraphSearchEngine); trusted: "
        "Standardize.fit / RDKit canonical SMILES as the notion of 'distinct reaction', harness/reactor_inv_common.py (rewriting, time-out), "
        "one fresh forked process per history; its Lean side (pruning by rule automorphisms loses no result) is C05's",
        "gate model-prune: the rule automorphisms handed to the model are enumerated by the harness with the same NetworkX GraphMatcher call the "
        "pruning routine makes (VF2 is external to both); Driver/ReactorInv.lean JSON codec (`rinv.prune_partial`, `rinv.prune_spec`); pattern, "
        "rule and substrate node ids are naturals (atom-map numbers / atom indices)",
    ]
    ctx.assumptions = [
        "graphs are simple undirected NetworkX graphs (nx.Graph, no self-loops; a DiGraph makes the exact analysis raise NetworkXError in "
        "VF2, a MultiGraph is not a documented input) with non-negative integer node ids; in stream entry the ids are negative ints, strings, "
        "tuples or a mixture, and the model is asked about the same graph under a bijection of the ids onto naturals (the specification - number "
        "of label-preserving automorphisms, classes of exchangeable nodes - is invariant under renaming nodes)",
        "label values equal themselves (no float NaN): then VF2 always yields the identity and the branch `if not orbit_sets` of "
        "_analyze_component is dead, as is its `number_of_nodes() == 0` branch (_analyze returns before, components are non-empty); "
        "Automorphism._get_orbit_index has no caller",
        "reactor clause under partial=True (not among C03's configurations, gated here because the sentence of the property covers every "
        "symmetry pruning used during rule application): 'every match' = every mapping of PartialMatcher(prune_auto=False) built with the "
        "arguments the reactor passes, partial mappings included, glued by the reactor's own internals",
        "'never separates an orbit' is gated on graphs whose nodes/edges all carry the selected attributes (the exact matcher reads a missing "
        "charge as 0 / element as '*' / order as 1.0, the estimate reads it as None); graphs with missing attributes are compared impl = model only",
        "attribute values of one key have one KIND (numbers in half-units, strings, booleans, tuples), so Python == is structural equality on the "
        "encoded values; within the kind 'number' the Python types are mixed in streams repr* (int, float, numpy integer and float scalars: equal "
        "values are one label, with equal hashes and a total order among them), within 'string' str and numpy.str_; no boolean next to numbers under "
        "one key, no boolean edge labels (the exact matcher reads a missing edge label as 1.0 and Python has 1.0 == True); no strings next to numbers "
        "under one edge key (the estimate sorts neighbour signatures: Python cannot order them)",
        "reactor stream: substrates are SMILES strings or SynGraph objects built from them as SynReactor._wrap_input does; templates are mapped "
        "reactions turned into ITS graphs by rsmi_to_its (centre or full), reaction strings, or SynRule objects built as _wrap_template does; mode "
        "from the template reaction as in C05 (explicit centre hydrogens -> defaults, none -> implicit_temp=True, explicit_h=False; mixed skipped); "
        "an exception of the implementation outside the pruning step is an outcome (counted), not a violation of this clause",
    ]
    ctx.gen_rule = ("regression corpus first; every labelled graph on <=4 (quick) / <=5 (thorough) nodes over 2 elements x 2 bond orders, once per "
                    "isomorphism class, under a random renumbering and insertion order; random molecule-like connected graphs and disconnected unions "
                    "(with repeated identical components) <=9 nodes over C/N/O, charges, orders 1/1.5/2; symmetric families (cycles, K_ab, cube, stars, "
                    "paths, K_n, prisms, wheels, Petersen, repeated identical components) plain and with one label/order/charge changed; a malformed "
                    "stream with selected attributes missing; max_iter drawn from {0,1,2,3,10}; node_keys/edge_keys default and explicit. "
                    "De-duplication: match lists from SubgraphSearchEngine.find_subgraph_mappings (all/comp/bt) of small symmetric patterns in random "
                    "hosts, with exact or estimated pattern orbits/anchor, host orbits, both, none, partial matches, duplicates, foreign host orbits; "
                    "a tenth of the calls repeated later.  Stream keys: symmetric families / uniform molecule-like graphs / disconnected unions with 1-3 "
                    "extra node keys (hcount, aromatic, isotope, neighbors tuple, tag) and 0-2 extra edge keys (standard_order, ez, tag, pair tuple), "
                    "uniform / ONE node or edge differing in ONE key / scattered, queried under defaults+extras, permuted, extras alone, random subset, "
                    "+missing_key; a part with labels missing; ITS-like graphs with tuple orders and typesGH.  Stream session: 6-20 operations per base "
                    "graph (query / copy / relabel / sub-graph copy or view / set node label / set edge label / remove node / add edge), edited and "
                    "derived objects queried right away.  Stream reactor: corpus/c05_extra.txt pairs + seeded corpus sample (<=40 atoms quick) x "
                    "{centre, full ITS} x {forward, backward} x {own, foreign substrate}; one history per pair (three in thorough), 30% of them "
                    "interleaved with a second pair; per-history time-out (steps not reached are counted as skipped).  Stream reactor-sym: generated "
                    "rules = skeleton with a known symmetry (X=X, X-X, X#X, X-X -> X=X, X=Y=X, X-Y-X, two alkenes -> chain / 4-ring / metathesis, "
                    "2 x (X-Y) exchange, Diels-Alder 6-cycle; X, Y over C/N/O/S) x ONE breaker in rotation {charge x3, hcount x2, bond order, none} "
                    "x {left, right side as written} x {balanced on an atom and its image, one position only} x 30% equal context atoms on a pair "
                    "of exchanged positions, applied forwards / backwards, as centre / full template, to a substrate grown from the matched side "
                    "(each open valence: hydrogen / random substituent; 15% of the substrates may keep radical centres; 20% a spectator molecule); "
                    "one history per pair, 20% interleaved with a second pair.  Stream entry (400 quick / 6000 thorough): base graph = 4% empty, "
                    "4% single node, 5% 2-4 isolated nodes, 17% keys-stream skeletons with default labels, 10% malformed (labels missing), else "
                    "family / uniform molecule-like / random (dis)connected; x node ids uniformly from {int, negative int, str, tuple, mixed "
                    "(exact analysis only)} x anchor_largest_component 50/50 x key lists from {defaults given, None, element only, [] / [], "
                    "defaults / [], permuted} x key container {list, tuple, iterator} x estimate via {constructor, estimate_automorphism_groups} "
                    "x random order of reading the 7 exact and 8 estimate views x max_iter as above.  Dedup call forms (35% of the dedup cases): "
                    "matches as list/tuple/iterator x orbit container list/tuple/iterator x orbit as frozenset/set/tuple/list x anchor as "
                    "frozenset/set x host_anchor absent / random subset of host nodes / all host nodes.  Pruning fall-back: every reactor step "
                    "with >= 2 raw matches, max_group=0; the same steps, gate model-prune: the routine's kept list under the default bound and under "
                    "max_group in {0, |group| - 1, |group|} (steps with <= 200 raw matches and <= 60 rule automorphisms).  Stream reactor-partial (24 histories quick / 400 thorough): half corpus pairs whose "
                    "pattern has >= 2 components, half generated symmetric-skeleton rules; histories as in stream reactor, each step "
                    "partial=True with probability 0.8; reference of a partial step: every match of PartialMatcher(prune_auto=False).  "
                    "Streams repr* (last; quick: 772 + 1100 graphs, 100 sessions, 200 dedup calls): every labelled graph on <= 4 nodes once more with "
                    "each numeric / string label occurrence stored with probability 1/2 as a drawn type (thorough: three passes, one of them with "
                    "exactly ONE occurrence retyped); 300 symmetric-family / molecule-like / disconnected graphs under default keys, 200 keys-stream "
                    "graphs (10% with labels missing), 100 ITS-like graphs, 400 rare-shape graphs (2/9 unselected attributes on edges and nodes, 3/9 "
                    "falsy labels, 2/9 multi-digit numbers under 2-3 node keys and 1-2 edge keys, 2/9 string bond orders from 5 vocabularies; each key "
                    "written as one base value with one or two deviating occurrences, or scattered), 100 scale graphs (30% molecule-like 10-13 nodes, "
                    "15% 4-5 repeated components, else paths 10-30 / cycles 10-26 / ladders 10-18 / caterpillars with one label, one order, a mirror "
                    "pair of labels changed or none; max_iter from {0,1,2,3,5,10,12,40}; nodes inserted in a breadth-first order), every graph x "
                    "type mode from {mixed x2, one x2, split, none}; typed sessions as stream session with 25% re-store operations; dedup: 200 of "
                    "the dedup cases again with node ids numpy.int64 in every match / every second match / the host side / the orbit arguments.")
    ctx.nontrivial_rule = ("graph case: >=2 nodes and (a non-trivial automorphism or >=2 components), distinct as encoded graph + keys + max_iter; "
                           "dedup case: >=2 matches and at least one orbit argument, distinct as JSON value; session query: as graph case on the "
                           "snapshot; entry case: as graph case, distinct as graph + id kind + keys + max_iter + flag + estimate route; "
                           "reactor step: >=2 raw matches, distinct as history prefix")
    build_and_audit(ctx, ["SynKitProofs.Props.C11"], "SynKitProofs/Audit/C11.lean", THEOREMS)
    try:
        _run_streams(ctx)
    finally:
        close_pool()


def _run_repr_streams(ctx, dcases, stamp=lambda name: None):
    rnd = ctx.rnd
    # representation and scale: equal labels stored under different types within one graph, unselected attributes, falsy labels,
    # multi-digit numbers, string-valued bond orders, sizes just beyond the other streams (after the existing streams, so that these
    # draw what they drew before)
    nv3 = len(ctx.violations)
    if not ctx.violations:
        cases = []
        for rep_ in range(1 if ctx.quick else 3):
            for n, E, nl, el in tiny_classes(4):
                G = scramble(rnd, mk_graph(list(range(n)), E, ["CN"[x] for x in nl], None, [1.0 + x for x in el]))
                mode = retype_graph(rnd, G, "mixed" if rep_ != 1 else "one")
                cases.append((f"{mode}/tiny-n{n}", G, NK, EK, 10))
        nplain, nkeyed, nits_, nrare, nscale, nsess_, ndd = (300, 200, 100, 400, 100, 100, 200) if ctx.quick else (5000, 4000, 2000, 6000, 1500, 1500, 3000)
        for base, k in (("plain", nplain), ("keys", nkeyed), ("its", nits_), ("rare", nrare), ("scale", nscale)):
            for _ in range(k):
                cases.append(repr_case(rnd, base))
        for c in cases:
            ctx.count("repr:types:" + c[0].split("/")[0])
        run_graphs(ctx, cases, "repr")
        stamp("repr")
    if not ctx.violations:
        run_sessions(ctx, [gen_session(rnd, typed=True) for _ in range(nsess_)], "repr-session")
        stamp("repr-session")
    if not ctx.violations:
        # the same de-duplication calls with node ids of another integer type on one side
        idcases = []
        for c in rnd.sample(dcases, min(len(dcases), ndd)):
            hs = sorted({h for m in c[1] for _, h in m})
            idcases.append(tuple(c[:6]) + (dedup_id_form(rnd, hs),))
        run_dedup(ctx, idcases, "repr-dedup")
        stamp("repr-dedup")
    ctx.obligation("representation and scale: equal labels stored as int / float / numpy scalars (str / numpy.str_) within one graph - every "
                   "occurrence, exactly one, a part - on tiny-exhaustive, random, symmetric, keyed, ITS-like graphs, in sessions (labels re-stored "
                   "under another type, bonds added by hand) and node ids of the matches handed to the de-duplication; unselected attributes "
                   "(weight, label, id, name, capacity, ...), falsy labels, multi-digit numbers, string-valued bond orders, 10-30 node graphs and "
                   "4-5 repeated components: impl == model (which sees ONE value per class of equal labels), estimate coarser than exact",
                   len(ctx.violations) == nv3)



def _run_streams(ctx):
    import time

    rnd = ctx.rnd
    stamps = ctx.extra.setdefault("stage_wall_s", {})
    t_last = [time.time()]

    def stamp(name):
        stamps[name] = round(time.time() - t_last[0], 1)
        t_last[0] = time.time()

    for c in load_regress():
        run_case_dict(ctx, c.get("case", c), "regress")
        ctx.count("regress_cases")
    stamp("regress")

    def keys():
        r = rnd.random()
        if r < 0.6:
            return NK, EK
        if r < 0.75:
            return None, None          # constructor defaults
        if r < 0.85:
            return ["element"], EK
        return NK, ["order", "missing_key"]

    def mi():
        return rnd.choice([0, 1, 2, 3, 10, 10, 10])

    # tiny exhaustive
    nmax = 4 if ctx.quick else 5
    cases = []
    for n, E, nl, el in tiny_classes(nmax):
        G = mk_graph(list(range(n)), E, ["CN"[x] for x in nl], None, [1.0 + x for x in el])
        cases.append(("n%d" % n, scramble(rnd, G), NK, EK, 10))
    if not ctx.violations:
        run_graphs(ctx, cases, "tiny")
    ctx.extra["exhaustive"] = not ctx.violations
    ctx.extra["exhaustive_part"] = f"all {len(cases)} isomorphism classes of labelled graphs on <= {nmax} nodes, 2 elements x 2 orders"

    nrand, nfam, nmal, ndedup = (600, 400, 150, 600) if ctx.quick else (10000, 4000, 2000, 10000)
    cases = []
    for _ in range(nrand):
        tag, G = random_graph(rnd)
        nk, ek = keys()
        cases.append((tag, scramble(rnd, G), nk, ek, mi()))
    for _ in range(nfam):
        tag, G = family(rnd)
        cases.append(("family-" + tag, scramble(rnd, G), NK, EK, mi()))
    if not ctx.violations:
        run_graphs(ctx, cases, "random")
    cases = []
    for _ in range(nmal):
        tag, G = malformed(rnd)
        cases.append((tag, scramble(rnd, G), NK, EK, mi()))
    if not ctx.violations:
        run_graphs(ctx, cases, "malformed")
    ctx.obligation("correspondence: Automorphism counts/orbits/anchor impl == model; AutoEst orbits impl == model; estimate coarser than exact", not ctx.violations)

    stamp("tiny+random+malformed")
    # attribute-selection variation and rare-but-legal label shapes
    nkeys, nmiss, nits, nsess = (600, 150, 200, 250) if ctx.quick else (8000, 2500, 3000, 3000)
    nv = len(ctx.violations)
    cases = []
    for _ in range(nkeys):
        tag, G, nk, ek = keys_case(rnd)
        cases.append((tag, scramble(rnd, G), nk, ek, mi()))
    for _ in range(nmiss):
        tag, G, nk, ek = keys_case(rnd, missing=True)
        cases.append((tag, scramble(rnd, G), nk, ek, mi()))
    for _ in range(nits):
        tag, G, nk, ek = its_like(rnd)
        cases.append((tag, scramble(rnd, G), nk, ek, mi()))
    if not ctx.violations:
        run_graphs(ctx, cases, "keys")
    ctx.obligation("correspondence under non-default attribute selections (more keys than the defaults, permuted key lists, a key on nodes and "
                   "edges, tuple-valued labels): Automorphism / AutoEst impl == model, estimate coarser than exact", len(ctx.violations) == nv)

    stamp("keys")
    # hidden state: sequences of queries on shared objects
    nv = len(ctx.violations)
    sessions = [gen_session(rnd) for _ in range(nsess)]
    if not ctx.violations:
        run_sessions(ctx, sessions, "session")
    ctx.obligation("sessions (same object queried again / under other selections / after in-place edits; copies, relabelled copies, sub-graph "
                   "views): every answer equals the model's answer for the graph as it is at that moment", len(ctx.violations) == nv)

    stamp("session")
    # alternative entry points and options
    nv = len(ctx.violations)
    ecases = [entry_case(rnd) for _ in range(400 if ctx.quick else 6000)]
    if not ctx.violations:
        run_entry(ctx, ecases, "entry")
    ctx.obligation("alternative entry points (anchor_largest_component=False, empty / single-node / edgeless graphs, negative / string / tuple / "
                   "mixed node ids, len / is_connected / repr, AutoEst.groups / orbit_index / node_colors / n_orbits / n_groups / len, "
                   "estimate_automorphism_groups with list / tuple / iterator key arguments, empty key lists): impl == model, every view of the "
                   "estimate coarser than exact", len(ctx.violations) == nv)

    stamp("entry")
    nv = len(ctx.violations)
    dcases = [dedup_case(rnd) for _ in range(ndedup)]
    # the same call again later (after other calls), and the same match list under another orbit argument
    for c in rnd.sample(dcases, min(len(dcases), max(20, ndedup // 10))):
        dcases.append(c)
    if not ctx.violations:
        run_dedup(ctx, dcases, "dedup")
    ctx.obligation("correspondence: deduplicate_matches_with_anchor impl == model, result a sub-list in input order", len(ctx.violations) == nv)

    stamp("dedup")
    # the reactor clause: pruning on versus every raw match, inside histories of rule applications
    nv = len(ctx.violations)
    if not ctx.violations:
        n_rxn, per_base, timeout = (10, 1, 10.0) if ctx.quick else (60, 3, 60.0)
        bases = reactor_bases(ctx, n_rxn, 40 if ctx.quick else 60)
        histories = []
        for _ in range(per_base):
            for b in bases:
                histories.append(make_history(rnd, [b] if rnd.random() < 0.7 else [b, rnd.choice(bases)]))
        run_histories(ctx, history_pool(), histories, timeout, "reactor")
        stamp("reactor")
    ctx.obligation("rule application (SynReactor, automorphism on and off, strategies all/comp/bt): within every history of applications the "
                   "pruned result set equals the set obtained from every raw match of the same query", len(ctx.violations) == nv)

    # rare-but-legal rules: symmetric skeletons in which exactly one attribute of the rule breaks the symmetry
    nv = len(ctx.violations)
    if not ctx.violations:
        n_sym, timeout = (220, 10.0) if ctx.quick else (2400, 60.0)
        bases = sym_rule_bases(ctx, n_sym, "reactor-sym")
        histories = [make_history(rnd, [b] if rnd.random() < 0.8 else [b, rnd.choice(bases)]) for b in bases]
        run_histories(ctx, history_pool(), histories, timeout, "reactor-sym")
        stamp("reactor-sym")
    ctx.obligation("rule application with generated symmetric-skeleton rules whose symmetry ONE attribute of the rule breaks (charge / hydrogen "
                   "count / bond order, on the left or right side, applied forwards and backwards) and their unbroken controls: the pruned result "
                   "set equals the set obtained from every raw match of the same query", len(ctx.violations) == nv)

    # non-default option partial=True: the reactor takes its matches from PartialMatcher (partial matches included) and hands them
    # to the same rule-automorphism pruning, which must pass partial matches through; reference: every match of the partial matcher
    nv2 = len(ctx.violations)
    if not ctx.violations:
        n_par, timeout = (24, 10.0) if ctx.quick else (400, 60.0)
        pb = reactor_bases(ctx, 6 if ctx.quick else 30, 40 if ctx.quick else 60)
        pb = [b for b in pb if "." in b["template"].split(">>")[1 if b["invert"] else 0]] or pb      # patterns with >= 2 components first
        rnd.shuffle(pb)
        pb = pb[:n_par // 2] + sym_rule_bases(ctx, n_par - min(len(pb), n_par // 2), "reactor-partial")
        histories = []
        for b in pb:
            h = make_history(rnd, [b])
            for st in h:
                st["partial"] = rnd.random() < 0.8
            histories.append(h)
        run_histories(ctx, history_pool(), histories, timeout, "reactor-partial")
        stamp("reactor-partial")
    ctx.obligation("rule application with partial=True (matches, partial ones included, from PartialMatcher): the result set with pruning equals the "
                   "set obtained from every match of PartialMatcher(prune_auto=False) of the same query", len(ctx.violations) == nv2)
    ctx.obligation("correspondence: SynReactor._prune_by_rule_automorphisms == model ReactorInv.pruneWithCap (rinv.prune_partial) as ordered lists, on "
                   "the rule automorphisms and raw matches of every reactor step with >= 2 raw matches - partial matches included (stream "
                   "reactor-partial), default bound and max_group in {0, |group| - 1, |group|}", not ctx.extra.get("model_prune_differences"))

    _run_repr_streams(ctx, dcases, stamp)


def replay(ctx, case):
    try:
        run_case_dict(ctx, case["case"], "replay")
    finally:
        close_pool()

"""C11 — automorphism groups and orbits are exact; the WL estimate never separates an orbit;
de-duplication returns a sub-list.

Correspondence (every run, against the working tree of /repo):
* `Automorphism(G).orbits / n_automorphisms / anchor_component / components` vs the Lean model
  `SynKit.Aut.analyze` (which by `aut_count_exact`, `orbits_exact`, `aut_count_components`, `orbits_exact_components` IS the
  specification: number of label-preserving self-isomorphisms, classes of exchangeable nodes, per
  component for disconnected graphs);
* `AutoEst(G).fit().orbits / anchor_component` vs `SynKit.Aut.estOrbits / estAnchor`, for several
  `max_iter`; and directly on the implementation: every exact orbit lies inside one estimated class
  (`wl_coarsens`, `est_never_separates`);
* `deduplicate_matches_with_anchor` vs `SynKit.Aut.dedup` on match lists produced by the real
  sub-graph search on random hosts (+ partial matches, duplicates, foreign orbits → ValueError), and
  directly: the result is a sub-list of the input in the original order (`dedup_sublist`).
  How many matches are merged is recorded, not gated.
The reactor clause of C11 ("pruning during rule application never changes the set of distinct
reactions") is about `SynReactor` and is checked with the reactor properties (C03–C05), see DESIGN §6 F11.
"""
import itertools
import json

from ..core import build_and_audit, ROOT
from ..shrink import shrink_seq
from .. import graphio

THEOREMS = [
    "SynKit.Aut.aut_count_exact",
    "SynKit.Aut.orbits_exact",
    "SynKit.Aut.orbits_cover",
    "SynKit.Aut.components_spec",
    "SynKit.Aut.aut_count_components",
    "SynKit.Aut.orbits_exact_components",
    "SynKit.Aut.aut_group",
    "SynKit.Aut.wl_coarsens",
    "SynKit.Aut.est_never_separates",
    "SynKit.Aut.est_coarser_than_exact",
    "SynKit.Aut.dedup_sublist",
    "SynKit.Aut.dedup_nodup_sig",
    "SynKit.Aut.dedup_complete",
    "SynKit.Aut.dedup_id",
    "SynKit.Aut.dedup_merges_non_automorphic",
    "SynKit.Aut.C11.full_partial",
]

NK = ["element", "charge"]
EK = ["order"]


# ---------------------------------------------------------------- implementation adapters
def canon_sets(xs):
    return sorted(sorted(int(v) for v in x) for x in xs)


def impl_exact(G, nk, ek, anchor_largest=True):
    from synkit.Graph.Matcher.automorphism import Automorphism

    A = Automorphism(G, node_attr_keys=nk, edge_attr_keys=ek, anchor_largest_component=anchor_largest)
    anc = A.anchor_component
    return {"orbits": canon_sets(A.orbits), "n_aut": int(A.n_automorphisms),
            "anchor": None if anc is None else sorted(int(v) for v in anc),
            "components": canon_sets(A.components)}


def impl_wl(G, nk, ek, max_iter):
    from synkit.Graph.Matcher.auto_est import AutoEst

    try:
        E = AutoEst(G, node_attrs=nk, edge_attrs=ek, max_iter=max_iter).fit()
    except TypeError:
        return {"error": "TypeError"}  # sorting mixed None/number signatures (malformed stream only)
    return {"orbits": canon_sets(E.orbits), "anchor": sorted(int(v) for v in E.anchor_component)}


def impl_dedup(matches, po, pa, ho):
    from synkit.Graph.Matcher.dedup_matches import deduplicate_matches_with_anchor

    ms = [{p: h for p, h in m} for m in matches]
    try:
        r = deduplicate_matches_with_anchor(
            ms,
            pattern_orbits=None if po is None else [frozenset(o) for o in po],
            pattern_anchor=None if pa is None else frozenset(pa),
            host_orbits=None if ho is None else [frozenset(o) for o in ho])
    except ValueError:
        return {"error": "ValueError"}
    return {"kept": [[[int(p), int(h)] for p, h in m.items()] for m in r]}


# ---------------------------------------------------------------- generators
ELEMS = ["C", "N", "O", "S"]


def mk_graph(n_ids, edges, elems, charges=None, order_of=None, complete=True):
    import networkx as nx

    G = nx.Graph()
    for i, v in enumerate(n_ids):
        d = {"element": elems[i], "charge": 0 if charges is None else charges[i]}
        G.add_node(v, **d)
    for k, (a, b) in enumerate(edges):
        G.add_edge(n_ids[a], n_ids[b], order=(1.0 if order_of is None else order_of[k]))
    return G


def scramble(rnd, G):
    """Same graph up to isomorphism: fresh non-contiguous ids, shuffled node and edge insertion order."""
    import networkx as nx

    nodes = list(G.nodes())
    ids = rnd.sample(range(0, 3 * len(nodes) + 5), len(nodes))
    ren = dict(zip(nodes, ids))
    order = nodes[:]
    rnd.shuffle(order)
    H = nx.Graph()
    for v in order:
        H.add_node(ren[v], **dict(G.nodes[v]))
    es = list(G.edges(data=True))
    rnd.shuffle(es)
    for u, v, d in es:
        if rnd.random() < 0.5:
            u, v = v, u
        H.add_edge(ren[u], ren[v], **dict(d))
    return H


def tiny_classes(nmax):
    """Every labelled graph on 1..nmax nodes over 2 elements x 2 bond orders, once per isomorphism class."""
    from networkx.generators.atlas import graph_atlas_g

    for g in graph_atlas_g():
        n = g.number_of_nodes()
        if n == 0 or n > nmax:
            continue
        V = list(range(n))
        E = [tuple(sorted(e)) for e in g.edges()]
        eidx = {e: i for i, e in enumerate(E)}
        auts = []
        for p in itertools.permutations(V):
            if all(tuple(sorted((p[u], p[v]))) in eidx for u, v in E):
                auts.append((p, [eidx[tuple(sorted((p[u], p[v])))] for (u, v) in E]))
        for nl in itertools.product((0, 1), repeat=n):
            for el in itertools.product((0, 1), repeat=len(E)):
                cur = (nl, el)
                canonical = True
                for p, ep in auts:
                    nl2 = [0] * n
                    for v in V:
                        nl2[p[v]] = nl[v]
                    el2 = [0] * len(E)
                    for i, j in enumerate(ep):
                        el2[j] = el[i]
                    if (tuple(nl2), tuple(el2)) < cur:
                        canonical = False
                        break
                if canonical:
                    yield n, E, nl, el


def mol_like(rnd, n, p_ring=0.35, uniform=False):
    """random tree with degree <= 4 plus ring closures"""
    edges = []
    deg = [0] * n
    for v in range(1, n):
        cands = [u for u in range(v) if deg[u] < 4]
        u = rnd.choice(cands)
        edges.append((u, v))
        deg[u] += 1
        deg[v] += 1
    for _ in range(n // 3 + 1):
        if rnd.random() < p_ring and n >= 3:
            u, v = rnd.sample(range(n), 2)
            if (min(u, v), max(u, v)) not in [(min(a, b), max(a, b)) for a, b in edges] and deg[u] < 4 and deg[v] < 4:
                edges.append((u, v))
                deg[u] += 1
                deg[v] += 1
    if uniform:
        elems = ["C"] * n
        charges = [0] * n
        orders = [1.0] * len(edges)
    else:
        elems = [rnd.choice(["C", "C", "C", "N", "O"]) for _ in range(n)]
        charges = [rnd.choice([0] * 9 + [1, -1]) for _ in range(n)]
        orders = [rnd.choice([1.0, 1.0, 1.0, 2.0, 1.5]) for _ in edges]
    return mk_graph(list(range(n)), edges, elems, charges, orders)


def family(rnd):
    import networkx as nx

    k = rnd.choice(["cycle", "kab", "cube", "star", "path", "complete", "prism", "petersen", "repeat", "repeat_mixed", "wheel"])
    if k == "cycle":
        g = nx.cycle_graph(rnd.randint(3, 9))
    elif k == "kab":
        g = nx.complete_bipartite_graph(rnd.randint(1, 4), rnd.randint(1, 4))
    elif k == "cube":
        g = nx.convert_node_labels_to_integers(nx.hypercube_graph(3))
    elif k == "star":
        g = nx.star_graph(rnd.randint(2, 7))
    elif k == "path":
        g = nx.path_graph(rnd.randint(2, 8))
    elif k == "complete":
        g = nx.complete_graph(rnd.randint(2, 5))
    elif k == "prism":
        g = nx.circular_ladder_graph(rnd.randint(3, 4))
    elif k == "wheel":
        g = nx.wheel_graph(rnd.randint(4, 7))
    elif k == "petersen":
        g = nx.petersen_graph()
    else:
        base = rnd.choice([nx.path_graph(2), nx.path_graph(3), nx.cycle_graph(3), nx.cycle_graph(4), nx.star_graph(3), nx.path_graph(1)])
        reps = rnd.randint(2, 3)
        g = nx.Graph()
        for _ in range(reps):
            g = nx.disjoint_union(g, base)
        if k == "repeat_mixed":
            g = nx.disjoint_union(g, rnd.choice([nx.path_graph(2), nx.cycle_graph(5), nx.path_graph(4)]))
    el = "C"
    for v in g.nodes:
        g.nodes[v].update(element=el, charge=0)
    for u, v in g.edges:
        g[u][v]["order"] = 1.0
    r = rnd.random()
    if r < 0.25 and g.number_of_nodes():
        v = rnd.choice(list(g.nodes))
        g.nodes[v]["element"] = "N"
    elif r < 0.4 and g.number_of_edges():
        u, v = rnd.choice(list(g.edges))
        g[u][v]["order"] = 2.0
    elif r < 0.5 and g.number_of_nodes():
        v = rnd.choice(list(g.nodes))
        g.nodes[v]["charge"] = 1
    return k, g


def random_graph(rnd):
    """-> (tag, graph): connected / disconnected (with repeated identical components) <= 9 nodes"""
    import networkx as nx

    r = rnd.random()
    if r < 0.45:
        return "connected", mol_like(rnd, rnd.randint(2, 9), uniform=rnd.random() < 0.4)
    parts = []
    total = 0
    ncomp = rnd.randint(2, 4)
    for _ in range(ncomp):
        if parts and rnd.random() < 0.45:
            g = parts[rnd.randrange(len(parts))].copy()
        else:
            g = mol_like(rnd, rnd.randint(1, 4), uniform=rnd.random() < 0.6)
        if total + g.number_of_nodes() > 9:
            break
        total += g.number_of_nodes()
        parts.append(g)
    G = nx.Graph()
    for g in parts:
        G = nx.disjoint_union(G, g)
    return "disconnected", G


def malformed(rnd):
    """graphs with selected attributes missing on some nodes / edges (defaults of the exact matcher)"""
    tag, G = random_graph(rnd)
    G = G.copy()
    for v in G.nodes:
        if rnd.random() < 0.3:
            G.nodes[v].pop("charge", None)
        if rnd.random() < 0.15:
            G.nodes[v].pop("element", None)
    for u, v in G.edges:
        if rnd.random() < 0.25:
            G[u][v].pop("order", None)
    return "malformed-" + tag, G


def attr_complete(G, nk, ek):
    return all(k in d for _, d in G.nodes(data=True) for k in nk) and all(k in d for _, _, d in G.edges(data=True) for k in ek)


# ---------------------------------------------------------------- exact + WL stream
def graph_requests(gj, nk, ek, mi):
    # Automorphism: None/[] -> class defaults (resolved by the model);  AutoEst: None -> defaults, [] stays []
    return [{"cmd": "aut.exact", "graph": gj, "node_keys": nk or [], "edge_keys": ek or [], "anchor_largest": True},
            {"cmd": "aut.wl", "graph": gj, "node_keys": NK if nk is None else nk, "edge_keys": EK if ek is None else ek, "max_iter": mi}]


def largest_ok(anchor, comps, must_exist):
    """anchor must be one of the components of maximal size (which one on ties is not fixed by the property)"""
    if anchor is None:
        return not must_exist
    if not comps:
        return anchor == []
    mx = max(len(c) for c in comps)
    return sorted(anchor) in [c for c in comps if len(c) == mx]


def compare_graph(G, nk, ek, mi, mex, mwl, gate_coarse=True):
    """-> list of (what, detail, spec_relevant) disagreements"""
    out = []
    ie = impl_exact(G, nk, ek)
    iw = impl_wl(G, nk, ek, mi)
    if ie["components"] != mex["components"]:
        out.append(("components differ from the model", {"impl": ie["components"], "model": mex["components"]}, False))
    if ie["n_aut"] != mex["n_aut"]:
        out.append(("number of automorphisms differs from the proven model", {"impl": ie["n_aut"], "model": mex["n_aut"]}, True))
    if ie["orbits"] != mex["orbits"]:
        out.append(("exact orbits differ from the proven model", {"impl": ie["orbits"], "model": mex["orbits"]}, True))
    multi = len(mex["components"]) > 1
    if not largest_ok(ie["anchor"], mex["components"], multi) or (ie["anchor"] is not None and not multi):
        out.append(("exact anchor is not a largest component", {"impl": ie["anchor"], "model": mex["anchor"]}, True))
    if "error" in iw:
        return out, ie, iw
    if iw["orbits"] != mwl["orbits"]:
        out.append(("WL orbit estimate differs from the model", {"impl": iw["orbits"], "model": mwl["orbits"], "max_iter": mi}, False))
    if not largest_ok(iw["anchor"], mex["components"], True):
        out.append(("estimate's anchor is not a largest component", {"impl": iw["anchor"], "model": mwl["anchor"]}, True))
    if gate_coarse:
        cls = {v: i for i, o in enumerate(iw["orbits"]) for v in o}
        for o in ie["orbits"]:
            if len({cls.get(v) for v in o}) > 1:
                out.append(("the orbit estimate separates two nodes of one exact orbit", {"exact_orbit": o, "estimate": iw["orbits"], "max_iter": mi}, True))
                break
        # the model's rounds: every round's colour classes must be coarser than the exact orbits
        for k, rk in enumerate(mwl["rounds_orbits"]):
            c2 = {v: i for i, o in enumerate(rk) for v in o}
            if any(len({c2.get(v) for v in o}) > 1 for o in mex["orbits"]):
                out.append(("model: WL round separates an exact orbit (theorem wl_coarsens contradicted?)", {"round": k}, False))
                break
    return out, ie, iw


def sub_graph(G, keep_nodes, keep_edges):
    import networkx as nx

    H = nx.Graph()
    for v in G.nodes:
        if v in keep_nodes:
            H.add_node(v, **dict(G.nodes[v]))
    for u, v, d in G.edges(data=True):
        if u in keep_nodes and v in keep_nodes and (u, v) in keep_edges:
            H.add_edge(u, v, **dict(d))
    return H


def shrink_graph(ctx, G, nk, ek, mi, gate_coarse):
    def fails_g(H):
        if H.number_of_nodes() == 0:
            return False
        gj = graphio.graph(H)
        mex, mwl = ctx.lean().ok(graph_requests(gj, nk, ek, mi))
        return bool(compare_graph(H, nk, ek, mi, mex, mwl, gate_coarse)[0])

    nodes = list(G.nodes)
    edges = [(u, v) for u, v in G.edges]
    nodes = shrink_seq(nodes, lambda ns: fails_g(sub_graph(G, set(ns), set(edges))), budget=60)
    edges = [e for e in edges if e[0] in nodes and e[1] in nodes]
    edges = shrink_seq(edges, lambda es: fails_g(sub_graph(G, set(nodes), set(es))), budget=60)
    return sub_graph(G, set(nodes), set(edges))


def run_graphs(ctx, cases, stream):
    """cases: list of (tag, G, nk, ek, max_iter)"""
    reqs = []
    for tag, G, nk, ek, mi in cases:
        reqs += graph_requests(graphio.graph(G), nk, ek, mi)
    reps = ctx.lean().ok(reqs, shards=8)
    for i, (tag, G, nk, ek, mi) in enumerate(cases):
        mex, mwl = reps[2 * i], reps[2 * i + 1]
        complete = attr_complete(G, nk or NK, ek or EK)
        diffs, ie, iw = compare_graph(G, nk, ek, mi, mex, mwl, gate_coarse=complete)
        n = G.number_of_nodes()
        ncomp = len(mex["components"])
        ctx.count(f"{stream}:{tag}")
        ctx.count("nodes:%d" % n)
        ctx.count("components:%s" % (ncomp if ncomp < 4 else "4+"))
        ctx.count("n_aut:" + ("1" if mex["n_aut"] == 1 else "2-7" if mex["n_aut"] < 8 else "8-47" if mex["n_aut"] < 48 else "48+"))
        ctx.count("max_iter:%d" % mi)
        if "error" in iw:
            ctx.count("wl_impl_TypeError(malformed)")
        else:
            ctx.count("estimate_equals_exact" if iw["orbits"] == ie["orbits"] else "estimate_strictly_coarser_or_other")
            if not complete:
                cls = {v: k for k, o in enumerate(iw["orbits"]) for v in o}
                if any(len({cls.get(v) for v in o}) > 1 for o in ie["orbits"]):
                    ctx.count("recorded:estimate_separates_exact_orbit_on_graph_with_missing_attributes(default vs None)")
        if ie["anchor"] is not None:
            ctx.count("anchor_equals_model" if ie["anchor"] == mex["anchor"] else "anchor_other_largest")
        if "anchor" in iw:
            ctx.count("est_anchor_equals_model" if iw["anchor"] == mwl["anchor"] else "est_anchor_other_largest")
        gj = graphio.graph(G)
        ctx.case([gj, nk, ek, mi], nontrivial=(n >= 2 and (mex["n_aut"] > 1 or ncomp > 1)),
                 sample={"stream": stream, "tag": tag, "graph": gj, "n_aut": mex["n_aut"], "orbits": mex["orbits"]} if 3 <= n <= 5 else None)
        if diffs:
            small = shrink_graph(ctx, G, nk, ek, mi, complete)
            sj = graphio.graph(small)
            mex2, mwl2, spec = ctx.lean().ok(graph_requests(sj, nk, ek, mi) + [{"cmd": "spec.aut", "graph": sj, "node_keys": nk or [], "edge_keys": ek or []}])
            d2, ie2, iw2 = compare_graph(small, nk, ek, mi, mex2, mwl2, complete)
            what, detail, spec_rel = (d2 or diffs)[0]
            prod = 1
            for c in spec["counts"]:
                prod *= c
            spec_violated = spec_rel and (ie2["n_aut"] != prod or ie2["orbits"] != spec["orbits"] or "separates" in what or "anchor" in what)
            ctx.violation(what, {"graph": sj, "node_keys": nk, "edge_keys": ek, "max_iter": mi, "kind": "graph"},
                          {"detail": detail, "impl_exact": ie2, "impl_wl": iw2, "spec": spec, "stream": stream, "tag": tag},
                          no_input=not spec_violated)
            if len(ctx.violations) >= 5:
                return


# ---------------------------------------------------------------- dedup stream
def pattern_for(rnd):
    import networkx as nx

    k = rnd.choice(["path2", "path3", "path4", "star3", "cycle3", "cycle4", "two_edges", "edge_plus_node", "branch", "cycle6"])
    g = {"path2": nx.path_graph(2), "path3": nx.path_graph(3), "path4": nx.path_graph(4), "star3": nx.star_graph(3),
         "cycle3": nx.cycle_graph(3), "cycle4": nx.cycle_graph(4), "cycle6": nx.cycle_graph(6),
         "two_edges": nx.disjoint_union(nx.path_graph(2), nx.path_graph(2)),
         "edge_plus_node": nx.disjoint_union(nx.path_graph(2), nx.path_graph(1)),
         "branch": nx.Graph([(0, 1), (1, 2), (1, 3), (3, 4)])}[k]
    for v in g.nodes:
        g.nodes[v].update(element="C", charge=0)
    for u, v in g.edges:
        g[u][v]["order"] = 1.0
    if rnd.random() < 0.3:
        v = rnd.choice(list(g.nodes))
        g.nodes[v]["element"] = "N"
    return k, g


def host_for(rnd, pat):
    import networkx as nx

    n = rnd.randint(4, 9)
    if rnd.random() < 0.15:
        # dense host (complete graph / wheel): many embeddings that differ by non-automorphic orbit-wise permutations
        G = nx.complete_graph(rnd.randint(4, 6)) if rnd.random() < 0.6 else nx.wheel_graph(rnd.randint(5, 7))
        for v in G.nodes:
            G.nodes[v].update(element="C", charge=0)
        for u, v in G.edges:
            G[u][v]["order"] = 1.0
        return G
    G = mol_like(rnd, n, p_ring=0.6, uniform=True)
    for v in G.nodes:
        if rnd.random() < 0.25:
            G.nodes[v]["element"] = "N"
    if rnd.random() < 0.4:
        G = nx.disjoint_union(G, mol_like(rnd, rnd.randint(2, 4), uniform=True))
    return G


def dedup_case(rnd):
    """-> (tag, matches, po, pa, ho) with matches from the real sub-graph search"""
    from synkit.Graph.Matcher.subgraph_matcher import SubgraphSearchEngine
    from synkit.Graph.Matcher.automorphism import Automorphism
    from synkit.Graph.Matcher.auto_est import AutoEst

    pk, pat = pattern_for(rnd)
    pat = scramble(rnd, pat)
    host = scramble(rnd, host_for(rnd, pat))
    strategy = rnd.choice(["all", "all", "comp", "bt"])
    raw = SubgraphSearchEngine.find_subgraph_mappings(host, pat, node_attrs=NK, edge_attrs=EK, strategy=strategy, strict_cc_count=False)
    matches = [[[int(p), int(h)] for p, h in m.items()] for m in raw]
    if len(matches) > 120:
        idx = sorted(rnd.sample(range(len(matches)), 120))
        matches = [matches[i] for i in idx]
    mode = rnd.choice(["exact", "exact", "est", "host_only", "both", "pattern_no_anchor", "none", "foreign", "partial", "overlap", "empty_po", "anchor_only"])
    po = pa = ho = None
    if mode in ("exact", "both", "pattern_no_anchor", "partial", "foreign"):
        A = Automorphism(pat)
        po = [sorted(o) for o in A.orbits]
        pa = None if A.anchor_component is None else sorted(A.anchor_component)
        if mode == "pattern_no_anchor":
            pa = None
    if mode == "est":
        E = AutoEst(pat, node_attrs=NK + ["aromatic", "hcount"], edge_attrs=EK).fit()
        po = [sorted(o) for o in E.orbits]
        pa = sorted(E.anchor_component)
        if rnd.random() < 0.5:
            # anchor = one pattern node only, so that free orbits exist
            pa = [rnd.choice(sorted(pat.nodes))]
    if mode in ("host_only", "both"):
        ho = [sorted(o) for o in Automorphism(host).orbits]
    if mode == "foreign":
        # host orbits that do not cover every host node -> ValueError as soon as such a node is hit;
        # overlapping orbits (the later index wins)
        hs = sorted(host.nodes)
        ho = [sorted(rnd.sample(hs, rnd.randint(1, len(hs)))) for _ in range(rnd.randint(1, 3))]
    if mode == "empty_po":
        # pattern_orbits given but empty: falls back to the host-only signature (identity or host orbits)
        po = []
        pa = rnd.choice([None, []])
        if rnd.random() < 0.5:
            ho = [sorted(o) for o in Automorphism(host).orbits]
    if mode == "anchor_only":
        # an anchor without usable orbits: po = [] with an anchor (anchored placement only), or po = None (anchor ignored)
        po = rnd.choice([[], None])
        pa = sorted(rnd.sample(sorted(pat.nodes), rnd.randint(1, pat.number_of_nodes())))
        if po is None:
            ho = [sorted(o) for o in Automorphism(host).orbits]
    if mode == "overlap":
        # host "orbits" that cover every host node but overlap: the later index wins
        hs = sorted(host.nodes)
        ho = [hs] + [sorted(rnd.sample(hs, rnd.randint(1, max(1, len(hs) // 2)))) for _ in range(rnd.randint(1, 3))]
        if rnd.random() < 0.5:
            A = Automorphism(pat)
            po = [sorted(o) for o in A.orbits]
    if mode == "partial":
        matches = [[pr for pr in m if rnd.random() < 0.7] for m in matches]
    if matches and rnd.random() < 0.3:
        # exact duplicates and a reshuffled list
        matches = matches + [list(m) for m in rnd.sample(matches, min(3, len(matches)))]
        rnd.shuffle(matches)
    if matches and rnd.random() < 0.2:
        # same mapping, other dict order
        m = list(rnd.choice(matches))
        rnd.shuffle(m)
        matches.append(m)
    if po is not None and rnd.random() < 0.15:
        rnd.shuffle(po)
    info = None
    if mode in ("exact", "pattern_no_anchor"):
        # automorphisms of the pattern on (element, charge, order), by NetworkX directly (harness-side statistic only)
        from networkx.algorithms.isomorphism import GraphMatcher, categorical_node_match, categorical_edge_match
        gm = GraphMatcher(pat, pat, node_match=categorical_node_match(NK, ["*", 0]), edge_match=categorical_edge_match(EK, [1.0]))
        info = [dict(a) for a in gm.isomorphisms_iter()]
    return f"{pk}/{strategy}/{mode}", matches, po, pa, ho, info


def is_sublist(small, big):
    it = iter(big)
    return all(any(x == y for y in it) for x in small)


def dedup_diffs(matches, po, pa, ho, model):
    impl = impl_dedup(matches, po, pa, ho)
    out = []
    if "kept" in impl and not is_sublist(impl["kept"], matches):
        out.append(("de-duplication result is not a sub-list of its input in the original order", True))
    if ("error" in impl) != ("error" in model):
        out.append(("de-duplication raises where the model does not (or vice versa)", False))
    elif "kept" in impl and impl["kept"] != model["kept"]:
        out.append(("de-duplication keeps other matches than the model", False))
    return out, impl


def run_dedup(ctx, cases, stream):
    reqs = [{"cmd": "aut.dedup", "matches": c[1], "pattern_orbits": c[2], "pattern_anchor": c[3], "host_orbits": c[4]} for c in cases]
    reps = ctx.lean().ok(reqs, shards=8)
    for case, model in zip(cases, reps):
        tag, ms, po, pa, ho = case[:5]
        info = case[5] if len(case) > 5 else None
        if info is not None and "kept" in model:
            # recorded, not gated: dropped matches that are NOT a kept match composed with a pattern automorphism
            kept = [dict(map(tuple, k)) for k in model["kept"]]
            keptset = {tuple(sorted(k.items())) for k in kept}
            for m in ms:
                dm = dict(map(tuple, m))
                if tuple(sorted(dm.items())) in keptset:
                    continue
                related = any(tuple(sorted((p, dm[tau[p]]) for p in dm)) in keptset for tau in info)
                ctx.count("recorded:dropped_match_" + ("is_kept_match_composed_with_a_pattern_automorphism" if related
                                                        else "NOT_related_to_any_kept_match_by_a_pattern_automorphism"))
        diffs, impl = dedup_diffs(ms, po, pa, ho, model)
        mode = tag.split("/")[-1]
        ctx.count(f"{stream}:mode:{mode}")
        ctx.count("dedup_matches_in", len(ms))
        if "kept" in model:
            ctx.count("dedup_matches_kept", len(model["kept"]))
            ctx.count("dedup_matches_merged", len(ms) - len(model["kept"]))
            ctx.count("dedup_case:" + ("merges" if len(model["kept"]) < len(ms) else "keeps_all"))
        else:
            ctx.count("dedup_case:ValueError")
        ctx.case([ms, po, pa, ho], nontrivial=len(ms) >= 2 and (po is not None or ho is not None),
                 sample={"stream": stream, "tag": tag, "matches": ms[:4], "pattern_orbits": po, "pattern_anchor": pa, "host_orbits": ho,
                         "kept": len(model.get("kept", []))} if 2 <= len(ms) <= 6 else None)
        if diffs:
            def fails(cand):
                m2 = ctx.lean().ok([{"cmd": "aut.dedup", "matches": cand, "pattern_orbits": po, "pattern_anchor": pa, "host_orbits": ho}])[0]
                return bool(dedup_diffs(cand, po, pa, ho, m2)[0])
            small = shrink_seq(ms, fails, budget=80)
            m2 = ctx.lean().ok([{"cmd": "aut.dedup", "matches": small, "pattern_orbits": po, "pattern_anchor": pa, "host_orbits": ho}])[0]
            d2, impl2 = dedup_diffs(small, po, pa, ho, m2)
            what, spec_violated = (d2 or diffs)[0]
            ctx.violation(what, {"kind": "dedup", "matches": small, "pattern_orbits": po, "pattern_anchor": pa, "host_orbits": ho},
                          {"impl": impl2, "model": m2, "stream": stream, "tag": tag}, no_input=not spec_violated)
            if len(ctx.violations) >= 5:
                return


# ---------------------------------------------------------------- entry points
def load_regress():
    d = ROOT / "regress" / "C11"
    return [json.loads(f.read_text()) for f in sorted(d.glob("*.json"))] if d.exists() else []


def run_case_dict(ctx, c, stream):
    if c.get("kind") == "dedup":
        run_dedup(ctx, [("regress", c["matches"], c["pattern_orbits"], c["pattern_anchor"], c["host_orbits"], None)], stream)
    else:
        G = graphio.to_nx(c["graph"])
        run_graphs(ctx, [("regress", G, c["node_keys"], c["edge_keys"], c.get("max_iter", 10))], stream)


def run(ctx):
    ctx.trusted = [
        "Lean 4.33 kernel; axioms of the property theorems as listed in obligation_list",
        "hand-written model SynKitModel/Automorphism.lean tied to /repo by this correspondence run (not by translation)",
        "NetworkX VF2 (GraphMatcher.isomorphisms_iter) and connected_components are external: the model uses the proven enumerator "
        "Match.auts and its own closure-based components; that VF2 enumerates exactly the self-isomorphisms is what the comparison checks",
        "Driver/Automorphism.lean + Driver/GraphJson.lean JSON codec, harness/graphio.py encoder, this adapter (sets sorted before comparison)",
        "the order of Automorphism.orbits / AutoEst.orbits lists and the tie-break between equally large anchor components are not fixed by "
        "the property: orbit lists are compared as partitions, anchors as 'one of the largest components' (agreement with the model's choice is counted)",
        "the reactor clause (pruning never changes the set of distinct reactions) belongs to SynReactor and is checked with C03-C05 (DESIGN §6 F11); "
        "here de-duplication is checked on its own",
    ]
    ctx.assumptions = [
        "graphs are simple undirected NetworkX graphs with non-negative integer node ids",
        "'never separates an orbit' is gated on graphs whose nodes/edges all carry the selected attributes (the exact matcher reads a missing "
        "charge as 0 / element as '*' / order as 1.0, the estimate reads it as None); graphs with missing attributes are compared impl = model only",
        "attribute values of one key have one type (numbers in half-units, strings, tuples), so Python == is structural equality",
    ]
    ctx.gen_rule = ("regression corpus first; every labelled graph on <=4 (quick) / <=5 (thorough) nodes over 2 elements x 2 bond orders, once per "
                    "isomorphism class, under a random renumbering and insertion order; random molecule-like connected graphs and disconnected unions "
                    "(with repeated identical components) <=9 nodes over C/N/O, charges, orders 1/1.5/2; symmetric families (cycles, K_ab, cube, stars, "
                    "paths, K_n, prisms, wheels, Petersen, repeated identical components) plain and with one label/order/charge changed; a malformed "
                    "stream with selected attributes missing; max_iter drawn from {0,1,2,3,10}; node_keys/edge_keys default and explicit. "
                    "De-duplication: match lists from SubgraphSearchEngine.find_subgraph_mappings (all/comp/bt) of small symmetric patterns in random "
                    "hosts, with exact or estimated pattern orbits/anchor, host orbits, both, none, partial matches, duplicates, foreign host orbits.")
    ctx.nontrivial_rule = ("graph case: >=2 nodes and (a non-trivial automorphism or >=2 components), distinct as encoded graph + keys + max_iter; "
                           "dedup case: >=2 matches and at least one orbit argument, distinct as JSON value")
    build_and_audit(ctx, ["SynKitProofs.Props.C11"], "SynKitProofs/Audit/C11.lean", THEOREMS)
    rnd = ctx.rnd

    for c in load_regress():
        run_case_dict(ctx, c.get("case", c), "regress")
        ctx.count("regress_cases")

    def keys():
        r = rnd.random()
        if r < 0.6:
            return NK, EK
        if r < 0.75:
            return None, None          # constructor defaults
        if r < 0.85:
            return ["element"], EK
        return NK, ["order", "missing_key"]

    def mi():
        return rnd.choice([0, 1, 2, 3, 10, 10, 10])

    # tiny exhaustive
    nmax = 4 if ctx.quick else 5
    cases = []
    for n, E, nl, el in tiny_classes(nmax):
        G = mk_graph(list(range(n)), E, ["CN"[x] for x in nl], None, [1.0 + x for x in el])
        cases.append(("n%d" % n, scramble(rnd, G), NK, EK, 10))
    if not ctx.violations:
        run_graphs(ctx, cases, "tiny")
    ctx.extra["exhaustive"] = not ctx.violations
    ctx.extra["exhaustive_part"] = f"all {len(cases)} isomorphism classes of labelled graphs on <= {nmax} nodes, 2 elements x 2 orders"

    nrand, nfam, nmal, ndedup = (600, 400, 150, 600) if ctx.quick else (10000, 4000, 2000, 10000)
    cases = []
    for _ in range(nrand):
        tag, G = random_graph(rnd)
        nk, ek = keys()
        cases.append((tag, scramble(rnd, G), nk, ek, mi()))
    for _ in range(nfam):
        tag, G = family(rnd)
        cases.append(("family-" + tag, scramble(rnd, G), NK, EK, mi()))
    if not ctx.violations:
        run_graphs(ctx, cases, "random")
    cases = []
    for _ in range(nmal):
        tag, G = malformed(rnd)
        cases.append((tag, scramble(rnd, G), NK, EK, mi()))
    if not ctx.violations:
        run_graphs(ctx, cases, "malformed")
    ctx.obligation("correspondence: Automorphism counts/orbits/anchor impl == model; AutoEst orbits impl == model; estimate coarser than exact", not ctx.violations)

    nv = len(ctx.violations)
    dcases = [dedup_case(rnd) for _ in range(ndedup)]
    if not ctx.violations:
        run_dedup(ctx, dcases, "dedup")
    ctx.obligation("correspondence: deduplicate_matches_with_anchor impl == model, result a sub-list in input order", len(ctx.violations) == nv)


def replay(ctx, case):
    run_case_dict(ctx, case["case"], "replay")

"""C09 — reaction normal forms preserve the reaction; equivalence checks are exact.

Lean side (Props/C09.lean): the graph-level model of `CanonRSMI.canonicalise` returns a reaction
whose ITS graph is isomorphic to the input's, is a fixed point and is numbering-independent for
an injective, relabel-invariant order key; the validator model decides exactly ITS / centre
isomorphism and accepts every renumbering; the balance model answers true exactly when element
counts and charge agree; `standardize` is idempotent and permutation-invariant given the stated
hypotheses on the opaque canonical SMILES.

Correspondence on the working tree (thirteen streams, regressions first):
 1. canonicaliser, back-ends wl and nauty: model `rxn.canon` (fed with the back-end's labelling)
    = implementation's canonical graphs; specification gates on the implementation's output:
    ITS(canon r) isomorphic to ITS(r) (Lean `match.iso`) and `smiles_check(..., "ITS")` true, equal
    unmapped sides, canon(canon r) = canon r, and canon(variant) = canon(r) for renumbered /
    re-rooted / shuffled variants whenever the reactant graph has no non-trivial automorphism
    (Lean `auts` on element/aromatic/charge/hcount/order);
 2. validator, methods ITS and RC: verdict = Lean `match.iso` on the ITS / centre graphs = model
    `rxn.aamCheck`, on renumberings (must accept) and on transpositions of two centre atoms on
    the product side (verdict must equal the Lean decision; both outcomes occur); the minimal ITS /
    centre model = implementation's ITS / `get_rc` on the attributes the validator reads;
 3. balance verdict = model verdict on original / fragment-deleted / fragment-duplicated variants;
 4. `Standardize.fit`: fit∘fit = fit, invariance under atom order / fragment order / map numbers,
    and fit = model (sort + `[HH]` rewrite over RDKit's per-fragment canonical SMILES);
 5.-7. canonicaliser SESSIONS (one CanonRSMI instance answers a history of queries; the specification of every
    answer is evaluated from (query, answer) alone, so it is independent of the history, as the pure Lean model
    is): 5. fully mapped reactions - repeated queries, other outcomes of the same mapped reactant side,
    renumbered copies, the instance's own output fed back; 6. partially mapped reactions - unmapped reagent
    fragments on the reactant side, the same fragment twice, the same reagents over consecutive calls, leaving
    groups without map numbers; 7. both with non-default options (wl_iterations, node_attrs permuted / fewer /
    more keys).  Gates: ITS-equivalent to the query (validator + Lean `match.iso`), same unmapped sides, fixed
    point, answer = a fresh instance's answer.  A failing case is a list of sessions that was re-run in a NEW
    process before it is written (module-level state cannot be reproduced otherwise).
 8. validator ENTRY POINTS: check_pair and validate_smiles (list of dicts / DataFrame / default column names; methods RC, ITS
    and the default; flags not passed and in all four combinations; arguments by keyword / by position; tables of 1-6 rows
    with repeated records, 1-3 mapper columns in shuffled order) must answer, per (row, column), what smiles_check answers with
    the same method and flags - over the ground truth and its reactant tautomers when ignore_tautomers=False - and, when
    ignore_tautomers=True, what Lean `match.iso` decides on the ITS / centre graphs built with the same ignore_aromaticity.
    Inputs: hand-written re-mappings related by a reactant tautomer shift (amidine N/N, acid O/O), isomeric aromatisations
    (soft bond changes only), different reactions with isomorphic centres, and corpus reactions with renumberings,
    centre transpositions, tautomer-shift transpositions and same-centre partner reactions.
 2'. (inside stream 2) NormalizeAAM.fit (both values of fix_aam_indice) as a further producer of re-spellings - its output must be
    a renumbering (ITS / centre isomorphic to the input's, Lean `match.iso`; ITS only without explicit hydrogen atoms) and the
    validator must accept it; check_equivariant_graph called directly on the ground truth + 4 variants (pairs that the Lean
    decisions determine).
 9.-12. (generated last) the entry points, options and error branches that coverage/C09.json showed as never executed: the batch
    balance check dicts_balance_check (all input forms, column names, worker counts; verdict = Lean `rxn.balanced`); Standardize
    with ignore_stereo=False / remove_aam=False / fragments RDKit rejects / strings that are not A>>B (model with explicit error
    branches, sorted by Lean), remove_atom_mapping with another separator; CanonRSMI on degenerate reactions and through
    __call__ (model `rxn.canon` incl. Err.emptyMap), remap_graph in both input forms (Lean `rxn.remap`), get_aam_pairwise_indices
    (brute force); reactions with a side RDKit rejects through the balance check, the validator entry points and FixAAM.
 13. (generated last) EXPLICIT MAPPED HYDROGENS: corpus reactions re-spelled with explicit [H:n] atoms that stay on their heavy atom
    (spectators) next to ones that move (centre hydrogens), the mechanism steps of /repo/Data/Testcase/mech.json.gz, map numbers with
    gaps; through the case functions - and gates - of streams 1-7 and 11.  NormalizeAAM.fit folds spectators, so on these inputs its
    output is compared (Lean `match.iso`, ITS and centre) with the input re-spelled by the harness' own `fold_spectators`.
"""
import json
import logging

from .. import graphio
from ..core import ROOT, build_and_audit, load_known, match_known

THEOREMS = [
    "SynKit.RxnNorm.canonRxnWith_equiv",
    "SynKit.RxnNorm.canonRxn_equiv",
    "SynKit.RxnNorm.canonRxn_numbering_indep",
    "SynKit.RxnNorm.canonRxn_fix",
    "SynKit.RxnNorm.canonOrder_atom_order_indep",
    "SynKit.RxnNorm.canonRxn_atom_order_indep",
    "SynKit.RxnNorm.aamCheck_iff_iso",
    "SynKit.RxnNorm.aamCheck_renumber",
    "SynKit.RxnNorm.balanced_iff",
    "SynKit.RxnNorm.standardize_idem",
    "SynKit.RxnNorm.standardize_perm",
    "SynKit.RxnNorm.standardize_rewrite",
    "SynKit.RxnNorm.C09.fullStatement",
    "SynKit.RxnNorm.canonRxnWith_unpaired_no_collision",
    "SynKit.RxnNorm.canonRxnWith_unpaired_equiv",
]

NODE_KEYS = ["element", "aromatic", "hcount", "charge", "neighbors", "atom_map"]
EDGE_KEYS = ["order"]
BACKENDS = ("wl", "nauty")
CLASS_WL = "wl_tie_on_asymmetric_reactant"
CLASS_PROD_ONLY = "product_atom_without_reactant_partner"


# ---------------------------------------------------------------- set-up / RDKit helpers
def _quiet():
    from rdkit import RDLogger

    RDLogger.DisableLog("rdApp.*")
    logging.disable(logging.CRITICAL)


def load_corpus():
    out = []
    for line in (ROOT / "corpus" / "c09_reactions.txt").read_text().splitlines():
        if not line or line.startswith("#"):
            continue
        src, rs = line.split("\t")
        out.append((src, rs))
    return out


def parse_rxn(rs):
    """(G, H) as the validator and the canonicaliser see them, or None (unparseable)."""
    from synkit.IO.chem_converter import rsmi_to_graph

    if rs.count(">>") != 1:
        return None
    try:
        G, H = rsmi_to_graph(rs, drop_non_aam=True, sanitize=True, use_index_as_atom_map=True)
    except Exception:
        return None
    if G is None or H is None or G.number_of_nodes() == 0 or H.number_of_nodes() == 0:
        return None
    return G, H


def enc(G):
    return graphio.graph(G, NODE_KEYS, EDGE_KEYS)


def side_mols(rs):
    from rdkit import Chem

    r, p = rs.split(">>")
    return Chem.MolFromSmiles(r, sanitize=False), Chem.MolFromSmiles(p, sanitize=False)


def renumber(rs, rnd, canonical=False):
    """Random permutation of the atom-map numbers (same permutation on both sides)."""
    from rdkit import Chem

    mr, mp = side_mols(rs)
    maps = sorted({a.GetAtomMapNum() for m in (mr, mp) for a in m.GetAtoms() if a.GetAtomMapNum()})
    perm = maps[:]
    rnd.shuffle(perm)
    d = dict(zip(maps, perm))
    for m in (mr, mp):
        for a in m.GetAtoms():
            if a.GetAtomMapNum():
                a.SetAtomMapNum(d[a.GetAtomMapNum()])
    return Chem.MolToSmiles(mr, canonical=canonical) + ">>" + Chem.MolToSmiles(mp, canonical=canonical)


def low_renumber(rs, extra):
    """Renumbering that gives the map numbers in `extra` the smallest values (adversarial for atoms that
    occur on one side only)."""
    from rdkit import Chem

    mr, mp = side_mols(rs)
    maps = sorted({a.GetAtomMapNum() for m in (mr, mp) for a in m.GetAtoms() if a.GetAtomMapNum()})
    order = [m for m in maps if m in extra] + [m for m in maps if m not in extra]
    d = {old: i + 1 for i, old in enumerate(order)}
    for m in (mr, mp):
        for a in m.GetAtoms():
            if a.GetAtomMapNum():
                a.SetAtomMapNum(d[a.GetAtomMapNum()])
    return Chem.MolToSmiles(mr, canonical=False) + ">>" + Chem.MolToSmiles(mp, canonical=False)


def rewrite(rs, rnd):
    """Re-root every fragment (RDKit random SMILES, seeded from rnd) and shuffle the fragments."""
    from rdkit import Chem

    out = []
    for side in rs.split(">>"):
        frags = side.split(".")
        rnd.shuffle(frags)
        new = []
        for f in frags:
            m = Chem.MolFromSmiles(f, sanitize=False)
            if m is None:
                return None
            new.append(Chem.MolToRandomSmilesVect(m, 1, randomSeed=rnd.randrange(1, 2 ** 30))[0])
        out.append(".".join(new))
    return ">>".join(out)


def transpose_product(rs, a, b):
    from rdkit import Chem

    r, p = rs.split(">>")
    mp = Chem.MolFromSmiles(p, sanitize=False)
    for at in mp.GetAtoms():
        if at.GetAtomMapNum() == a:
            at.SetAtomMapNum(b)
        elif at.GetAtomMapNum() == b:
            at.SetAtomMapNum(a)
    return r + ">>" + Chem.MolToSmiles(mp, canonical=False)


def lower_product_bond(rs, rnd):
    """The same mapped atoms with one non-aromatic multiple bond of the product lowered by one. All corpus
    atoms are bracket atoms (explicit H counts), so no node label changes: only one order pair of the ITS does."""
    from rdkit import Chem

    r, p = rs.split(">>")
    mp = Chem.MolFromSmiles(p, sanitize=False)
    if mp is None:
        return None
    cand = [b for b in mp.GetBonds() if b.GetBondType() in (Chem.BondType.DOUBLE, Chem.BondType.TRIPLE)
            and b.GetBeginAtom().GetAtomMapNum() and b.GetEndAtom().GetAtomMapNum()]
    if not cand:
        return None
    b = rnd.choice(cand)
    b.SetBondType(Chem.BondType.SINGLE if b.GetBondType() == Chem.BondType.DOUBLE else Chem.BondType.DOUBLE)
    b.SetStereo(Chem.BondStereo.STEREONONE)
    try:
        return r + ">>" + Chem.MolToSmiles(mp, canonical=False)
    except Exception:
        return None


def unmapped_side(smi):
    """Constitution of one side without atom maps: canonical non-isomeric SMILES, hydrogens folded."""
    from rdkit import Chem

    m = Chem.MolFromSmiles(smi)
    if m is None:
        return None
    for a in m.GetAtoms():
        a.SetAtomMapNum(0)
    try:
        m = Chem.RemoveHs(m)
    except Exception:
        pass
    return Chem.MolToSmiles(m, isomericSmiles=False)


def unmapped(rs):
    r, p = rs.split(">>")
    return [unmapped_side(r), unmapped_side(p)]


def wl_tie(G):
    """Class predicate, from the input alone: two reactant atoms share (WL-3 colour, degree)."""
    from networkx.algorithms.graph_hashing import weisfeiler_lehman_subgraph_hashes

    g2 = G.copy()
    for n, d in g2.nodes(data=True):
        d["_wl_init"] = tuple(d.get(a, "") for a in ("element", "aromatic", "charge", "hcount"))
    h = weisfeiler_lehman_subgraph_hashes(g2, node_attr="_wl_init", edge_attr="order", iterations=3)
    keys = [(h[n][-1], G.degree[n]) for n in G]
    return len(set(keys)) < len(keys)


# ---------------------------------------------------------------- graph normal forms for comparison
def norm_graph_json(j):
    nodes = sorted([int(n), dict(a)] for n, a in j["nodes"])
    edges = sorted([min(int(u), int(v)), max(int(u), int(v)), dict(a)] for u, v, a in j["edges"])
    return {"nodes": nodes, "edges": edges}


def iso_req(host, pattern):
    return {"cmd": "match.iso", "host": graphio.graph(host, ["typesGH"], ["order"]),
            "pattern": graphio.graph(pattern, ["typesGH"], ["order"]),
            "node_keys": ["typesGH"], "edge_keys": ["order"], "hcount": False}


def its_rc(rs):
    from synkit.Graph.ITS.its_construction import ITSConstruction
    from synkit.Graph.ITS.its_decompose import get_rc

    gh = parse_rxn(rs)
    if gh is None:
        return None
    its = ITSConstruction().ITSGraph(gh[0], gh[1])
    return gh, its, get_rc(its)


# ---------------------------------------------------------------- batching of Lean queries
def run_batch(ctx, gens, shards=8):
    """Case functions are generators that `yield` a list of driver requests and are sent the replies.
    All active cases advance in lock-step, so each round is one (sharded) driver query."""
    pending = []
    for g in gens:
        try:
            pending.append((g, next(g)))
        except StopIteration:
            pass
    while pending:
        flat = [r for _, reqs in pending for r in reqs]
        replies = ctx.lean().ok(flat, shards=shards)
        nxt, i = [], 0
        for g, reqs in pending:
            rep = replies[i:i + len(reqs)]
            i += len(reqs)
            try:
                nxt.append((g, g.send(rep)))
            except StopIteration:
                pass
        pending = nxt


# ---------------------------------------------------------------- stream 1: canonicaliser
def canon_impl(backend, rs):
    """Run CanonRSMI; also capture the back-end's labelling (old id -> new id) before the maps are synced."""
    from synkit.Chem.Reaction.canon_rsmi import CanonRSMI

    cn = CanonRSMI(backend=backend)
    rec = {}
    orig = cn._canon.canonicalise_graph

    def wrapped(g):
        res = orig(g)
        rec["lab"] = sorted([int(d.get("atom_map", 0)), int(n)] for n, d in res.canonical_graph.nodes(data=True))
        return res

    cn._canon.canonicalise_graph = wrapped
    cn.canonicalise(rs)
    return cn, rec.get("lab")


def canon_str(backend, rs):
    from synkit.Chem.Reaction.canon_rsmi import CanonRSMI

    try:
        return CanonRSMI(backend=backend).canonicalise(rs).canonical_rsmi
    except Exception as e:  # noqa: BLE001
        return "EXC:" + type(e).__name__


def canon_case(ctx, backend, src, rs, n_variants, tag="corpus"):
    """One reaction through one back-end: model correspondence + the four specification gates."""
    from synkit.Chem.Reaction.aam_validator import AAMValidator

    gh = parse_rxn(rs)
    if gh is None:
        ctx.count("canon:skipped_unparseable")
        return
    G, H = gh
    case = {"stream": "canon", "backend": backend, "source": src, "rsmi": rs}
    prod_only = sorted(set(H) - set(G))
    classes = [CLASS_PROD_ONLY] if prod_only else []
    if prod_only and tag != "adversarial":
        # the same reaction with the partner-less product atoms numbered first
        yield from canon_case(ctx, backend, src + ":low", low_renumber(rs, set(prod_only)), 0, tag="adversarial")
    try:
        cn, lab = canon_impl(backend, rs)
        out = cn.canonical_rsmi
    except Exception as e:  # noqa: BLE001
        ctx.case(["canon", backend, rs], False)
        ctx.violation("CanonRSMI raises on a parseable mapped reaction", case, {"exception": repr(e)[:300]}, classes)
        return
    if cn.raw_rsmi != rs:
        ctx.violation("CanonRSMI.raw_rsmi is not the query that was canonicalised", case, {"raw_rsmi": cn.raw_rsmi}, no_input=True)
    out_its = None if (out is None or "None" in out) else its_rc(out)
    reqs = [{"cmd": "rxn.fullyMapped", "G": enc(cn.raw_reactant_graph), "H": enc(cn.raw_product_graph)},
            {"cmd": "rxn.autCount", "G": enc(G)},
            {"cmd": "rxn.canon", "G": enc(cn.raw_reactant_graph), "H": enc(cn.raw_product_graph), "lab": lab}]
    if out_its is not None:
        reqs.append(iso_req(out_its[1], its_rc(rs)[1]))
    replies = yield reqs
    fm, nauts, model = replies[:3]
    asym = nauts == 1
    ctx.count(f"canon:{backend}:cases")
    ctx.count("canon:fully_mapped" if fm else "canon:not_fully_mapped")
    ctx.count("canon:reactants_asymmetric" if asym else "canon:reactants_symmetric")
    ctx.case(["canon", backend, rs], nontrivial=G.number_of_nodes() >= 3 and G.number_of_edges() >= 2,
             sample={"stream": "canon", "backend": backend, "source": src, "rsmi": rs, "canonical": out}
             if len(rs) < 160 else None)

    # (a) model = implementation on the canonical graphs (remap through shared maps, map sync)
    broken = out is None or "None" in out
    model_diff = None
    if "error" in model:
        ctx.count("canon:model_error:" + model["error"])
        # the model answers an error (ValueError / KeyError / collision) where the implementation returned a
        # result.  Since the repair of F23 (product atoms without a reactant partner get fresh ids, mirrored by
        # `unpairedPairs` in the model) a `collision` cannot arise for well-formed graphs and an injective
        # back-end labelling (Lean: canonRxnWith_unpaired_no_collision), so it is a divergence like any other
        # error; only a back-end labelling that is NOT injective (two reactant atoms with one canonical id)
        # can still produce it, and that is reported here too.
        if not broken:
            model_diff = {"model": model, "impl": out}
    else:
        impl_r = norm_graph_json(enc(cn.canonical_reactant_graph))
        impl_p = norm_graph_json(enc(cn.canonical_product_graph))
        if impl_r != norm_graph_json(model["reac"]) or impl_p != norm_graph_json(model["prod"]):
            model_diff = {"impl_reac": impl_r, "model_reac": norm_graph_json(model["reac"]),
                          "impl_prod": impl_p, "model_prod": norm_graph_json(model["prod"])}
    # (b) specification gates on the implementation's output
    spec_bad = None
    if broken:
        spec_bad = "canonical reaction has no product/reactant SMILES (graph_to_smi returned None)"
    else:
        if out_its is None:
            spec_bad = "canonical reaction does not parse"
        else:
            iso = replies[3]
            acc = AAMValidator.smiles_check(out, rs, "ITS")
            if not iso:
                spec_bad = "ITS(canonical) is not isomorphic to ITS(input) (Lean match.iso)"
            elif not acc:
                spec_bad = "smiles_check(canonical, input, 'ITS') is False"
            elif unmapped(out) != unmapped(rs):
                spec_bad = f"unmapped sides differ: {unmapped(out)} vs {unmapped(rs)}"
    if spec_bad:
        ctx.violation("canonical reaction is not equivalent to the input: " + spec_bad, case,
                      {"canonical": out, "product_only_maps": prod_only}, classes)
        return
    if model_diff is not None:
        ctx.violation("canonical graphs differ from the model (remap through shared maps / map sync) although the output is "
                      "equivalent to the input", case, model_diff, no_input=True)
        return
    out2 = canon_str(backend, out)
    if out2 != out:
        ctx.violation("canonical reaction is not a fixed point of the canonicaliser", case,
                      {"canonical": out, "canonical_of_canonical": out2}, classes)
        return
    # (c) numbering / atom-order independence when all reactant atoms are distinguishable
    if not (fm and asym):
        return
    tie = backend == "wl" and wl_tie(G)
    ctx.count(f"canon:{backend}:independence_checked")
    for k in range(n_variants):
        v = renumber(rs, ctx.rnd, canonical=(k % 2 == 1))
        if k % 3 == 2:
            v = rewrite(v, ctx.rnd) or v
        outv = canon_str(backend, v)
        if outv != out:
            ctx.violation("canonical reaction depends on the numbering / atom order although the reactant graph has "
                          "no non-trivial automorphism", {**case, "variant": v},
                          {"canonical": out, "canonical_of_variant": outv, "reactant_atoms": G.number_of_nodes()},
                          [CLASS_WL] if tie else [])
            return


# ---------------------------------------------------------------- stream 2: validator
NORMALIZE_KINDS = ("normalize_aam", "normalize_aam_keep_numbers")
MULTI_CAP = 4


def produced_variant(kind, rs):
    """Re-spellings of a mapped reaction made by the anchored code itself (deterministic)."""
    if kind == "fix_aam":
        from synkit.Chem.Reaction.fix_aam import FixAAM

        return FixAAM.fix_aam_rsmi(rs)
    from synkit.Graph.ITS.normalize_aam import NormalizeAAM

    if kind == "normalize_aam":
        return NormalizeAAM().fit(rs)
    return NormalizeAAM().fit(rs, False) if len(rs) % 2 else NormalizeAAM().fit(rs, fix_aam_indice=False)


def validator_case(ctx, src, rs, n_trans, fixed=None):
    from synkit.Chem.Reaction.aam_validator import AAMValidator
    from synkit.Chem.Reaction.fix_aam import FixAAM

    base = its_rc(rs)
    if base is None:
        ctx.count("validator:skipped_unparseable")
        return
    (G, H), its, rc = base
    # minimal ITS / centre model = implementation (on what the validator reads)
    mi, mr = yield [{"cmd": "rxn.its", "G": enc(G), "H": enc(H)}, {"cmd": "rxn.rc", "G": enc(G), "H": enc(H)}]
    for name, impl_g, mod in (("ITS", its, mi), ("RC", rc, mr)):
        a = norm_graph_json(graphio.graph(impl_g, ["typesGH"], ["order", "standard_order"]))
        b = norm_graph_json({"nodes": [[n, {k: v for k, v in at.items() if k == "typesGH"}] for n, at in mod["nodes"]],
                             "edges": [[u, v, {k: x for k, x in at.items() if k in ("order", "standard_order")}] for u, v, at in mod["edges"]]})
        if a != b:
            ctx.violation(f"{name} graph of the implementation differs from the minimal model on typesGH / order",
                          {"stream": "validator", "source": src, "rsmi": rs}, {"impl": a, "model": b}, no_input=True)
            return
    centre = sorted(rc.nodes)
    has_h = any(d.get("element") == "H" for g in (G, H) for _, d in g.nodes(data=True))
    variants = [("renumber", renumber(rs, ctx.rnd, canonical=False)), ("renumber", renumber(rs, ctx.rnd, canonical=True))]
    try:
        variants.append(("fix_aam", FixAAM.fix_aam_rsmi(rs)))
    except Exception:
        ctx.count("validator:fix_aam_error")
    # the other producer of re-spellings among the anchored files (no random choice): NormalizeAAM.fit, both values of its option
    # quick: one of the two on every second reaction (by the length of the string: no random choice is consumed)
    for kind in (NORMALIZE_KINDS if not ctx.quick or fixed is not None else NORMALIZE_KINDS[len(rs) % 4:][:1]):
        try:
            variants.append((kind, produced_variant(kind, rs)))
        except Exception as e:  # noqa: BLE001
            ctx.count("validator:normalize_aam_error")
            if fixed is None:
                ctx.violation("NormalizeAAM.fit raises on a parseable mapped reaction",
                              {"stream": "validator", "source": src, "rsmi": rs, "kind": kind, "variant": None},
                              {"exception": repr(e)[:300]})
    edited = lower_product_bond(rs, ctx.rnd)
    if edited is not None:
        variants.append(("bond_order_edit", edited))
    prod_maps = sorted(H.nodes)
    twins = [(a, b) for i, a in enumerate(centre) for b in centre[i + 1:]
             if its.nodes[a].get("typesGH") == its.nodes[b].get("typesGH")]
    # centre atoms with equal label pairs: the transpositions most likely to be accepted by one method only
    for a, b in (twins if len(twins) <= 3 else ctx.rnd.sample(twins, 3)):
        variants.append(("transpose_twins", transpose_product(rs, a, b)))
    all_pairs = [(a, b) for i, a in enumerate(centre) for b in centre[i + 1:]]
    if len(all_pairs) <= 6:
        # small centre: every transposition of two centre atoms
        variants += [("transpose_centre", transpose_product(rs, a, b)) for a, b in all_pairs
                     if (a, b) not in twins[:3]]
    for _ in range(n_trans):
        if len(all_pairs) > 6 and ctx.rnd.random() < 0.8:
            a, b = ctx.rnd.sample(centre, 2)
            kind = "transpose_centre"
        elif len(prod_maps) >= 2:
            a = ctx.rnd.choice(prod_maps)
            same = [x for x in prod_maps if x != a and H.nodes[x].get("element") == H.nodes[a].get("element")]
            if not same:
                continue
            b = ctx.rnd.choice(same)
            kind = "transpose_any"
        else:
            continue
        variants.append((kind, transpose_product(rs, a, b)))
    if fixed is not None:  # replay of one recorded variant
        variants = list(fixed)
    # NormalizeAAM.fit folds the explicit hydrogens outside the centre: when the input has such hydrogens its output is compared
    # with the input re-spelled the same way by the harness (`fold_spectators`), not with the input as written
    folded = its_rc(fold_spectators(rs)) if has_h and h_census(rs)[0] else None
    parsed, reqs, fold_at = [], [], {}
    for kind, v in variants:
        other = its_rc(v)
        case = {"stream": "validator", "source": src, "rsmi": rs, "variant": v, "kind": kind}
        if other is None:
            ctx.count("validator:variant_unparseable")
            for m in ("ITS", "RC"):
                if AAMValidator.smiles_check(v, rs, m) is not False:
                    ctx.violation("validator accepts a mapping that does not parse", {**case, "method": m}, None)
            continue
        (G2, H2), its2, rc2 = other
        parsed.append((kind, v, case, its2, rc2))
        reqs += [iso_req(its2, its), iso_req(rc2, rc)]
        for m in ("ITS", "RC"):
            reqs.append({"cmd": "rxn.aamCheck", "method": m, "G1": enc(G2), "H1": enc(H2), "G2": enc(G), "H2": enc(H)})
    if folded is not None:
        for i, (kind, v, case, its2, rc2) in enumerate(parsed):
            if kind in NORMALIZE_KINDS:
                fold_at[i] = len(reqs)
                reqs += [iso_req(its2, folded[1]), iso_req(rc2, folded[2])]
    replies = yield reqs
    for i, (kind, v, case, _its2, _rc2) in enumerate(parsed):
        iso_its, iso_rc, mod_its, mod_rc = replies[4 * i:4 * i + 4]
        for m, spec, mod in (("ITS", iso_its, mod_its), ("RC", iso_rc, mod_rc)):
            got = AAMValidator.smiles_check(v, rs, m)
            ctx.count(f"validator:{m}:{kind}:{'accept' if got else 'reject'}")
            ctx.case(["validator", m, rs, v], nontrivial=len(centre) >= 2,
                     sample={"stream": "validator", "method": m, "kind": kind, "rsmi": rs, "variant": v, "verdict": got}
                     if len(rs) < 120 else None)
            c = {**case, "method": m}
            if kind in NORMALIZE_KINDS and i in fold_at:
                ctx.count(f"validator:{m}:{kind}:input_with_spectator_hydrogens")
                if not replies[fold_at[i] + (m == "RC")]:
                    ctx.violation(f"NormalizeAAM.fit does not preserve the reaction: the {'centre' if m == 'RC' else 'ITS'} graph of its "
                                  "output is not isomorphic to that of the input with its spectator hydrogens (same heavy atom on "
                                  "both sides) folded into the hydrogen counts (Lean match.iso)", c,
                                  {"validator": got, "input_spectators_folded": fold_spectators(rs), "explicit_hydrogens": has_h})
                elif spec and not got:
                    ctx.violation("validator rejects a renumbering of the mapping", c, {"lean_iso": spec, "model": mod})
                elif got != spec:
                    ctx.violation("validator verdict differs from the Lean isomorphism decision on the ITS / centre graphs", c,
                                  {"impl": got, "lean_iso": spec, "model": mod})
                elif mod != spec:
                    ctx.violation("model aamCheck differs from match.iso on the implementation's graphs", c,
                                  {"impl": got, "lean_iso": spec, "model": mod}, no_input=True)
            elif kind in NORMALIZE_KINDS and not spec and (m == "RC" or not has_h):
                # NormalizeAAM.fit only re-spells (kekulised, map numbers + 1, hydrogens outside the centre folded): without
                # explicit hydrogen atoms the result must be a renumbering; with them the centre must still be the same
                ctx.violation(f"NormalizeAAM.fit does not preserve the reaction: the {'centre' if m == 'RC' else 'ITS'} graph of its "
                              "output is not isomorphic to the input's (Lean match.iso)", c,
                              {"validator": got, "lean_iso": spec, "model": mod, "explicit_hydrogens": has_h})
            elif kind in NORMALIZE_KINDS and spec and not got:
                ctx.violation("validator rejects a renumbering of the mapping", c, {"lean_iso": spec, "model": mod})
            elif kind in ("renumber", "fix_aam") and not got:
                ctx.violation("validator rejects a renumbering of the mapping", c, {"lean_iso": spec, "model": mod})
            elif got != spec:
                ctx.violation("validator verdict differs from the Lean isomorphism decision on the ITS / centre graphs", c,
                              {"impl": got, "lean_iso": spec, "model": mod})
            elif mod != spec:
                ctx.violation("model aamCheck differs from match.iso on the implementation's graphs", c,
                              {"impl": got, "lean_iso": spec, "model": mod}, no_input=True)
    # the classifier behind smiles_check, called directly with MORE than two graphs (smiles_check always passes two): the ground
    # truth and up to MULTI_CAP of its variants.  Of the pairs it reports, those that the Lean decisions "variant k isomorphic
    # to the ground truth" determine (isomorphism is an equivalence) are gated: (0, k) <-> iso_k; (j, k) with iso_j and iso_k
    # -> reported; with iso_j != iso_k -> not reported; with neither -> undetermined, not gated.
    idx = list(range(len(parsed)))
    idx = idx[:1] + idx[1:][-(MULTI_CAP - 1):]  # a renumbering and the last variants (transpositions: both outcomes occur)
    sel = [parsed[i] for i in idx]
    if len(sel) >= 2:
        for m, off, base_g in (("ITS", 0, its), ("RC", 1, rc)):
            graphs = [base_g] + [p[3 + off] for p in sel]
            iso0 = [True] + [bool(replies[4 * i + off]) for i in idx]
            try:
                pairs, count = AAMValidator.check_equivariant_graph(graphs)
                pairs = {(min(a, b), max(a, b)) for a, b in pairs}
            except Exception as e:  # noqa: BLE001
                pairs, count = None, repr(e)[:200]
            ctx.count(f"validator:multi:{m}:lists")
            ctx.case(["validator-multi", m, rs, [p[1] for p in sel]], nontrivial=len(centre) >= 2)
            bad = None
            if pairs is None:
                bad = "raises: " + count
            elif count != len(pairs):
                bad = f"count {count} differs from the number of distinct pairs {len(pairs)}"
            else:
                for a in range(len(graphs)):
                    for b in range(a + 1, len(graphs)):
                        if iso0[a] and iso0[b]:
                            want = True
                        elif iso0[a] != iso0[b]:
                            want = False
                        else:
                            ctx.count(f"validator:multi:{m}:pairs_undetermined")
                            continue
                        ctx.count(f"validator:multi:{m}:pairs_{'iso' if want else 'not_iso'}")
                        if ((a, b) in pairs) != want and bad is None:
                            bad = f"pair ({a}, {b}) is {'not ' if want else ''}reported although the Lean decisions make the two graphs " \
                                  f"{'' if want else 'non-'}isomorphic"
            if bad:
                ctx.violation(f"check_equivariant_graph on a list of {len(graphs)} {m} graphs (ground truth first): " + bad,
                              {"stream": "validator", "source": src, "rsmi": rs, "kind": "multi", "method": m,
                               "variants": [[p[0], p[1]] for p in sel]},
                              {"reported_pairs": sorted(pairs) if pairs is not None else None, "iso_to_ground_truth": iso0})


# ---------------------------------------------------------------- stream 3: balance
def side_graph(smi):
    import networkx as nx
    from rdkit import Chem
    from synkit.IO.mol_to_graph import MolToGraph

    if smi == "":
        return nx.Graph()
    m = Chem.MolFromSmiles(smi)
    if m is None:
        return None
    return MolToGraph(node_attrs=["element", "hcount", "charge"], edge_attrs=["order"]).transform(m)


def balance_variants(rs, rnd):
    r, p = rs.split(">>")
    rf, pf = r.split("."), p.split(".")
    out = [("original", rs)]
    for _ in range(2):
        side = rnd.choice("rp")
        fr = list(rf if side == "r" else pf)
        i = rnd.randrange(len(fr))
        if rnd.random() < 0.5:
            del fr[i]
            kind = "delete"
        else:
            fr.insert(rnd.randrange(len(fr) + 1), fr[i])
            kind = "duplicate"
        out.append((kind, ".".join(fr) + ">>" + p if side == "r" else r + ">>" + ".".join(fr)))
    # a variant that keeps the balance: duplicate the same fragment on both sides / swap the sides
    out.append(("reverse", p + ">>" + r))
    # same element counts, different total charge / same fragment added on both sides
    ion, atom = rnd.choice([("[Na+]", "[Na]"), ("[H+]", "[H]"), ("[Cl-]", "[Cl]")])
    out.append(("charge_only", r + "." + ion + ">>" + p + "." + atom))
    out.append(("both_sides", r + "." + ion + ">>" + p + "." + ion))
    return out


def balance_case(ctx, src, rs):
    from synkit.Chem.Reaction.balance_check import BalanceReactionCheck

    todo, reqs = [], []
    for kind, v in balance_variants(rs, ctx.rnd):
        r, p = v.split(">>")
        G, H = side_graph(r), side_graph(p)
        if G is None or H is None:
            ctx.count("balance:skipped_unparseable")
            continue
        todo.append((kind, v, G))
        reqs.append({"cmd": "rxn.balanced", "G": graphio.graph(G, ["element", "hcount", "charge"], []),
                     "H": graphio.graph(H, ["element", "hcount", "charge"], [])})
    replies = yield reqs
    for (kind, v, G), mod in zip(todo, replies):
        got = BalanceReactionCheck.rsmi_balance_check(v)
        ctx.count(f"balance:{kind}:{'balanced' if got else 'unbalanced'}")
        ctx.case(["balance", v], nontrivial=G.number_of_nodes() >= 2,
                 sample={"stream": "balance", "kind": kind, "rsmi": v, "verdict": got} if len(v) < 120 else None)
        if got != mod["balanced"]:
            ctx.violation("balance verdict differs from (element counts with hydrogens, total charge) equality",
                          {"stream": "balance", "source": src, "rsmi": v, "kind": kind},
                          {"impl": got, "model": mod})


# ---------------------------------------------------------------- stream 4: standardize
def std_model(ctx, rs):
    """sort + [HH] rewrite (Lean) over RDKit's per-fragment canonical SMILES of the unmapped sides."""
    from rdkit import Chem

    sides = []
    for side in rs.split(">>"):
        m = Chem.MolFromSmiles(side)
        if m is None:
            return None
        for a in m.GetAtoms():
            a.SetAtomMapNum(0)
        frs = []
        for f in Chem.MolToSmiles(m, canonical=True).split("."):
            fm = Chem.MolFromSmiles(f, sanitize=False)
            if fm is None:
                continue
            try:
                Chem.SanitizeMol(fm)
            except Exception:
                continue
            frs.append(Chem.MolToSmiles(fm, isomericSmiles=False))
        sides.append(frs)
    if not sides[0] or not sides[1]:
        return "NONE"
    o = (yield [{"cmd": "rxn.standardize", "left": sides[0], "right": sides[1]}])[0]
    return ".".join(o["left"]) + ">>" + ".".join(o["right"])


def strip_maps_keep_order(rs, rnd):
    """Unmapped reaction with the fragments in a shuffled order and each fragment re-rooted."""
    from rdkit import Chem

    out = []
    for side in rs.split(">>"):
        frags = []
        for f in side.split("."):
            m = Chem.MolFromSmiles(f)  # sanitised: an unsanitised molecule is written without the brackets of e.g. [S]
            if m is None:
                return None
            for a in m.GetAtoms():
                a.SetAtomMapNum(0)
            frags.append(Chem.MolToRandomSmilesVect(m, 1, randomSeed=rnd.randrange(1, 2 ** 30))[0])
        rnd.shuffle(frags)
        out.append(".".join(frags))
    return ">>".join(out)


def fit(rs, remove_aam=True):
    from synkit.Chem.Reaction.standardize import Standardize

    try:
        r = Standardize().fit(rs, remove_aam=remove_aam)
        return "NONE" if r is None else r
    except Exception as e:  # noqa: BLE001
        return "EXC:" + type(e).__name__


def standardize_case(ctx, src, rs, n_variants, fixed=None):
    s1 = fit(rs)
    case = {"stream": "standardize", "source": src, "rsmi": rs}
    if s1.startswith("EXC:") or s1 == "NONE":
        ctx.count("standardize:skipped:" + s1)
        return
    ctx.count("standardize:cases")
    ctx.case(["standardize", rs], nontrivial=rs.count(".") >= 1,
             sample={"stream": "standardize", "rsmi": rs, "fit": s1} if len(rs) < 120 else None)
    mod = yield from std_model(ctx, rs)
    hh = lambda x: x.replace("[H][H]", "[HH]")  # noqa: E731  (the spelling of H2 is not part of the property)
    if mod is None or hh(mod) != hh(s1):
        ctx.violation("Standardize.fit differs from sort + join + [HH] rewrite over canonical fragment SMILES", case,
                      {"impl": s1, "model": mod}, no_input=True)
        return
    s2 = fit(s1)
    if s2 != s1:
        ctx.violation("Standardize.fit is not idempotent", case, {"fit": s1, "fit_of_fit": s2})
        return
    if fixed is not None:  # replay of one recorded variant
        sv = fit(fixed["variant"], remove_aam=fixed.get("remove_aam", True))
        if sv != s1:
            ctx.violation("Standardize.fit is not invariant under atom order / fragment order / map numbers (replayed variant)",
                          {**case, **fixed}, {"fit": s1, "fit_of_variant": sv})
        return
    u = strip_maps_keep_order(s1, ctx.rnd)  # the standard form itself, fragments shuffled and re-rooted
    if u is not None:
        su = fit(u, remove_aam=False)
        ctx.count("standardize:variants_unmapped_no_remove_aam")
        if su != s1:
            ctx.violation("Standardize.fit(remove_aam=False) of the fragment-shuffled, re-rooted standard form differs from the "
                          "standard form", {**case, "variant": u, "remove_aam": False}, {"fit": s1, "fit_of_variant": su})
            return
    for k in range(n_variants):
        v = rewrite(rs, ctx.rnd) if k % 2 == 0 else renumber(rs, ctx.rnd, canonical=False)
        if v is None:
            continue
        if k % 4 == 2:
            v = renumber(v, ctx.rnd, canonical=False)
        sv = fit(v)
        ctx.count("standardize:variants")
        if sv != s1:
            ctx.violation("Standardize.fit is not invariant under atom order / fragment order / map numbers",
                          {**case, "variant": v}, {"fit": s1, "fit_of_variant": sv})
            return


# ---------------------------------------------------------------- streams 5-7: canonicaliser sessions
# One CanonRSMI instance answers a HISTORY of queries.  The specification side of every step is computed from
# (input, output) alone, with fresh objects and pure functions, so it cannot depend on the history: the Lean model
# `canonRxn` is a pure function, and every clause of the property is a statement about one (input, output) pair.
#   5. "session": fully mapped reactions; the same query repeated, other outcomes of the same mapped reactant side
#      (identity reaction, two product atoms of one element transposed, one product fragment not drawn), renumbered copies,
#      the instance's own earlier output fed back, all interleaved over several reactions;
#   6. "partial": partially mapped reactions (unmapped reagent fragments on the reactant side, the same fragment twice in one
#      reaction, the same fragments across consecutive calls, leaving groups without map numbers);
#   7. "config": the same with non-default options (wl_iterations, node_attrs permuted / fewer / more keys).
# Gates per step: ITS(output) isomorphic to ITS(input) (validator + Lean match.iso; on partially mapped inputs after the
# map numbers that occur on one side only are removed from both: they relate no atom to any other atom), equal unmapped
# sides, fixed point, and output == output of a fresh instance (history independence; reported without input when the
# specification still holds).
# unmapped reagent fragments; the exact back-end's cost grows with the order of the automorphism group of the reactant graph
# (two benzenes: 16 s, two BF4-: minutes), so the nauty sessions use LIGHT fragments (also twice) and at most one MEDIUM one
LIGHT = ["[K+]", "[Na+]", "[Cl-]", "O", "CO", "CC(=O)O", "[OH-]", "[Pd]", "Cl", "N", "CC#N", "[Li+]", "[BH4-]", "[H+]", "[Cs+]"]
MEDIUM = ["c1ccncc1", "ClCCl", "[O-]C([O-])=O", "C1CCOC1", "CN(C)C=O", "O=C=O", "CS(C)=O", "[H][H]", "OO"]
HEAVY = ["CCN(CC)CC", "c1ccccc1", "F[B-](F)(F)F", "C[Si](C)(C)Cl"]
REAGENTS = LIGHT + MEDIUM + HEAVY
DEFAULT_ATTRS = ["element", "aromatic", "charge", "hcount"]
SESSION_VIOLATION_CAP = 2


def side_maps(rs):
    mr, mp = side_mols(rs)
    return ({a.GetAtomMapNum() for a in mr.GetAtoms()} - {0}, {a.GetAtomMapNum() for a in mp.GetAtoms()} - {0},
            any(a.GetAtomMapNum() == 0 for a in mr.GetAtoms()), any(a.GetAtomMapNum() == 0 for a in mp.GetAtoms()))


def shared_only(rs):
    """The reaction with the map numbers that occur on one side only removed (atom order kept)."""
    from rdkit import Chem

    mr, mp = side_mols(rs)
    a = {x.GetAtomMapNum() for x in mr.GetAtoms()} - {0}
    b = {x.GetAtomMapNum() for x in mp.GetAtoms()} - {0}
    for m in (mr, mp):
        for x in m.GetAtoms():
            if x.GetAtomMapNum() not in (a & b):
                x.SetAtomMapNum(0)
    return Chem.MolToSmiles(mr, canonical=False) + ">>" + Chem.MolToSmiles(mp, canonical=False)


def unmap_leaving(rs):
    """Reactant atoms whose map number does not occur among the products lose it (a legal, partially mapped spelling of
    the same reaction); None when there is no such atom."""
    from rdkit import Chem

    mr, mp = side_mols(rs)
    b = {x.GetAtomMapNum() for x in mp.GetAtoms()} - {0}
    hit = False
    for x in mr.GetAtoms():
        if x.GetAtomMapNum() and x.GetAtomMapNum() not in b:
            x.SetAtomMapNum(0)
            hit = True
    return Chem.MolToSmiles(mr, canonical=False) + ">>" + rs.split(">>")[1] if hit else None


def product_only_high(rs, rnd):
    """One or two mapped reactant atoms lose their map number while the product partner keeps it, renumbered just
    above every remaining reactant map number: a legal partially mapped spelling in which a map number occurs on
    the product side only and is exactly what a 'next free id' computed from the reactants alone would hand out
    (seed C09-g).  None when the reaction has no shared map number."""
    from rdkit import Chem

    mr, mp = side_mols(rs)
    a = {x.GetAtomMapNum() for x in mr.GetAtoms()} - {0}
    b = {x.GetAtomMapNum() for x in mp.GetAtoms()} - {0}
    shared = sorted(a & b)
    if len(shared) < 2:
        return None
    drop = rnd.sample(shared, rnd.choice([1, 1, 2]) if len(shared) > 2 else 1)
    for x in mr.GetAtoms():
        if x.GetAtomMapNum() in drop:
            x.SetAtomMapNum(0)
    top = max(a - set(drop))
    high = max(top, max(b - set(drop), default=0))      # stay clear of the product's other numbers
    ren = {}
    for i, d in enumerate(drop):
        ren[d] = top + 1 + i if top + 1 + i not in (b - set(drop)) else high + 1 + i
    for x in mp.GetAtoms():
        if x.GetAtomMapNum() in ren:
            x.SetAtomMapNum(ren[x.GetAtomMapNum()])
    return Chem.MolToSmiles(mr, canonical=False) + ">>" + Chem.MolToSmiles(mp, canonical=False)


def add_reagents(rs, frags, rnd):
    lhs, rhs = rs.split(">>")
    fr = lhs.split(".")
    for f in frags:
        fr.insert(rnd.randrange(len(fr) + 1), f)
    return ".".join(fr) + ">>" + rhs


def other_outcome(rs, rnd):
    """A different reaction with the SAME mapped reactant side (string-identical left of '>>')."""
    lhs, rhs = rs.split(">>")
    k = rnd.randrange(3)
    if k == 0:
        gh = parse_rxn(rs)
        pm = sorted(gh[1].nodes)
        a = rnd.choice(pm)
        same = [x for x in pm if x != a and gh[1].nodes[x].get("element") == gh[1].nodes[a].get("element")]
        if same:
            return "transpose", transpose_product(rs, a, rnd.choice(same))
    pf = rhs.split(".")
    if k == 1 and len(pf) >= 2:
        i = rnd.randrange(len(pf))
        return "product_fragment_not_drawn", lhs + ">>" + ".".join(pf[:i] + pf[i + 1:])
    return "identity", lhs + ">>" + lhs


def make_canon(opts):
    from synkit.Chem.Reaction.canon_rsmi import CanonRSMI

    return CanonRSMI(**opts)


def call_canon(cn, rs):
    try:
        out = cn.canonicalise(rs).canonical_rsmi
        return "NONE" if out is None else out
    except Exception as e:  # noqa: BLE001
        return "EXC:" + type(e).__name__ + ":" + str(e)[:120]


def is_broken(out):
    return out.startswith("EXC:") or "None" in out or out == "NONE"


def run_sessions(sessions, keep_graphs=True):
    """Run a list of sessions ({"opts", "history"}) in this process, in order; every session on ONE instance.  A history
    item is a reaction SMILES or {"feedback": j} (= the output of step j of the same session, skipped when that output is
    broken).  All implementation calls of a step happen here, in a fixed order (session call, fresh-instance call, fixed-point
    call on a fresh instance), so that a replay in a new process performs the same calls.  Returns per session the list of
    evaluated steps."""
    from synkit.Chem.Reaction.aam_validator import AAMValidator

    result = []
    for sess in sessions:
        opts = sess["opts"]
        cn = make_canon(opts)
        steps, outs = [], []
        for item in sess["history"]:
            if isinstance(item, dict):
                j = item["feedback"]
                x = outs[j] if j < len(outs) and outs[j] is not None and not is_broken(outs[j]) else None
                if x is None:
                    outs.append(None)
                    continue
            else:
                x = item
            st = {"x": x, "feedback": isinstance(item, dict)}
            st["out"] = out = call_canon(cn, x)
            outs.append(out)
            st["fresh"] = call_canon(make_canon(opts), x)
            rmaps, pmaps, r_unmapped, p_unmapped = side_maps(x)
            st["partial"] = r_unmapped
            st["product_only"] = sorted(pmaps - rmaps)
            st["problems"] = []
            if is_broken(out):
                st["problems"].append("no canonical reaction: " + out[:160])
            else:
                st["fp"] = call_canon(make_canon(opts), out)
                try:
                    ref_in, ref_out = (shared_only(x), shared_only(out)) if r_unmapped else (x, out)
                    i_in, i_out = its_rc(ref_in), its_rc(ref_out)
                except Exception as e:  # noqa: BLE001
                    ref_in = ref_out = i_in = i_out = None
                    st["problems"].append("canonical reaction does not parse: " + repr(e)[:120])
                if i_in is None:
                    st["no_reference_its"] = True  # no atom mapped on both sides: nothing to compare
                elif i_out is None:
                    st["problems"].append("canonical reaction does not parse")
                else:
                    if keep_graphs:
                        st["its_in"], st["its_out"] = i_in[1], i_out[1]
                    st["nontrivial"] = i_in[0][0].number_of_nodes() >= 3 and i_in[0][0].number_of_edges() >= 2
                    if not AAMValidator.smiles_check(ref_out, ref_in, "ITS"):
                        st["problems"].append("smiles_check(canonical, input, 'ITS') is False"
                                              + (" (map numbers of one side only removed)" if r_unmapped else ""))
                um_o, um_i = unmapped(out), unmapped(x)
                if um_o != um_i:
                    st["problems"].append(f"unmapped sides differ: {um_o} vs {um_i}")
                if st["fp"] != out:
                    st["problems"].append("not a fixed point: canonical form of the output is " + st["fp"][:200])
            steps.append(st)
        result.append(steps)
    return result


def _sub_main():
    """Child process of `confirm_fresh`: stdin = one candidate (a JSON list of sessions); stdout = verdict of its last step."""
    import sys

    _quiet()
    cand = json.loads(sys.stdin.read())
    res = run_sessions(cand, keep_graphs=False)
    last = res[-1][-1] if res and res[-1] else None
    print(json.dumps({"problems": last["problems"] if last else None,
                      "history_dependent": bool(last and last["out"] != last["fresh"]),
                      "out": last["out"] if last else None}))


def confirm_fresh(cands):
    """Evaluate each candidate (a list of sessions) in its own NEW process; -> list of child verdicts (None on failure)."""
    import subprocess
    import sys
    from concurrent.futures import ThreadPoolExecutor

    def one(c):
        try:
            p = subprocess.run([sys.executable, "-c", "from harness.props import c09; c09._sub_main()"], cwd=str(ROOT),
                               input=json.dumps(c), capture_output=True, text=True, timeout=600)
            return json.loads(p.stdout.strip().splitlines()[-1])
        except Exception:  # noqa: BLE001
            return None

    with ThreadPoolExecutor(8) as ex:
        return list(ex.map(one, cands))


def minimise_session(opts, resolved, i, earlier, want):
    """Shortest list of sessions, tried in NEW processes, whose last step still shows `want` ('problems' or
    'history_dependent'): the failing query alone, one earlier query + the failing query, the session prefix, all earlier
    sessions of this run + the prefix."""
    x = resolved[i]
    cands = [[{"opts": opts, "history": [x]}]]
    seen = set()
    for j in range(i - 1, -1, -1):
        if resolved[j] not in seen:
            cands.append([{"opts": opts, "history": [resolved[j], x]}])
            seen.add(resolved[j])
        if len(cands) >= 7:
            break
    prefix = [{"opts": opts, "history": resolved[:i + 1]}]
    if i >= 2:
        cands.append(prefix)
    for e in list(earlier)[:-7:-1]:  # state left behind by one of the last sessions
        cands.append([e] + prefix)
    if earlier:
        cands.append(list(earlier) + prefix)
    for c, v in zip(cands, confirm_fresh(cands)):
        if v is not None and v.get(want):
            return c, True
    return prefix, False


def session_case(ctx, kind, src, sessions, earlier=(), minimise=True):
    """Sessions run in order in this process (generation: one session; replay: the recorded list): implementation calls
    first, then one batch of Lean isomorphism queries, then the verdicts for every step."""
    all_steps = run_sessions(sessions)
    reqs, where = [], {}
    for s, steps in enumerate(all_steps):
        for i, st in enumerate(steps):
            if "its_in" in st:
                where[(s, i)] = len(reqs)
                reqs.append(iso_req(st["its_out"], st["its_in"]))
    replies = yield reqs
    reported = 0
    for s, steps in enumerate(all_steps):
        opts = sessions[s]["opts"]
        resolved = [st["x"] for st in steps]
        ctx.count(f"{kind}:sessions")
        for i, st in enumerate(steps):
            x, out = st["x"], st["out"]
            ctx.count(f"{kind}:steps")
            ctx.count(f"{kind}:{opts['backend']}:steps")
            if st["partial"]:
                ctx.count(f"{kind}:steps_partially_mapped")
                if len(set(x.split(">>")[0].split("."))) < len(x.split(">>")[0].split(".")):
                    ctx.count(f"{kind}:steps_same_fragment_twice")
            if st["feedback"]:
                ctx.count(f"{kind}:steps_own_output_fed_back")
            if x in resolved[:i]:
                ctx.count(f"{kind}:steps_repeated_query")
            elif x.split(">>")[0] in [y.split(">>")[0] for y in resolved[:i]]:
                ctx.count(f"{kind}:steps_same_reactant_side_as_earlier_query")
            if st.get("no_reference_its"):
                ctx.count(f"{kind}:steps_without_shared_atoms")
            ctx.case(["session", kind, opts, resolved[:i + 1]], nontrivial=bool(st.get("nontrivial")),
                     sample={"stream": kind, "opts": opts, "step": i, "rsmi": x, "canonical": out}
                     if len(x) < 140 and i > 0 else None)
            problems = list(st["problems"])
            if (s, i) in where and not replies[where[(s, i)]] and not any(p.startswith("smiles_check") for p in problems):
                problems.append("ITS(canonical) is not isomorphic to ITS(input) (Lean match.iso)")
            hist_dep = out != st["fresh"]
            if not problems and not hist_dep:
                continue
            if reported >= 1 or sum(1 for v in ctx.violations if isinstance(v["case"], dict) and v["case"].get("kind") == kind
                                    and str(v["case"].get("source", "")).startswith("regress") == src.startswith("regress")
                                    ) >= SESSION_VIOLATION_CAP:
                ctx.count(f"{kind}:violations_not_reported_separately")
                continue
            reported += 1
            classes = [CLASS_PROD_ONLY] if st["product_only"] else []
            confirmed = None
            if minimise:
                out_sessions, confirmed = minimise_session(opts, resolved, i, list(earlier) + list(sessions[:s]),
                                                           "problems" if problems else "history_dependent")
            else:
                out_sessions = list(sessions[:s]) + [{"opts": opts, "history": resolved[:i + 1]}]
            case = {"stream": "session", "kind": kind, "source": src, "sessions": out_sessions}
            detail = {"failing_query": x, "canonical": out, "canonical_from_fresh_instance": st["fresh"],
                      "problems": problems, "step": i, "session_so_far": resolved[:i + 1],
                      "reproduced_in_new_process": confirmed}
            if problems:
                ctx.violation("canonical reaction returned by a reused canonicaliser is not equivalent to its input / not a "
                              "fixed point: " + problems[0][:200], case, detail, classes)
            else:
                ctx.violation("canonical reaction depends on the queries answered before (output differs from a fresh "
                              "instance's) although it meets the specification", case, detail, classes, no_input=True)


def gen_session(rnd, pool, n_react, n_steps):
    """Fully mapped reactions; tokens per reaction: itself twice, two other outcomes of the same reactant side, a renumbered
    copy, its own canonical output fed back; shuffled over the reactions of the session (first occurrence first)."""
    toks = []
    for src, r in rnd.sample(pool, n_react):
        r0 = renumber(r, rnd) if rnd.random() < 0.5 else r
        toks += [("same", r0), ("same", r0), ("other", r0), ("other", r0), ("renumber", r0), ("feedback", r0)]
    rnd.shuffle(toks)
    hist, first = [], {}
    for kind, r0 in toks[:n_steps]:
        if r0 not in first:
            first[r0] = len(hist)
            hist.append(r0)
        elif kind == "same":
            hist.append(r0)
        elif kind == "other":
            hist.append(other_outcome(r0, rnd)[1])
        elif kind == "renumber":
            hist.append(renumber(r0, rnd, canonical=rnd.random() < 0.5))
        else:
            hist.append({"feedback": first[r0]})
    return hist


def gen_partial(rnd, pool, n_steps, backend, light_only=False):
    """Partially mapped reactions of one 'laboratory session': a small reagent shelf (2-3 fragments) is added, unmapped, to the
    reactant side of consecutive reactions; with probability 0.4 one fragment occurs twice; some reactions additionally
    lose the map numbers of their leaving groups; some queries are repeated."""
    if backend == "nauty":
        shelf = rnd.sample(LIGHT, rnd.choice([1, 2])) + rnd.sample(LIGHT if light_only else MEDIUM, 1)
        twice = [f for f in shelf if f in LIGHT]
    else:
        shelf = rnd.sample(REAGENTS, rnd.choice([2, 3]))
        twice = shelf
    hist = []
    while len(hist) < n_steps:
        src, r = rnd.choice(pool)
        if rnd.random() < 0.3:
            r = unmap_leaving(r) or r
        frags = rnd.sample(shelf, rnd.randrange(1, len(shelf) + 1))
        if rnd.random() < 0.4:
            again = [f for f in frags if f in twice]
            frags.append(rnd.choice(again) if again else rnd.choice(twice))
        x = add_reagents(r, frags, rnd)
        if rnd.random() < 0.35:
            x = product_only_high(x, rnd) or x
        hist.append(x)
        if rnd.random() < 0.2 and len(hist) < n_steps:
            hist.append(x)
    return hist


def gen_opts(rnd):
    """Non-default options.  The atom map itself is never a key (it is what is being canonicalised), and wl needs >= 1 round."""
    o = {"backend": rnd.choice(BACKENDS)}
    na = list(DEFAULT_ATTRS)
    m = rnd.randrange(5)
    if m == 0:
        rnd.shuffle(na)
    elif m == 1:
        na = rnd.sample(na, rnd.randrange(1, 4))
    elif m == 2:
        na = na + ["neighbors"]
    elif m == 3:
        na = []
    if m == 4 or o["backend"] == "wl":
        o["wl_iterations"] = rnd.choice([1, 2, 4, 5, 6])
    o["node_attrs"] = na
    return o


def session_pool_ok(rs):
    """Fully mapped on both sides as written, and every product atom has a reactant partner (the others are F23)."""
    rmaps, pmaps, r_unmapped, p_unmapped = side_maps(rs)
    return not r_unmapped and not p_unmapped and not (pmaps - rmaps)


def session_streams(ctx, pool):
    """-> list of (kind, opts, history) in a fixed order."""
    q = ctx.quick
    rnd = ctx.rnd
    pools = {"wl": pool, "nauty": [(s, r) for s, r in pool if n_atoms(r) <= 35]}
    plan = []
    for backend in BACKENDS:
        for k in range(9 if q else 40):
            plan.append(("session", {"backend": backend}, gen_session(rnd, pools[backend], 3, 9 if q else 18)))
    for backend in BACKENDS:
        for k in range(8 if q else 40):
            plan.append(("partial", {"backend": backend}, gen_partial(rnd, pools[backend], 6 if q else 8, backend)))
    for k in range(24 if q else 120):
        o = gen_opts(rnd)
        # fewer keys = more automorphisms = exponential cost of the exact back-end: small reactions there
        coarse = o["backend"] == "nauty" and not set(DEFAULT_ATTRS) <= set(o["node_attrs"])
        pl = [(s, r) for s, r in pool if n_atoms(r) <= 20] if coarse else pools[o["backend"]]
        plan.append(("config", o, gen_session(rnd, pl, 1, 3) if k % 2 == 0
                     else gen_partial(rnd, pl, 3, o["backend"], light_only=coarse)))
    return plan


# ---------------------------------------------------------------- stream 8: validator entry points
# The validator has FOUR public entry points: smiles_check, smiles_check_tautomer, check_pair (one record) and
# validate_smiles (a table: list of dicts or DataFrame, one verdict per row and mapper column).  The last two take
# check_method, ignore_aromaticity and ignore_tautomers and document their verdict as the verdict of smiles_check
# (ignore_tautomers=True, the default) / of smiles_check over the ground truth and its reactant tautomers
# (ignore_tautomers=False) with the SAME method and flags.  Stream 2 ties smiles_check to the Lean isomorphism
# decision; this stream ties every other entry point to it, for every method the property speaks about (RC, ITS,
# and the default), the flags not passed / passed in all four combinations, the arguments by keyword / by position
# (record, column names and method only - the flags always by keyword) / with the default column names / as a
# DataFrame, tables of 1-6 rows and 1-3 mapper columns in shuffled order with repeated rows, n_jobs=1.
# Specification side, per (row, column, method, flags), independent of the table and of the calls made before:
#   ignore_tautomers=True : Lean `match.iso` on the ITS / centre graphs built with the same ignore_aromaticity
#                           (= smiles_check with the same flags, which is gated against Lean here too);
#   ignore_tautomers=False: any(smiles_check(mapped, t, method, ignore_aromaticity)) over t in the ground truth and
#                           its reactant tautomers (synkit.Chem.utils.enumerate_tautomers = RDKit's enumerator) - that
#                           is what the parameter documents; only for ground truths with <= TAUT_CAP tautomers (cost).
# Discriminating inputs (the flags / the method only matter there): re-mappings whose swapped atoms are related by a
# reactant tautomer shift (amidine N/N, acid O/O, isothiourea N/N: rejected without tautomers, accepted with), pairs of
# isomeric aromatisations that differ in soft (aromatic <-> localised) bond changes only (RC verdict depends on
# ignore_aromaticity), and pairs of different reactions with isomorphic centres (RC accepts, ITS rejects).
# smiles_check and smiles_check_tautomer are also called with ignore_aromaticity LEFT OUT (method left out / by position / by
# keyword): the documented defaults (RC, aromaticity not ignored) must decide - expected verdict = Lean `match.iso` on the graphs
# built with ignore_aromaticity=False (= the reference call with the flag passed); the aromatisation pairs tell the defaults apart.
# All implementation calls of a table are made in one process in a shuffled order (a verdict must not depend on the
# calls made before); tables are evaluated in child processes, up to 12 at a time (pure data in, pure data out).
DEFAULT_GT, DEFAULT_COLS = "ground_truth", ["rxn_mapper", "graphormer", "local_mapper"]
FLAGSETS = [None, [False, True], [True, True], [False, False], [True, False]]  # [ignore_aromaticity, ignore_tautomers]
METHODS = ("RC", "ITS")
TAUT_CAP = 8
ENTRY_VIOLATION_CAP = 3
ENTRY_HAND = [
    {"name": "benzamidine_bromochloroethane", "swap": [8, 9],
     "truth": "[cH:1]1[cH:2][cH:3][cH:4][cH:5][c:6]1[C:7](=[NH:8])[NH2:9].[Br:10][CH2:11][CH2:12][Cl:13]>>"
              "[cH:1]1[cH:2][cH:3][cH:4][cH:5][c:6]1[C:7]1=[N:8][CH2:11][CH2:12][NH:9]1.[BrH:10].[ClH:13]"},
    {"name": "formamidine_bromopropanoyl_chloride", "swap": [2, 3],
     "truth": "[CH:1](=[NH:2])[NH2:3].[Br:4][CH2:5][CH2:6][C:7](=[O:8])[Cl:9]>>"
              "[CH:1]1=[N:2][CH2:5][CH2:6][C:7](=[O:8])[NH:3]1.[BrH:4].[ClH:9]"},
    {"name": "acetamidine_bromochloropropane_shifted_numbers", "swap": [13, 4],
     "truth": "[CH3:11][C:2](=[NH:13])[NH2:4].[Br:5][CH2:6][CH2:17][CH2:8][Cl:9]>>"
              "[CH3:11][C:2]1=[N:13][CH2:6][CH2:17][CH2:8][NH:4]1.[BrH:5].[ClH:9]"},
    {"name": "isothiourea_acyl_chloride", "swap": [4, 5],
     "truth": "[CH3:1][S:2][C:3](=[NH:4])[NH2:5].[Cl:6][C:7](=[O:8])[CH2:9][CH2:10][Br:11]>>"
              "[CH3:1][S:2][C:3]1=[N:4][C:7](=[O:8])[CH2:9][CH2:10][NH:5]1.[ClH:6].[BrH:11]"},
    {"name": "fischer_esterification", "swap": [3, 4],
     "truth": "[CH3:1][C:2](=[O:3])[OH:4].[CH3:5][OH:6]>>[CH3:1][C:2](=[O:3])[O:6][CH3:5].[OH2:4]"},
    {"name": "acid_O_alkylation", "swap": [3, 4],
     "truth": "[CH3:1][C:2](=[O:3])[OH:4].[CH3:5][Br:6]>>[CH3:1][C:2](=[O:3])[O:4][CH3:5].[BrH:6]"},
    {"name": "benzoic_acid_chloride_formation", "swap": [8, 9],
     "truth": "[cH:1]1[cH:2][cH:3][cH:4][cH:5][c:6]1[C:7](=[O:8])[OH:9].[Cl:10][S:11](=[O:12])[Cl:13]>>"
              "[cH:1]1[cH:2][cH:3][cH:4][cH:5][c:6]1[C:7](=[O:8])[Cl:10].[OH:9][S:11](=[O:12])[Cl:13]"},
    {"name": "methylimidazole_N_methylation", "swap": [4, 6],
     "truth": "[CH3:1][c:2]1[cH:3][nH:4][cH:5][n:6]1.[CH3:7][I:8]>>[CH3:1][c:2]1[cH:3][n:4]([CH3:7])[cH:5][n:6]1.[IH:8]"},
    {"name": "phosphonate_O_alkylation", "swap": [3, 4],
     "truth": "[CH3:1][P:2](=[O:3])([OH:4])[O:5][CH3:6].[CH3:7][Br:8]>>[CH3:1][P:2](=[O:3])([O:4][CH3:7])[O:5][CH3:6].[BrH:8]"},
    # soft bond changes only: 5-bromocyclohexa-1,3-diene / 3-bromocyclohexa-1,4-diene -> benzene + HBr
    {"name": "aromatisation_isomers",
     "truth": "[Br:7][CH:1]1[CH2:2][CH:3]=[CH:4][CH:5]=[CH:6]1>>[cH:1]1[cH:2][cH:3][cH:4][cH:5][cH:6]1.[BrH:7]",
     "other": "[Br:7][CH:1]1[CH:2]=[CH:3][CH2:4][CH:5]=[CH:6]1>>[cH:1]1[cH:2][cH:3][cH:4][cH:5][cH:6]1.[BrH:7]"},
    {"name": "aromatisation_isomers_pyridine",
     "truth": "[Cl:7][CH:1]1[CH2:2][CH:3]=[N:4][CH:5]=[CH:6]1>>[cH:1]1[cH:2][cH:3][n:4][cH:5][cH:6]1.[ClH:7]",
     "other": "[Cl:7][CH:1]1[CH:2]=[CH:3][NH:4][CH:5]=[CH:6]1>>[cH:1]1[cH:2][cH:3][n:4][cH:5][cH:6]1.[ClH:7]"},
    # different reactions, isomorphic centres
    {"name": "ester_hydrolysis_methyl_vs_ethyl",
     "truth": "[CH3:1][C:2](=[O:3])[O:4][CH3:5].[OH2:6]>>[CH3:1][C:2](=[O:3])[OH:6].[CH3:5][OH:4]",
     "other": "[CH3:1][CH2:7][C:2](=[O:3])[O:4][CH3:5].[OH2:6]>>[CH3:1][CH2:7][C:2](=[O:3])[OH:6].[CH3:5][OH:4]"},
    {"name": "diphosphate_hydrolysis_oxygens_exchanged",
     "truth": "[OH2:1].[CH3:2][O:3][P:4](=[O:5])([O-:6])[O:7][P:8](=[O:9])([O-:10])[O-:11]>>"
              "[CH3:2][O:3][P:4](=[O:5])([O-:6])[O-:7].[O:9]=[P:8]([O-:1])([O-:10])[OH:11]",
     "other": "[OH2:1].[CH3:2][O:3][P:4](=[O:5])([O-:6])[O:7][P:8](=[O:9])([O-:10])[O-:11]>>"
              "[CH3:2][O:3][P:4](=[O:5])([O-:6])[O-:1].[O:9]=[P:8]([O-:7])([O-:10])[OH:11]"},
]


def its_rc_flag(rs, ia):
    from synkit.Graph.ITS.its_construction import ITSConstruction
    from synkit.Graph.ITS.its_decompose import get_rc

    gh = parse_rxn(rs)
    if gh is None:
        return None
    its = ITSConstruction().ITSGraph(gh[0], gh[1], ignore_aromaticity=ia)
    return its, get_rc(its)


def transpose_reactant(rs, a, b):
    p, r = transpose_product(">>".join(reversed(rs.split(">>"))), a, b).split(">>")
    return r + ">>" + p


def shift_pairs(G, H):
    """Two hetero atoms of one element that share a neighbour and differ in their hydrogen count (X(H)-C=X and the
    like: what a 1,3 tautomer shift of the reactants exchanges), both present among the products."""
    out = []
    het = [n for n, d in G.nodes(data=True) if d.get("element") in ("N", "O", "S") and n in H]
    for i, a in enumerate(het):
        for b in het[i + 1:]:
            if (G.nodes[a]["element"] == G.nodes[b]["element"] and G.nodes[a].get("hcount") != G.nodes[b].get("hcount")
                    and set(G[a]) & set(G[b])):
                out.append((a, b))
    return out


def rc_signature(rc):
    import networkx as nx

    g = nx.Graph()
    for n, d in rc.nodes(data=True):
        g.add_node(n, l=repr(d.get("typesGH")))
    for u, v, d in rc.edges(data=True):
        g.add_edge(u, v, l=repr(d.get("order")))
    return (g.number_of_nodes(), nx.weisfeiler_lehman_graph_hash(g, node_attr="l", edge_attr="l"))


def _verdict(v):
    return v if v is None or isinstance(v, bool) else bool(v)


def entry_eval(batch):
    """Every implementation call of one table, in the recorded order.  Pure data in, pure data out; no random choice.
    A call is [kind, method or None (not passed), [ignore_aromaticity, ignore_tautomers] or None (not passed), style];
    its answer is a rows x columns matrix of verdicts ("SKIP": ground truth with too many tautomers) or "EXC:..."."""
    from synkit.Chem.Reaction.aam_validator import AAMValidator as V
    from synkit.Chem.utils import enumerate_tautomers

    rows, gt, cols = batch["rows"], batch["gt"], batch["cols"]
    tauts = []
    for r in rows:
        try:
            t = enumerate_tautomers(r[gt])
        except Exception:  # noqa: BLE001
            t = None
        tauts.append(list(t) if t is not None and len(t) <= TAUT_CAP + 1 else None)
    light = [i for i, t in enumerate(tauts) if t is not None]
    answers = []
    for kind, m, fl, style in batch["calls"]:
        ia, it = fl if fl is not None else (False, kind != "direct_taut")
        idx = list(range(len(rows))) if it else light
        mat = [["SKIP"] * len(cols) for _ in rows]
        kw = {} if fl is None else {"ignore_aromaticity": fl[0], "ignore_tautomers": fl[1]}
        try:
            if kind == "ref":
                for i in idx:
                    for j, c in enumerate(cols):
                        if it:
                            mat[i][j] = _verdict(V.smiles_check(rows[i][c], rows[i][gt], m, ia))
                        else:
                            mat[i][j] = any(V.smiles_check(rows[i][c], t, m, ia) for t in tauts[i])
            elif kind in ("direct", "direct_taut"):
                # smiles_check / smiles_check_tautomer with ignore_aromaticity LEFT OUT, and check_method left out / by position / by
                # keyword: the documented defaults (method RC, aromaticity not ignored) decide
                f = V.smiles_check if kind == "direct" else V.smiles_check_tautomer
                for i in idx:
                    for j, c in enumerate(cols):
                        a, b = rows[i][c], rows[i][gt]
                        v = f(a, b) if m is None else (f(a, b, m) if style == "pos" else f(a, b, check_method=m))
                        mat[i][j] = _verdict(v)
            elif kind == "pair":
                for i in idx:
                    for j, c in enumerate(cols):
                        rec = dict(rows[i])
                        if style == "pos":
                            v = V.check_pair(rec, c, gt, **kw) if m is None else V.check_pair(rec, c, gt, m, **kw)
                        else:
                            if m is not None:
                                kw["check_method"] = m
                            v = V.check_pair(mapping=rec, mapped_col=c, ground_truth_col=gt, **kw)
                        mat[i][j] = _verdict(v)
            elif kind == "validate" and idx:
                data = [dict(rows[i]) for i in idx]
                if style == "frame":
                    import pandas as pd

                    data = pd.DataFrame(data)
                if style == "pos":
                    res = V.validate_smiles(data, gt, list(cols), **kw) if m is None else \
                        V.validate_smiles(data, gt, list(cols), m, **kw)
                else:
                    if m is not None:
                        kw["check_method"] = m
                    if style == "defaults":
                        res = V.validate_smiles(data, n_jobs=1, **kw)
                    else:
                        res = V.validate_smiles(data, ground_truth_col=gt, mapped_cols=list(cols), n_jobs=1, **kw)
                if [e.get("mapper") for e in res] != list(cols) or any(len(e.get("results", ())) != len(idx) for e in res):
                    mat = "EXC:structure: one entry per mapper column in the given order with one verdict per row expected, got " \
                          + repr([(e.get("mapper"), len(e.get("results", ()))) for e in res])[:200]
                else:
                    for j in range(len(cols)):
                        for k, i in enumerate(idx):
                            mat[i][j] = _verdict(res[j]["results"][k])
        except Exception as e:  # noqa: BLE001
            mat = "EXC:" + type(e).__name__ + ":" + str(e)[:160]
        answers.append(mat)
    return {"calls": answers, "light": light}


def _entry_sub_main():
    """Child process of `entry_eval_many`: stdin = JSON list of tables, stdout = JSON list of their answers."""
    import sys

    _quiet()
    print(json.dumps([entry_eval(b) for b in json.loads(sys.stdin.read())]))


def entry_eval_many(batches, workers=12):
    """-> a function that returns the list of answers; the tables are evaluated in `workers` child processes started now
    (a chunk whose child fails is evaluated in this process)."""
    import subprocess
    import sys
    from concurrent.futures import ThreadPoolExecutor

    import os

    n = max(1, min(workers, len(batches), os.cpu_count() or 1))
    # longest table first onto the least loaded child (cost ~ pairs x length of the reaction)
    cost = [len(b["rows"]) * len(b["cols"]) * (200 + max(len(r[b["gt"]]) for r in b["rows"])) for b in batches]
    chunks, load = [[] for _ in range(n)], [0] * n
    for i in sorted(range(len(batches)), key=lambda i: (-cost[i], i)):
        k = load.index(min(load))
        chunks[k].append(i)
        load[k] += cost[i]

    def one(ix):
        try:
            p = subprocess.run([sys.executable, "-c", "from harness.props import c09; c09._entry_sub_main()"], cwd=str(ROOT),
                               input=json.dumps([batches[i] for i in ix]), capture_output=True, text=True, timeout=3000)
            out = json.loads(p.stdout.strip().splitlines()[-1])
            assert len(out) == len(ix)
            return out
        except Exception:  # noqa: BLE001
            return None

    ex = ThreadPoolExecutor(n)
    futs = [ex.submit(one, ix) for ix in chunks]

    def collect():
        res = [None] * len(batches)
        for ix, f in zip(chunks, futs):
            out = f.result()
            if out is None:
                out = [entry_eval(batches[i]) for i in ix]
            for i, o in zip(ix, out):
                res[i] = o
        ex.shutdown()
        return res

    return collect


def entry_calls(rnd, default_names):
    """The call matrix of one table in a shuffled order (rnd None: every style, fixed order - used by replays)."""
    vstyles = ["kw", "pos", "frame"] + (["defaults", "defaults"] if default_names else [])
    calls = [["ref", m, [ia, it], ""] for m in METHODS for ia in (False, True) for it in (True, False)]
    for m in (None,) + METHODS:
        for fl in (FLAGSETS if m is not None else [None]):
            for st in ([rnd.choice(vstyles)] if rnd is not None else sorted(set(vstyles))):
                calls.append(["validate", m, fl, st])
    for m in (None,) + METHODS:
        for fl in (FLAGSETS if m is not None else [None]):
            for st in ([rnd.choice(["kw", "pos"])] if rnd is not None else ["kw", "pos"]):
                calls.append(["pair", m, fl, st])
    if rnd is not None:
        rnd.shuffle(calls)
    # the two direct entry points with arguments left out; no random choice is consumed (the calls above keep their order for a
    # given seed): style by position in the list, inserted at fixed places of the shuffled order
    direct = [["direct", None, None, "omitted"], ["direct_taut", None, None, "omitted"]]
    for k, m in enumerate(METHODS):
        for st in (["pos", "kw"][(k + len(calls)) % 2:][:1] if rnd is not None else ["kw", "pos"]):
            direct.append(["direct", m, None, st])
    direct.append(["direct_taut", METHODS[len(calls) % 2], None, "pos"])
    if rnd is None:
        direct.append(["direct_taut", METHODS[(len(calls) + 1) % 2], None, "kw"])
    for k, d in enumerate(direct):
        calls.insert((5 * k + 3) % (len(calls) + 1) if rnd is not None else len(calls), d)
    return calls


def entry_lean(batch):
    """Lean requests of one table: match.iso of the ITS / centre graphs of (mapped, ground truth), built with both values of
    ignore_aromaticity.  -> (requests, slots (i, j, method, ia) -> request index or None (unparseable: must be rejected),
    centre sizes of the ground truths)."""
    rows, gt, cols = batch["rows"], batch["gt"], batch["cols"]
    reqs, slot, centre = [], {}, []
    for i, r in enumerate(rows):
        tr = {ia: its_rc_flag(r[gt], ia) for ia in (False, True)}
        centre.append(tr[False][1].number_of_nodes() if tr[False] is not None else 0)
        for j, c in enumerate(cols):
            for ia in (False, True):
                mp = its_rc_flag(r[c], ia) if tr[ia] is not None else None
                for k, m in enumerate(("ITS", "RC")):
                    if mp is None:
                        slot[(i, j, m, ia)] = None
                    else:
                        slot[(i, j, m, ia)] = len(reqs)
                        reqs.append(iso_req(mp[k], tr[ia][k]))
    return reqs, slot, centre


def entry_case(ctx, src, batch, answer=None, confirm=True, pre=None):
    """One table: implementation answers (given, or computed here), one batch of Lean decisions, then the gates."""
    rows, gt, cols, calls = batch["rows"], batch["gt"], batch["cols"], batch["calls"]
    kinds = batch.get("kinds") or [["replay"] * len(cols) for _ in rows]
    if answer is None:
        answer = entry_eval(batch)
    reqs, slot, centre = pre if pre is not None else entry_lean(batch)
    replies = yield reqs
    lean = {k: (False if v is None else bool(replies[v])) for k, v in slot.items()}
    ref = {(m, fl[0], fl[1]): mat for (kind, m, fl, st), mat in zip(calls, answer["calls"]) if kind == "ref"}
    ctx.count("entry:tables")
    ctx.count(f"entry:tables:{len(rows)}_rows")
    seen_pairs = set()
    for i in range(len(rows)):
        for j, c in enumerate(cols):
            key = (rows[i][gt], rows[i][c])
            if key in seen_pairs:
                ctx.count("entry:pairs_repeated_in_table")
                continue
            seen_pairs.add(key)
            ctx.count("entry:pairs")
            ctx.count("entry:pairs:" + kinds[i][j])
            if i in answer["light"]:
                ctx.count("entry:pairs_with_tautomer_flags")
            if any(lean[(i, j, "RC", ia)] != lean[(i, j, "ITS", ia)] for ia in (False, True)):
                ctx.count("entry:pairs_discriminating:method")
            if any(lean[(i, j, m, False)] != lean[(i, j, m, True)] for m in METHODS):
                ctx.count("entry:pairs_discriminating:ignore_aromaticity")
            if any(isinstance(ref.get((m, ia, False)), list) and ref[(m, ia, False)][i][j] != "SKIP"
                   and ref[(m, ia, False)][i][j] != lean[(i, j, m, ia)] for m in METHODS for ia in (False, True)):
                ctx.count("entry:pairs_discriminating:ignore_tautomers")

    def report(what, call, i, j, detail):
        # at most ENTRY_VIOLATION_CAP reports per run, each for a different (entry point, flags passed or not, tautomers or not)
        sig = [call[0], call[2] is None, bool(call[2] is None or call[2][1])]
        mine = [v["case"] for v in ctx.violations if isinstance(v["case"], dict) and v["case"].get("stream") == "entry"
                and str(v["case"].get("source", "")).startswith("regress") == src.startswith("regress")]
        if len(mine) >= ENTRY_VIOLATION_CAP or any(c.get("signature") == sig for c in mine):
            ctx.count("entry:violations_not_reported_separately")
            return
        case = {"stream": "entry", "source": src, "gt": gt, "cols": cols, "rows": rows, "call": call, "calls": calls,
                "row": i, "column": None if j is None else cols[j], "signature": sig}
        alone = None
        if confirm and i is not None and j is not None:
            # the failing (row, column) alone, same call (after the reference calls): is the table / the history needed?
            one = {"rows": [{gt: rows[i][gt], cols[j]: rows[i][cols[j]]}], "gt": gt, "cols": [cols[j]],
                   "calls": [k for k in calls if k[0] == "ref"] + [call]}
            if call[3] == "defaults":
                one["rows"][0].update({c: rows[i][c] for c in cols})
                one["cols"] = list(cols)
            sub = type(ctx)(ctx.pid, ctx.tier, ctx.seed)
            sub.driver = ctx.lean()
            run_batch(sub, [entry_case(sub, src, one, confirm=False)])
            alone = bool(sub.violations)
            if alone:
                case = {"stream": "entry", "source": src, "gt": gt, "cols": one["cols"], "rows": one["rows"], "call": call,
                        "row": 0, "column": cols[j], "kind": kinds[i][j], "signature": sig}
        ctx.violation(what, case, {**detail, "reproduced_with_this_pair_alone": alone})

    for (kind, m, fl, st), mat in zip(calls, answer["calls"]):
        call = [kind, m, fl, st]
        m_eff = m or "RC"
        ia, it = fl if fl is not None else (False, kind != "direct_taut")
        name = {"ref": "smiles_check" if it else "smiles_check over the reactant tautomers", "pair": "check_pair",
                "validate": "validate_smiles", "direct": "smiles_check (ignore_aromaticity left out)",
                "direct_taut": "smiles_check_tautomer (ignore_aromaticity left out)"}[kind]
        how = f"{name}[{st or 'direct'}](check_method={m if m is not None else 'not passed'}, " + \
              ("flags not passed" if fl is None else f"ignore_aromaticity={ia}, ignore_tautomers={it}") + ")"
        if isinstance(mat, str):
            ctx.count(f"entry:{kind}:exception")
            if kind != "ref":
                ctx.case(["entry", call, rows], nontrivial=False)
                report(f"validator entry point raises / returns a malformed answer: {how}: {mat[:120]}", call, None, None,
                       {"answer": mat})
            continue
        if kind != "ref":
            ctx.count(f"entry:{kind}:{st}:calls")
        expect = ref.get((m_eff, ia, it))
        for i in range(len(rows)):
            for j, c in enumerate(cols):
                got = mat[i][j]
                if got == "SKIP":
                    ctx.count(f"entry:{kind}:skipped_many_tautomers")
                    continue
                spec = lean[(i, j, m_eff, ia)]
                detail = {"entry": how, "verdict": got, "ground_truth": rows[i][gt], "mapped": rows[i][c],
                          "lean_iso_same_method_and_aromaticity_flag": spec, "variant": kinds[i][j]}
                if kind == "ref":
                    if it and got != spec:
                        report("smiles_check verdict differs from the Lean isomorphism decision on the ITS / centre graphs",
                               call, i, j, detail)
                    elif not it and spec and not got:
                        report("the tautomer-tolerant check rejects a mapping that is isomorphic to the ground truth itself",
                               call, i, j, detail)
                    continue
                ctx.count(f"entry:{kind}:{'default' if fl is None else ('plain' if it else 'tautomers')}:"
                          f"{'accept' if got else 'reject'}")
                ctx.case(["entry", kind, st, m, fl, rows[i][gt], rows[i][c]], nontrivial=centre[i] >= 2,
                         sample={"stream": "entry", "entry": how, "ground_truth": rows[i][gt], "mapped": rows[i][c], "verdict": got}
                         if len(rows[i][gt]) < 120 and kinds[i][j] not in ("renumber", "identity") else None)
                want = expect[i][j] if isinstance(expect, list) and expect[i][j] != "SKIP" else None
                detail["smiles_check_same_method_and_flags"] = want
                if it and got != spec:
                    report(f"{name} {'accepts a mapping whose' if got else 'rejects a mapping although its'} "
                           f"{'centre' if m_eff == 'RC' else 'ITS'} graph is {'not ' if got else ''}isomorphic to the ground truth's "
                           f"(Lean match.iso): {how}", call, i, j, detail)
                elif not it and spec and got is not True:
                    report(f"{name} rejects a mapping that is isomorphic to the ground truth (a renumbering): {how}", call, i, j, detail)
                elif want is not None and got != want:
                    report(f"{name} differs from smiles_check" + ("" if it else " over the ground truth and its reactant tautomers")
                           + f" with the same method and flags: {how}", call, i, j, detail)


def entry_variants(rnd, rs, G, H, its, rc, partners):
    """Candidate re-mappings of one ground truth: (kind, mapped reaction)."""
    centre = sorted(rc.nodes)
    out = [("renumber", renumber(rs, rnd, canonical=rnd.random() < 0.5))]
    pairs = [(a, b) for i, a in enumerate(centre) for b in centre[i + 1:]]
    twins = [(a, b) for a, b in pairs if its.nodes[a].get("typesGH") == its.nodes[b].get("typesGH")]
    if twins:
        out.append(("transpose_twins", transpose_product(rs, *rnd.choice(twins))))
    if pairs:
        a, b = rnd.choice(pairs)
        out.append(("transpose_centre", (transpose_product if rnd.random() < 0.5 else transpose_reactant)(rs, a, b)))
    sp = shift_pairs(G, H)
    if sp:
        a, b = rnd.choice(sp)
        v = (transpose_product if rnd.random() < 0.5 else transpose_reactant)(rs, a, b)
        out.append(("transpose_tautomer_shift", v if rnd.random() < 0.5 else renumber(v, rnd)))
    pm = sorted(H.nodes)
    a = rnd.choice(pm)
    same = [x for x in pm if x != a and H.nodes[x].get("element") == H.nodes[a].get("element")]
    if same:
        out.append(("transpose_any", transpose_product(rs, a, rnd.choice(same))))
    if partners:
        out.append(("other_reaction_same_centre", rnd.choice(partners)))
    return [(k, v) for k, v in out if parse_rxn(v) is not None]


def entry_tables(ctx, pool, n_corpus):
    """-> list of (source, table).  Rows: every hand-written ground truth and `n_corpus` corpus reactions, three re-mappings
    each; tables of 1-5 rows (+ a repeated row with probability 0.25), default or other column names, column order shuffled."""
    rnd = ctx.rnd
    rows = []  # (source, truth, [(kind, mapped)] * 3)
    for h in ENTRY_HAND:
        t = h["truth"]
        if "swap" in h:
            a, b = h["swap"]
            vs = [("transpose_tautomer_shift", transpose_product(t, a, b)),
                  ("transpose_tautomer_shift", renumber(transpose_reactant(t, a, b), rnd)),
                  ("renumber", renumber(t, rnd, canonical=rnd.random() < 0.5))]
        else:
            vs = [("other_reaction_same_centre", h["other"]), ("other_reaction_same_centre", renumber(h["other"], rnd)),
                  ("renumber", renumber(t, rnd))]
        rows.append(("hand:" + h["name"], t, vs))
    picked = pool if n_corpus >= len(pool) else rnd.sample(pool, n_corpus)
    info = {}
    for s, r in pool:
        b = its_rc(r)
        info[r] = (b, rc_signature(b[2]))
    for s, r in picked:
        ((G, H), its, rc), sig = info[r]
        partners = [x for _, x in pool if x != r and info[x][1] == sig and sig[0] >= 2]
        vs = entry_variants(rnd, r, G, H, its, rc, partners)
        rnd.shuffle(vs)
        vs = sorted(vs, key=lambda kv: kv[0] not in ("transpose_tautomer_shift", "other_reaction_same_centre"))[:3]
        while len(vs) < 3:
            vs.append(("renumber", renumber(r, rnd)))
        if rnd.random() < 0.15:
            vs[rnd.randrange(3)] = ("identity", r)
        rows.append((s, r, vs))
    rnd.shuffle(rows)
    tables = []
    while rows:
        k = rnd.choice([1, 2, 3, 3, 4, 5])
        chunk, rows = rows[:k], rows[k:]
        default_names = rnd.random() < 0.4
        gt, names = (DEFAULT_GT, list(DEFAULT_COLS)) if default_names else \
            (rnd.choice(["truth", "reference", "gt"]), rnd.sample(["mapper_a", "mapper_b", "mapper_c", "ours", "baseline"], 3))
        recs, kinds = [], []
        for s, t, vs in chunk:
            vs = list(vs)
            rnd.shuffle(vs)
            items = [(gt, t)] + [(n, v) for n, (k_, v) in zip(names, vs)]
            rnd.shuffle(items)  # key order of the record
            recs.append(dict(items))
            kinds.append({n: k_ for n, (k_, v) in zip(names, vs)})
        if rnd.random() < 0.25:  # the same record twice in one table
            k = rnd.randrange(len(recs))
            at = rnd.randrange(len(recs) + 1)
            recs.insert(at, dict(recs[k]))
            kinds.insert(at, kinds[k])
        cols = list(names)
        if not default_names:
            rnd.shuffle(cols)
            cols = cols[:rnd.choice([1, 2, 3, 3])]
        tables.append(("entry:" + "+".join(s for s, _, _ in chunk)[:120],
                       {"rows": recs, "gt": gt, "cols": cols, "kinds": [[kd[c] for c in cols] for kd in kinds],
                        "calls": entry_calls(rnd, default_names)}))
    return tables


def entry_stream(ctx, pool, n_corpus):
    tables = entry_tables(ctx, pool, n_corpus)
    collect = entry_eval_many([t for _, t in tables])
    pre = [entry_lean(t) for _, t in tables]  # the graphs for Lean are built while the children run
    answers = collect()
    run_batch(ctx, [entry_case(ctx, src, t, answer=a, pre=p) for (src, t), a, p in zip(tables, answers, pre)])


# ---------------------------------------------------------------- streams 9-12: remaining entry points, options, error branches
# What the streams above never reached of the anchored code (coverage/C09.json), driven here, AFTER everything else (the streams
# above keep their cases for a given seed):
#   9. "balance_entry": BalanceReactionCheck.dicts_balance_check / parse_input / dict_balance_check, the batch entry point of the
#      balance check (a single string, a list of strings, a list of records with the default / another column name passed by
#      keyword / by position, strings and records mixed, records without the column in between, a tuple = unsupported container;
#      constructor defaults (4 workers) / n_jobs 1, 2 by keyword / position).  Expected verdict of every reaction: Lean
#      `rxn.balanced` on the two sides' atom tables.  Gates: every reaction given is answered exactly once with its other keys
#      kept, its verdict is the model's, and it sits in the list (balanced, unbalanced) that matches its verdict.
#  10. "standardize_opt": Standardize.fit with ignore_stereo=False (model: sort + [HH] rewrite over the ISOMERIC canonical fragment
#      SMILES; idempotent; invariant under atom order / fragment order / map numbers), standardize_rsmi(stereo=True) directly,
#      remove_atom_mapping with another separator; remove_aam=False on reactions with fragments RDKit rejects (not parseable /
#      not sanitisable: dropped by filter_valid_molecules, None when a side keeps no fragment), remove_aam=True on the same
#      (ValueError), and strings that are not of the form A>>B (ValueError).  Expected answers: the harness' model of fit with the
#      error branches explicit (`std_expect`, sorted by Lean `rxn.standardize`).
#  11. "canon_edge": CanonRSMI on strings that are not of the form A>>B (ValueError), on reactions whose product side is empty /
#      carries no map number (model `rxn.canon`: Err.emptyMap = ValueError), on an empty reactant side (model = implementation on
#      the canonical graphs), called through __call__; the public helpers remap_graph in its two documented input forms (list of
#      (new, old) pairs / list of old ids, partial lists, an empty list, ids the graph does not have) against Lean `rxn.remap`
#      (remapGraph / remapGraphList), and get_aam_pairwise_indices with the default / another attribute name against a brute-force
#      specification in the harness.
#  12. "malformed": one side RDKit rejects -> the balance check must not answer True, the validator must not accept (smiles_check,
#      check_pair with and without tautomers), FixAAM raises ValueError; validate_smiles on an unsupported container raises.
BAL_DEFAULT_COL = "reactions"
BAL_COLS = ["rsmi", "rxn", "reaction_smiles"]
CLASS_BAL_KEY = "balance_batch_record_key_balanced_overrides_verdict"
JUNK_NOSAN = ["C(C)(C)(C)(C)C", "CN(C)(C)(C)C", "c1cccc1", "FCl(F)F", "[CH5]", "cc", "n1cccc1"]  # parse, but do not sanitise
JUNK_NOPARSE = ["C1CC", "C(C", "Xx", "C==C", "CC("]  # do not parse at all
STEREO_HAND = ["[CH3:1][C@H:2]([OH:3])[C:4](=[O:5])[OH:6].[CH3:7][OH:8]>>[CH3:1][C@H:2]([OH:3])[C:4](=[O:5])[O:8][CH3:7].[OH2:6]",
               "[CH3:1]/[CH:2]=[CH:3]/[CH3:4].[Br:5][Br:6]>>[CH3:1][C@@H:2]([Br:5])[C@H:3]([Br:6])[CH3:4]",
               "[F:1]/[CH:2]=[CH:3]\\[Cl:4]>>[F:1]/[CH:2]=[CH:3]/[Cl:4]"]


def _exc(f, *a, **k):
    """-> (value, None) or (None, exception type name)"""
    try:
        return f(*a, **k), None
    except Exception as e:  # noqa: BLE001
        return None, type(e).__name__


def new_violation_ok(ctx, stream, src, cap=2):
    """At most `cap` reports per new stream and source kind (regression / generated)."""
    n = sum(1 for v in ctx.violations if isinstance(v["case"], dict) and v["case"].get("stream") == stream
            and str(v["case"].get("source", "")).startswith("regress") == src.startswith("regress"))
    if n >= cap:
        ctx.count(f"{stream}:violations_not_reported_separately")
    return n < cap


# ---- 9. balance batch entry point
def bal_side_ok(smi):
    from rdkit import Chem

    return smi == "" or Chem.MolFromSmiles(smi) is not None


def gen_balance_batch(ctx, pool, k):
    rnd = ctx.rnd
    style = ["list_dict", "str", "mixed", "list_str", "list_dict", "tuple", "mixed"][k % 7]  # every input form in every run
    n = 1 if style == "str" else rnd.choice([1, 2, 3, 4, 6])
    # worker processes (joblib) only in two batches out of fourteen: the constructor's default (4 workers) and n_jobs=2
    n_jobs, ctor = {3: (None, "default"), 10: (2, "kw")}.get(k % 14, (1, rnd.choice(["kw", "pos"])))
    items = []
    while len(items) < n:
        s, r = rnd.choice(pool)
        kind, v = rnd.choice(balance_variants(r, rnd))
        if not all(bal_side_ok(x) for x in v.split(">>")):
            continue
        if n_jobs != 1 and "[H" in v:
            continue  # RDKit's warnings about lone hydrogens cannot be silenced in joblib's worker processes
        as_dict = style == "list_dict" or (style == "mixed" and rnd.random() < 0.5)
        it = {"rsmi": v, "variant": kind, "form": "dict" if as_dict else "str"}
        if as_dict:
            it["extra"] = dict(rnd.sample([("id", len(items)), ("source", s), ("note", "x" * rnd.randrange(3)), ("yield", 50)],
                                          rnd.randrange(0, 4)))
        items.append(it)
    if style in ("list_dict", "mixed") and (k % 7 == 2 or rnd.random() < 0.25):  # records without the column: nothing to answer
        for _ in range(rnd.choice([1, 2])):
            items.insert(rnd.randrange(len(items) + 1), {"form": "junk", "extra": {"id": 99, "comment": "no reaction here"}})
    if style in ("list_dict", "mixed") and (k == 0 or rnd.random() < 0.25) and any(i["form"] == "dict" for i in items):
        # a record that already carries the key "balanced" (e.g. the output of an earlier run, the reaction corrected since):
        # the stale value is set to the opposite of the true verdict once the model has answered
        rnd.choice([i for i in items if i["form"] == "dict"])["stale_key"] = True
    col = BAL_DEFAULT_COL if rnd.random() < 0.5 else rnd.choice(BAL_COLS)
    pass_col = rnd.choice(["no", "kw", "pos"]) if col == BAL_DEFAULT_COL else rnd.choice(["kw", "pos"])
    return {"stream": "balance_entry", "style": style, "col": col, "pass_col": pass_col, "n_jobs": n_jobs, "ctor": ctor, "items": items}


def balance_entry_case(ctx, src, b):
    from synkit.Chem.Reaction.balance_check import BalanceReactionCheck

    col, items = b["col"], [dict(i) for i in b["items"]]
    real = [i for i in items if i["form"] != "junk"]
    reqs = []
    for i in real:
        r, p = i["rsmi"].split(">>")
        reqs.append({"cmd": "rxn.balanced", "G": graphio.graph(side_graph(r), ["element", "hcount", "charge"], []),
                     "H": graphio.graph(side_graph(p), ["element", "hcount", "charge"], [])})
    replies = yield reqs
    want = []  # the records the answer must consist of: (other keys, verdict)
    data = []
    for i in items:
        if i["form"] == "junk":
            data.append(dict(i["extra"]))
            continue
        verdict = bool(replies[real.index(i)]["balanced"])
        if i["form"] == "str":
            data.append(i["rsmi"])
            want.append(({col: i["rsmi"]}, verdict))
        else:
            rec = {col: i["rsmi"], **i.get("extra", {})}
            if i.get("stale_key"):
                rec["balanced"] = not verdict
            data.append(rec)
            want.append(({k: v for k, v in rec.items() if k != "balanced"}, verdict))
    stale = any(i.get("stale_key") for i in items)
    if b["style"] == "str":
        data = data[0]
    elif b["style"] == "tuple":
        data = tuple(data)
    chk = BalanceReactionCheck() if b["ctor"] == "default" else \
        (BalanceReactionCheck(b["n_jobs"]) if b["ctor"] == "pos" else BalanceReactionCheck(n_jobs=b["n_jobs"], verbose=0))
    if b["pass_col"] == "no":
        res, exc = _exc(chk.dicts_balance_check, data)
    elif b["pass_col"] == "kw":
        res, exc = _exc(chk.dicts_balance_check, data, rsmi_column=col)
    else:
        res, exc = _exc(chk.dicts_balance_check, data, col)
    ctx.count("balance_entry:batches")
    ctx.count(f"balance_entry:style:{b['style']}")
    ctx.count(f"balance_entry:column:{'default' if col == BAL_DEFAULT_COL else 'other'}:{b['pass_col']}")
    ctx.count(f"balance_entry:n_jobs:{b['n_jobs'] if b['n_jobs'] is not None else 'constructor_default'}")
    ctx.count("balance_entry:reactions", len(real))
    ctx.count("balance_entry:records_without_column", len(items) - len(real))
    if stale:
        ctx.count("balance_entry:batches_with_record_carrying_key_balanced")
    for _, v in want:
        ctx.count(f"balance_entry:expected:{'balanced' if v else 'unbalanced'}")
    ctx.case(["balance_entry", b["style"], col, b["pass_col"], b["n_jobs"], [i.get("rsmi") for i in items], stale],
             nontrivial=len(real) >= 2,
             sample={"stream": "balance_entry", "style": b["style"], "column": col, "n_jobs": b["n_jobs"],
                     "reactions": [i.get("rsmi") for i in items], "answer": repr(res)[:300]} if len(repr(data)) < 400 else None)
    case = {**b, "source": src}
    junk = len(items) > len(real)
    if exc is not None:
        ctx.count(f"balance_entry:raises:{exc}:{b['style']}")
        if b["style"] == "tuple" or junk:
            return  # an unsupported container / a record without the column: refusing to answer is within the property
        if new_violation_ok(ctx, "balance_entry", src):
            ctx.violation("dicts_balance_check raises on a documented input form", case, {"exception": exc})
        return
    bad, classes = None, []
    try:
        bal, unbal = res
        got = [({k: v for k, v in r.items() if k != "balanced"}, r.get("balanced"), True) for r in bal] + \
              [({k: v for k, v in r.items() if k != "balanced"}, r.get("balanced"), False) for r in unbal]
    except Exception as e:  # noqa: BLE001
        got, bad = [], "answer is not a pair of lists of records: " + repr(e)[:120]
    key = lambda d: json.dumps(d, sort_keys=True)  # noqa: E731
    if bad is None and sorted(key(g[0]) for g in got) != sorted(key(w[0]) for w in want):
        bad = "the records answered are not the reactions given (each once, other keys kept)"
    if bad is None:
        exp = {key(w[0]): w[1] for w in want}  # equal records are the same reaction: one verdict
        for rec, verdict, in_balanced in got:
            w = exp[key(rec)]
            if verdict is not w or in_balanced != w:
                bad = (f"reaction {rec.get(col)!r}: answered balanced={verdict!r}, listed as {'balanced' if in_balanced else 'unbalanced'}; "
                       f"element counts (with hydrogens) and charge {'agree' if w else 'differ'} (Lean rxn.balanced)")
                if stale and any(i.get("stale_key") and i["rsmi"] == rec.get(col) for i in items):
                    classes = [CLASS_BAL_KEY]
                break
    if bad and new_violation_ok(ctx, "balance_entry", src, cap=1 if classes else 2):
        ctx.violation("batch balance check: " + bad, case, {"input": repr(data)[:600], "answer": repr(res)[:600]}, classes)


def balance_entry_stream(ctx, pool, n):
    run_batch(ctx, [balance_entry_case(ctx, f"balance_entry:{k}", gen_balance_batch(ctx, pool, k)) for k in range(n)])


# ---- 10. Standardize: options and error branches
def std_expect(rs, remove_aam=True, stereo=False):
    """Model of Standardize.fit with the error branches explicit: "ValueError" (not of the form A>>B; with remove_aam a side that
    RDKit rejects), "NONE" (a side keeps no valid fragment), else the reaction (fragments sorted by Lean, [HH] rewritten)."""
    from rdkit import Chem

    parts = rs.split(">>")
    if len(parts) != 2:
        return "ValueError"
    if remove_aam:
        clean = []
        for side in parts:
            m = Chem.MolFromSmiles(side)
            if m is None:
                return "ValueError"
            for a in m.GetAtoms():
                a.SetAtomMapNum(0)
            clean.append(Chem.MolToSmiles(m, canonical=True))
        parts = clean
    sides = []
    for side in parts:
        frs = []
        for f in side.split("."):
            fm = Chem.MolFromSmiles(f, sanitize=False)
            if fm is None:
                continue
            try:
                Chem.SanitizeMol(fm)
            except Exception:  # noqa: BLE001
                continue
            frs.append(Chem.MolToSmiles(fm, isomericSmiles=stereo))
        sides.append(frs)
    if not sides[0] or not sides[1]:
        return "NONE"
    o = (yield [{"cmd": "rxn.standardize", "left": sides[0], "right": sides[1]}])[0]
    return ".".join(o["left"]) + ">>" + ".".join(o["right"])


def fit_call(rs, remove_aam, stereo, style):
    from synkit.Chem.Reaction.standardize import Standardize

    try:
        if style == "pos":
            r = Standardize().fit(rs, remove_aam, not stereo)
        elif style == "static":  # the step behind fit, called directly (no map removal, no [HH] rewrite)
            r = Standardize.standardize_rsmi(rs, stereo) if stereo else Standardize.standardize_rsmi(rs)
            r = r if r is None else r.replace("[HH]", "[H][H]")
        else:
            kw = {}
            if not remove_aam:
                kw["remove_aam"] = False
            if stereo:
                kw["ignore_stereo"] = False
            r = Standardize().fit(rs, **kw)
        return "NONE" if r is None else r
    except Exception as e:  # noqa: BLE001
        return type(e).__name__


def has_stereo(s):
    return "@" in s or "/" in s or "\\" in s


def standardize_opt_case(ctx, src, c):
    """c: {"mode", "rsmi", "remove_aam", "stereo", "style", optional "variants": [...]} - pure data (replayable)."""
    rs, ra, st, style = c["rsmi"], c["remove_aam"], c["stereo"], c["style"]
    got = fit_call(rs, ra, st, style)
    exp = yield from std_expect(rs, ra, st)
    hh = lambda x: x.replace("[H][H]", "[HH]")  # noqa: E731
    case = {"stream": "standardize_opt", "source": src, **c}
    ctx.count(f"standardize_opt:{c['mode']}:cases")
    ctx.count(f"standardize_opt:{c['mode']}:answer:{got if got in ('NONE',) or got.endswith('Error') else 'reaction'}")
    ctx.count(f"standardize_opt:options:remove_aam={ra},keep_stereo={st},{style}")
    if st and has_stereo(got):
        ctx.count("standardize_opt:answers_with_stereo_marks")
    ctx.case(["standardize_opt", rs, ra, st, style], nontrivial=rs.count(".") >= 1,
             sample={"stream": "standardize_opt", "mode": c["mode"], "rsmi": rs, "remove_aam": ra, "keep_stereo": st, "answer": got}
             if len(rs) < 140 else None)
    if hh(got) != hh(exp):
        if new_violation_ok(ctx, "standardize_opt", src):
            ctx.violation("Standardize.fit differs from its model (map removal - per-fragment filter - sort - [HH] rewrite, error "
                          "branches explicit) on a non-default option / a rejected fragment / a malformed string", case,
                          {"impl": got, "model": exp}, no_input=True)
        return
    if got == "NONE" or got.endswith("Error"):
        return
    again = fit_call(got, ra, st, "kw")
    if again != got:
        if new_violation_ok(ctx, "standardize_opt", src):
            ctx.violation("Standardize.fit is not idempotent (non-default options)", case, {"fit": got, "fit_of_fit": again})
        return
    for v in c.get("variants", []):
        sv = fit_call(v, ra, st, "kw")
        ctx.count(f"standardize_opt:{c['mode']}:variants")
        if hh(sv) != hh(got):
            if new_violation_ok(ctx, "standardize_opt", src):
                ctx.violation("Standardize.fit is not invariant under atom order / fragment order / map numbers (non-default options"
                              " / fragments RDKit rejects in between)", {**case, "variants": [v]}, {"fit": got, "fit_of_variant": sv})
            return


def shuffle_frags(rs, rnd):
    out = []
    for side in rs.split(">>"):
        fr = side.split(".")
        rnd.shuffle(fr)
        out.append(".".join(fr))
    return ">>".join(out)


def gen_standardize_opt(ctx, pool, n_stereo, n_junk):
    from rdkit import Chem

    rnd = ctx.rnd
    out = []
    stereo_pool = [(s, r) for s, r in pool if has_stereo(r)]
    for s, r in [("hand:stereo", x) for x in STEREO_HAND] + (stereo_pool if n_stereo >= len(stereo_pool) else rnd.sample(stereo_pool, n_stereo)):
        vs = []
        for k in range(2):
            v = rewrite(r, rnd) if k == 0 else renumber(r, rnd, canonical=False)
            if v is not None:
                vs.append(v)
        out.append((s, {"mode": "stereo", "rsmi": r, "remove_aam": True, "stereo": True, "style": rnd.choice(["kw", "pos"]), "variants": vs}))
        if rnd.random() < 0.4:  # the step behind fit, directly, on the unmapped reaction (fragments shuffled, re-rooted)
            u = strip_maps_keep_order(r, rnd)
            if u is not None:
                out.append((s, {"mode": "stereo_static", "rsmi": u, "remove_aam": False, "stereo": True, "style": "static",
                                "variants": [shuffle_frags(u, rnd)]}))
    i = 0
    for s, r in (pool if n_junk >= len(pool) else rnd.sample(pool, n_junk)):
        base = fit(r)
        if base in ("NONE",) or base.startswith("EXC:"):
            continue
        sides = [x.split(".") for x in base.split(">>")]
        mode = ["junk", "junk_side", "junk", "junk"][i % 4]
        if mode == "junk":
            for j in range(rnd.choice([1, 1, 2, 3])):
                side = rnd.choice(sides)
                side.insert(rnd.randrange(len(side) + 1), rnd.choice(JUNK_NOSAN if (i + j) % 2 == 0 else JUNK_NOPARSE))
        else:
            sides[rnd.randrange(2)][:] = rnd.sample(JUNK_NOSAN + JUNK_NOPARSE, rnd.choice([1, 2]))
        x = ">>".join(".".join(sd) for sd in sides)
        out.append((s, {"mode": mode, "rsmi": x, "remove_aam": False, "stereo": rnd.random() < 0.3,
                        "style": ["kw", "pos", "static"][i // 4 % 3], "variants": [shuffle_frags(x, rnd)]}))
        i += 1
        out.append((s, {"mode": mode + "_remove_aam", "rsmi": x, "remove_aam": True, "stereo": False, "style": rnd.choice(["kw", "pos"])}))
    for i, (s, r) in enumerate(rnd.sample(pool, 6)):
        lhs, rhs = r.split(">>")
        x = rnd.choice([lhs, lhs + ">" + rhs, r + ">>" + rhs, lhs + ">>" + rhs + ">>", ""])
        style = ["kw", "pos", "static"][i % 3]
        out.append((s, {"mode": "malformed", "rsmi": x, "remove_aam": style != "static" and i < 3, "stereo": False, "style": style}))
    return out


def remove_mapping_case(ctx, src, rs, symbol):
    """remove_atom_mapping with another separator: no map number left, same constitution per side (specification computed here)."""
    from rdkit import Chem
    from synkit.Chem.Reaction.standardize import Standardize

    x = rs.replace(">>", symbol)
    got, exc = _exc(Standardize.remove_atom_mapping, x, symbol) if symbol != ">>" else _exc(Standardize.remove_atom_mapping, x)
    ctx.count(f"standardize_opt:remove_atom_mapping:separator:{symbol}")
    ctx.case(["remove_atom_mapping", x, symbol], nontrivial=True)
    bad = None
    if exc is not None:
        bad = "raises " + exc
    else:
        sides = got.split(symbol)
        if len(sides) != 2:
            bad = "answer is not of the form A" + symbol + "B"
        else:
            for a, b in zip(sides, rs.split(">>")):
                m = Chem.MolFromSmiles(a)
                if m is None or any(at.GetAtomMapNum() for at in m.GetAtoms()):
                    bad = "a side of the answer does not parse / still carries map numbers"
                elif unmapped_side(a) != unmapped_side(b):
                    bad = "a side of the answer is a different molecule set"
    if bad and new_violation_ok(ctx, "standardize_opt", src):
        ctx.violation("remove_atom_mapping: " + bad, {"stream": "standardize_opt", "source": src, "mode": "remove_atom_mapping",
                                                      "rsmi": rs, "symbol": symbol}, {"answer": got})


# ---- 11. canonicaliser: degenerate reactions, __call__, public helpers
def strip_side_maps(smi):
    from rdkit import Chem

    m = Chem.MolFromSmiles(smi, sanitize=False)
    for a in m.GetAtoms():
        a.SetAtomMapNum(0)
    return Chem.MolToSmiles(m, canonical=False)


def canon_edge_case(ctx, src, c):
    """c: {"mode", "backend", "rsmi", "call"} - the canonicaliser on a degenerate reaction; model `rxn.canon` with its error enum."""
    from synkit.Chem.Reaction.canon_rsmi import CanonRSMI
    from synkit.IO.chem_converter import rsmi_to_graph

    rs, backend = c["rsmi"], c["backend"]
    case = {"stream": "canon_edge", "source": src, **c}
    cn = CanonRSMI(backend=backend)
    rec = {}
    orig = cn._canon.canonicalise_graph

    def wrapped(g):
        res = orig(g)
        rec["lab"] = sorted([int(d.get("atom_map", 0)), int(n)] for n, d in res.canonical_graph.nodes(data=True))
        return res

    cn._canon.canonicalise_graph = wrapped
    try:
        out = (cn(rs) if c.get("call") == "call" else cn.canonicalise(rs)).canonical_rsmi
        exc = None
    except Exception as e:  # noqa: BLE001
        out, exc = None, type(e).__name__
    ctx.count(f"canon_edge:{c['mode']}:{backend}")
    ctx.count(f"canon_edge:{c['mode']}:answer:{exc or 'reaction'}")
    ctx.case(["canon_edge", backend, rs, c.get("call")], nontrivial=len(rs) > 10,
             sample={"stream": "canon_edge", "mode": c["mode"], "backend": backend, "rsmi": rs, "answer": exc or out} if len(rs) < 140 else None)
    if rs.count(">>") != 1:
        model = {"error": "ValueError"}
    else:
        try:
            G, H = rsmi_to_graph(cn.expand_aam(rs))
        except Exception:  # noqa: BLE001
            ctx.count("canon_edge:skipped_unparseable")
            return
        if "lab" not in rec:
            ctx.count("canon_edge:no_labelling_recorded")
            if exc is None and new_violation_ok(ctx, "canon_edge", src):
                ctx.violation("canonicaliser answered without canonicalising the reactant graph", case, {"answer": out}, no_input=True)
            return
        model = (yield [{"cmd": "rxn.canon", "G": enc(G), "H": enc(H), "lab": rec["lab"]}])[0]
    diff = None
    if "error" in model:
        if exc != model["error"]:
            diff = {"model": model, "impl": exc or out}
    elif exc is not None:
        diff = {"model": "a canonical reaction", "impl": exc}
    else:
        impl_r, impl_p = norm_graph_json(enc(cn.canonical_reactant_graph)), norm_graph_json(enc(cn.canonical_product_graph))
        if impl_r != norm_graph_json(model["reac"]) or impl_p != norm_graph_json(model["prod"]):
            diff = {"impl_reac": impl_r, "model_reac": norm_graph_json(model["reac"]), "impl_prod": impl_p,
                    "model_prod": norm_graph_json(model["prod"])}
        elif c.get("call") == "call" and out != canon_str(backend, rs):
            diff = {"via___call__": out, "via_canonicalise": canon_str(backend, rs)}
    if diff is not None and new_violation_ok(ctx, "canon_edge", src):
        ctx.violation("CanonRSMI on a degenerate reaction (not of the form A>>B / no mapped product atom / empty reactant side / "
                      "through __call__) differs from the model canonRxnWith with its error branches", case, diff, no_input=True)


def gen_canon_edge(ctx, pool, n):
    rnd = ctx.rnd
    out = []
    for i, (s, r) in enumerate(rnd.sample(pool, min(n, len(pool)))):
        lhs, rhs = r.split(">>")
        mode = ["not_a_reaction", "no_mapped_product_atom", "empty_reactant_side", "call", "no_mapped_product_atom"][i % 5]
        if mode == "not_a_reaction":
            x = rnd.choice([lhs, lhs + ">" + rhs, r + ">>" + rhs, lhs + ">>>>" + rhs])
        elif mode == "no_mapped_product_atom":
            x = rnd.choice([lhs + ">>", lhs + ">>" + strip_side_maps(rhs), strip_side_maps(lhs) + ">>" + strip_side_maps(rhs)])
        elif mode == "empty_reactant_side":
            x = ">>" + rhs
        else:
            x = r
        out.append((s, {"mode": mode, "backend": rnd.choice(BACKENDS), "rsmi": x, "call": "call" if mode == "call" or rnd.random() < 0.3 else "method"}))
    return out


def helper_graph(H, keys=("element", "aromatic", "hcount", "charge", "atom_map")):
    """Plain-data copy of a graph (nodes in order, attributes restricted to `keys`)."""
    return {"nodes": [[int(n), {k: d[k] for k in keys if k in d}] for n, d in H.nodes(data=True)],
            "edges": [[int(u), int(v), {"order": d.get("order")}] for u, v, d in H.edges(data=True)]}


def build_graph(j):
    import networkx as nx

    g = nx.Graph()
    for n, d in j["nodes"]:
        g.add_node(n, **d)
    for u, v, d in j["edges"]:
        g.add_edge(u, v, **d)
    return g


def remap_case(ctx, src, c):
    """c: {"graph", "form": "pairs"|"order", "node_map"} - CanonRSMI.remap_graph against Lean remapGraph / remapGraphList."""
    from synkit.Chem.Reaction.canon_rsmi import CanonRSMI

    H = build_graph(c["graph"])
    nm = [tuple(p) for p in c["node_map"]] if c["form"] == "pairs" else list(c["node_map"])
    req = {"cmd": "rxn.remap", "H": enc(H)}
    req["pairs" if c["form"] == "pairs" else "order"] = [list(p) for p in nm] if c["form"] == "pairs" else nm
    model = (yield [req])[0]
    got, exc = _exc(CanonRSMI.remap_graph, H, nm)
    ctx.count(f"canon_edge:remap_graph:{c['form']}:{c.get('kind', 'replay')}")
    ctx.count(f"canon_edge:remap_graph:model:{model.get('error', 'graph')}")
    ctx.case(["remap_graph", c["graph"], c["form"], c["node_map"]], nontrivial=H.number_of_nodes() >= 3)
    if model.get("error") == "collision":
        return  # a relabelling that merges nodes: not modelled, not gated
    diff = None
    if "error" in model:
        if exc != model["error"]:
            diff = {"model": model["error"], "impl": exc or "a graph"}
    elif exc is not None:
        diff = {"model": "a graph", "impl": exc}
    elif norm_graph_json(enc(got)) != norm_graph_json(model["graph"]):
        diff = {"impl": norm_graph_json(enc(got)), "model": norm_graph_json(model["graph"])}
    elif norm_graph_json(enc(H)) != norm_graph_json(enc(build_graph(c["graph"]))):
        diff = {"input_graph_modified": norm_graph_json(enc(H))}
    if diff is not None and new_violation_ok(ctx, "canon_edge", src):
        ctx.violation("CanonRSMI.remap_graph differs from the model (remapGraph / remapGraphList: relabelled copy, ValueError on an "
                      "empty map, KeyError on ids the graph does not have)", {"stream": "canon_edge", "source": src, "mode": "remap_graph", **c},
                      diff, no_input=True)


def pairwise_case(ctx, src, c):
    """c: {"G", "H", "key"} - get_aam_pairwise_indices against: for every positive value carried on both sides, in increasing
    order, the (last) node of G and the (last) node of H that carry it."""
    from synkit.Chem.Reaction.canon_rsmi import CanonRSMI

    G, H, key = build_graph(c["G"]), build_graph(c["H"]), c["key"]
    got, exc = _exc(CanonRSMI.get_aam_pairwise_indices, G, H) if key == "atom_map" else \
        (_exc(CanonRSMI.get_aam_pairwise_indices, G, H, key) if len(c["G"]["nodes"]) % 2 else _exc(CanonRSMI.get_aam_pairwise_indices, G, H, aam_key=key))
    gm = {d[key]: n for n, d in c["G"]["nodes"] if d.get(key, 0) > 0}
    hm = {d[key]: n for n, d in c["H"]["nodes"] if d.get(key, 0) > 0}
    want = [[gm[k], hm[k]] for k in sorted(set(gm) & set(hm))]
    ctx.count(f"canon_edge:pairwise_indices:key:{'default' if key == 'atom_map' else 'other'}")
    ctx.case(["pairwise", c["G"], c["H"], key], nontrivial=len(want) >= 2)
    if (exc is not None or [list(p) for p in got] != want) and new_violation_ok(ctx, "canon_edge", src):
        ctx.violation("get_aam_pairwise_indices differs from its specification (shared positive map values in increasing order -> "
                      "(reactant node, product node))", {"stream": "canon_edge", "source": src, "mode": "pairwise", **c},
                      {"impl": exc or [list(p) for p in got], "spec": want}, no_input=True)


def gen_helpers(ctx, pool, n):
    rnd = ctx.rnd
    remaps, pairs = [], []
    for i, (s, r) in enumerate(rnd.sample(pool, min(n, len(pool)))):
        G, H = parse_rxn(r)
        hj = helper_graph(H)
        ids = [x[0] for x in hj["nodes"]]
        kind = ["order_full", "pairs_full", "order_prefix", "missing_id", "pairs_partial", "empty", "order_full"][i % 7]
        if kind == "order_full":
            nm = ids[:]
            rnd.shuffle(nm)
            c = {"form": "order", "node_map": nm}
        elif kind == "order_prefix":  # ids not listed keep their value: lists that stay injective and lists that collide both occur
            nm = ids[:]
            rnd.shuffle(nm)
            c = {"form": "order", "node_map": nm[:rnd.randrange(1, len(nm) + 1)]}
        elif kind in ("pairs_full", "pairs_partial"):
            olds = ids[:]
            rnd.shuffle(olds)
            if kind == "pairs_partial":
                olds = olds[:rnd.randrange(1, len(olds) + 1)]
            news = rnd.sample(range(1, 3 * len(ids) + 2), len(olds)) if rnd.random() < 0.5 else \
                [max(ids) + 1 + i for i in range(len(olds))]
            c = {"form": "pairs", "node_map": [[a, b] for a, b in zip(news, olds)]}
        elif kind == "empty":
            c = {"form": rnd.choice(["order", "pairs"]), "node_map": []}
        else:
            nm = ids[:rnd.randrange(1, len(ids) + 1)] + [max(ids) + rnd.randrange(1, 9)]
            rnd.shuffle(nm)
            c = {"form": "order", "node_map": nm} if rnd.random() < 0.5 else \
                {"form": "pairs", "node_map": [[j + 1, o] for j, o in enumerate(nm)]}
        remaps.append((s, {"graph": hj, "kind": kind, **c}))
        # pairwise indices: node ids decoupled from the map numbers, some atoms unmapped (0), default / other attribute name
        key = "atom_map" if rnd.random() < 0.5 else rnd.choice(["aam", "map_id"])
        gj, hj2 = helper_graph(G), helper_graph(H)
        for j in (gj, hj2):
            perm = [x[0] for x in j["nodes"]]
            rnd.shuffle(perm)
            ren = {x[0]: p + 100 for x, p in zip(j["nodes"], perm)}
            for x in j["nodes"]:
                m = x[1].pop("atom_map", x[0])
                x[1][key] = 0 if rnd.random() < 0.15 else m
                x[0] = ren[x[0]]
            for e in j["edges"]:
                e[0], e[1] = ren[e[0]], ren[e[1]]
        pairs.append((s, {"G": gj, "H": hj2, "key": key}))
    return remaps, pairs


# ---- 12. one side that RDKit rejects / unsupported containers: what the checks must NOT answer
def malformed_stream(ctx, pool, n):
    from synkit.Chem.Reaction.aam_validator import AAMValidator
    from synkit.Chem.Reaction.balance_check import BalanceReactionCheck
    from synkit.Chem.Reaction.fix_aam import FixAAM

    rnd = ctx.rnd
    for i, (s, r) in enumerate(rnd.sample(pool, min(n, len(pool)))):
        lhs, rhs = r.split(">>")
        junk = rnd.choice(JUNK_NOSAN if i % 2 else JUNK_NOPARSE)
        which = ["left", "right", "both"][i % 3]
        x = {"left": junk + ">>" + rhs, "right": lhs + ">>" + junk, "both": junk + ">>" + rnd.choice(JUNK_NOSAN + JUNK_NOPARSE)}[which]
        case = {"stream": "malformed", "source": s, "rsmi": x, "truth": r, "which": which}
        ctx.count(f"malformed:rejected_side:{which}")
        ctx.case(["malformed", x, r], nontrivial=True, sample={"stream": "malformed", "rsmi": x} if len(x) < 120 else None)
        bad = malformed_problems(case)
        bal = _exc(BalanceReactionCheck.rsmi_balance_check, x)
        ctx.count(f"malformed:balance:{which}:{bal[0] if bal[1] is None else bal[1]}")
        for what in bad:
            if new_violation_ok(ctx, "malformed", s):
                ctx.violation(what, case, None)
    # unsupported containers
    got = _exc(AAMValidator.validate_smiles, ({"ground_truth": pool[0][1], "rxn_mapper": pool[0][1]},), "ground_truth", ["rxn_mapper"])
    ctx.count(f"malformed:validate_smiles_on_tuple:{got[1] or 'answers'}")
    ctx.case(["malformed", "validate_smiles_on_tuple"], nontrivial=False)
    if got[1] != "ValueError" and new_violation_ok(ctx, "malformed", "generated"):
        ctx.violation("validate_smiles on a container that is neither a DataFrame nor a list does not raise the documented ValueError",
                      {"stream": "malformed", "source": "generated", "mode": "validate_smiles_on_tuple"}, {"answer": repr(got)[:200]}, no_input=True)


def malformed_problems(case):
    """-> list of statements violated on a reaction with a side that RDKit rejects (pure function of the case; used by replays)."""
    from synkit.Chem.Reaction.aam_validator import AAMValidator
    from synkit.Chem.Reaction.balance_check import BalanceReactionCheck
    from synkit.Chem.Reaction.fix_aam import FixAAM

    x, r, which = case["rsmi"], case["truth"], case["which"]
    out = []
    if which != "both" and _exc(BalanceReactionCheck.rsmi_balance_check, x)[0] is True:
        # (both sides rejected: the implementation compares two empty formulae and answers True - no element counts exist, not gated)
        out.append("balance check answers True although one side is not a molecule set (no element counts to agree with)")
    for m in METHODS:
        for a, b in ((x, r), (r, x)):
            if AAMValidator.smiles_check(a, b, m) is not False:
                out.append(f"smiles_check accepts a pair with a side that RDKit rejects (method {m})")
    rec = {"ground_truth": x, "rxn_mapper": r}
    for it in (True, False):
        v, e = _exc(AAMValidator.check_pair, rec, "rxn_mapper", "ground_truth", "ITS", ignore_tautomers=it)
        if v is True:
            out.append(f"check_pair accepts a mapping against a ground truth that RDKit rejects (ignore_tautomers={it})")
    v, e = _exc(FixAAM.fix_aam_rsmi, x)
    if e is None:
        out.append("FixAAM.fix_aam_rsmi returns a reaction for a side that RDKit rejects: " + repr(v)[:80])
    return out


# ---------------------------------------------------------------- stream 13: explicit mapped hydrogens, sparse map numbers
# A mapped reaction may be SPELLED with some of its hydrogens as explicit mapped atoms ([H:n]) - the notation of SynKit's own
# mechanistic steps (/repo/Data/Testcase/mech.json.gz) and of the USPTO set with mapped hydrogens.  Such a hydrogen either takes
# part in the reaction centre (it leaves one heavy atom and arrives at another: "migrating") or it does not (same heavy atom on
# both sides: "spectator").  The corpus only has the first kind; every code path that treats hydrogens outside the centre
# differently from the ones inside (ITS-based exporters, NormalizeAAM's folding convention, hcount bookkeeping) is only reached by
# the second kind, and only distinguished when BOTH occur in one reaction.  This stream re-spells corpus reactions that way
# (`explicit_h`: k spectators on random heavy atoms / every hydrogen of one heavy atom / additional migrating hydrogens paired
# donor -> acceptor from the hydrogen-count changes of the reaction), vendors the repository's mechanism steps (MECH_HAND), gives a
# quarter of the inputs map numbers outside 1..n (`sparse_renumber`: distinct values below 1000, gaps), and feeds the result to
# EVERY stream that judges the canonicaliser / the normal forms, with the unchanged gates of those streams (the specification side
# is computed per query from the Lean model `rxn.canon` / Lean `match.iso` / `rxn.balanced` / `rxn.standardize`):
#   canon (both back-ends; model correspondence, ITS isomorphism, unmapped sides, fixed point, numbering independence),
#   validator (renumberings, FixAAM, NormalizeAAM.fit - which folds spectators, so ITS only without hydrogens, centre always -,
#   transpositions incl. two hydrogens of one atom), balance, standardize, sessions on one reused instance (the explicit spelling,
#   the implicit spelling of the SAME reaction, a second explicit spelling with other hydrogens, renumbered copies, own output
#   fed back), partially mapped sessions and non-default options over the explicit spellings, and __call__.
# The wild card atoms of the mechanism file ([*-:9] = "a base") are written as hydroxide / water: RDKit's formula and SynKit's
# graph conversion have no element for '*', which is outside the property's quantifier (mapped REACTIONS).
MECH_HAND = [
    ("mech:aldol_overall", "[CH3:1][CH:2]=[O:3].[CH:4]([H:7])([H:8])[CH:5]=[O:6]>>[CH3:1][CH:2]=[CH:4][CH:5]=[O:6].[O:3]([H:7])([H:8])"),
    ("mech:base:1", "[CH:4]([H:7])([H:8])[CH:5]=[O:6].[OH-:9]>>[CH-:4]([H:8])[CH:5]=[O:6].[OH:9][H:7]"),
    ("mech:base:2", "[CH3:1][CH:2]=[O:3].[CH-:4]([H:8])[CH:5]=[O:6]>>[CH3:1][CH:2]([O-:3])[CH:4]([H:8])[CH:5]=[O:6]"),
    ("mech:base:3", "[CH3:1][CH:2]([O-:3])[CH:4]([H:8])[CH:5]=[O:6].[OH:9][H:7]>>[CH3:1][CH:2]([O:3][H:7])[CH:4]([H:8])[CH:5]=[O:6].[OH-:9]"),
    ("mech:base:4", "[CH3:1][CH:2]([O:3][H:7])[CH:4]([H:8])[CH:5]=[O:6].[OH-:9]>>[CH3:1][CH:2]([O:3][H:7])[CH-:4][CH:5]=[O:6].[OH:9][H:8]"),
    ("mech:base:5", "[CH3:1][CH:2]([O:3][H:7])[CH-:4][CH:5]=[O:6]>>[CH3:1][CH:2]=[CH:4][CH:5]=[O:6].[O-:3][H:7]"),
    ("mech:base:6", "[O-:3][H:7].[OH:9][H:8]>>[O:3]([H:7])([H:8]).[OH-:9]"),
    ("mech:neutral:1", "[CH:4]([H:7])([H:8])[CH:5]=[O:6]>>[CH:4]([H:8])=[CH:5][O:6]([H:7])"),
    ("mech:neutral:2", "[CH3:1][CH:2]=[O:3].[CH:4]([H:8])=[CH:5][O:6]([H:7])>>[CH3:1][CH:2]([O:3][H:7])[CH:4]([H:8])[CH:5]=[O:6]"),
    ("mech:neutral:3", "[CH3:1][CH:2]([O:3][H:7])[CH:4]([H:8])[CH:5]=[O:6]>>[CH3:1][CH:2]([O:3][H:7])[CH:4]=[CH:5][O:6]([H:8])"),
    ("mech:neutral:4", "[CH3:1][CH:2]([O:3][H:7])[CH:4]=[CH:5][O:6]([H:8])>>[CH3:1][CH:2]=[CH:4][CH:5]=[O:6].[O:3]([H:7])([H:8])"),
    ("mech:acid:1", "[CH:4]([H:7])([H:8])[CH:5]=[O:6].[H+:9]>>[CH:4]([H:8])=[CH:5][O:6]([H:9]).[H+:7]"),
    ("mech:acid:2", "[CH3:1][CH:2]=[O:3].[CH:4]([H:8])=[CH:5][O:6]([H:9]).[H+:7]>>[CH3:1][CH:2]([O:3][H:7])[CH:4]([H:8])[CH:5]=[O:6].[H+:9]"),
    ("mech:acid:3", "[CH3:1][CH:2]([O:3][H:7])[CH:4]([H:8])[CH:5]=[O:6].[H+:9]>>[CH3:1][CH:2]([O:3][H:7])[CH:4]=[CH:5][O:6]([H:9]).[H+:8]"),
    ("mech:acid:4", "[CH3:1][CH:2]([O:3][H:7])[CH:4]=[CH:5][O:6]([H:9]).[H+:8]>>[CH3:1][CH:2]=[CH:4][CH:5]=[O:6].[H+:9].[O:3]([H:7])([H:8])"),
]


def h_census(rs):
    """(spectators, migrating) among the explicit mapped hydrogens of a fully mapped reaction: a hydrogen is a spectator when its
    heavy neighbour carries the same map number on both sides (free H / H+ / H-H count as migrating unless unchanged)."""
    mr, mp = side_mols(rs)
    if mr is None or mp is None:
        return 0, 0

    def nb(m):
        return {a.GetAtomMapNum(): tuple(sorted(x.GetAtomMapNum() for x in a.GetNeighbors()))
                for a in m.GetAtoms() if a.GetAtomicNum() == 1 and a.GetAtomMapNum()}

    a, b = nb(mr), nb(mp)
    spect = sum(1 for k in a if k in b and a[k] == b[k] and a[k])
    return spect, len(set(a) | set(b)) - spect


def fold_spectators(rs):
    """The reaction with every explicit mapped hydrogen that sits on the SAME heavy atom on both sides written as a hydrogen
    count of that atom (the spelling NormalizeAAM.fit documents: hydrogens outside the centre implicit); atom order kept."""
    from rdkit import Chem

    mr, mp = side_mols(rs)

    def heavy(m):
        out = {}
        for a in m.GetAtoms():
            nb = a.GetNeighbors()
            if a.GetAtomicNum() == 1 and a.GetAtomMapNum() and len(nb) == 1 and nb[0].GetAtomicNum() > 1 and nb[0].GetAtomMapNum():
                out[a.GetAtomMapNum()] = nb[0].GetAtomMapNum()
        return out

    a, b = heavy(mr), heavy(mp)
    drop = {k for k in a if b.get(k) == a[k]}
    res = []
    for m in (mr, mp):
        m.UpdatePropertyCache(strict=False)
        w = Chem.RWMol(m)
        for at in list(w.GetAtoms()):
            if at.GetAtomMapNum() in drop and at.GetAtomicNum() == 1:
                x = at.GetNeighbors()[0]
                x.SetNumExplicitHs(x.GetTotalNumHs() + 1)
                x.SetNoImplicit(True)
        for idx in sorted((at.GetIdx() for at in w.GetAtoms() if at.GetAtomMapNum() in drop and at.GetAtomicNum() == 1), reverse=True):
            w.RemoveAtom(idx)
        res.append(Chem.MolToSmiles(w, canonical=False))
    return ">>".join(res)


def explicit_h(rs, rnd, n_spect, n_migr, whole=False):
    """Re-spell a fully mapped reaction: `n_spect` hydrogens that stay on their heavy atom (whole: instead every hydrogen of one
    heavy atom whose hydrogen count does not change) and up to `n_migr` hydrogens that move from an atom that loses hydrogens to
    one that gains them become explicit atoms with fresh map numbers (same number on both sides).  None when not applicable."""
    from rdkit import Chem

    mr, mp = side_mols(rs)
    if mr is None or mp is None:
        return None
    for m in (mr, mp):
        m.UpdatePropertyCache(strict=False)
    ra = {a.GetAtomMapNum(): a for a in mr.GetAtoms()}
    pa = {a.GetAtomMapNum(): a for a in mp.GetAtoms()}
    if 0 in ra or 0 in pa or len(ra) != mr.GetNumAtoms() or len(pa) != mp.GetNumAtoms():
        return None
    shared = sorted(m for m in ra if m in pa and ra[m].GetAtomicNum() > 1)
    h_r = {m: ra[m].GetTotalNumHs() for m in shared}
    h_p = {m: pa[m].GetTotalNumHs() for m in shared}
    plan = []  # (heavy atom on the reactant side, heavy atom on the product side)
    if whole:
        full = [m for m in shared if h_r[m] == h_p[m] and h_r[m] > 0]
        if full:
            m = rnd.choice(full)
            plan += [(m, m)] * h_r[m]
            h_r[m] = h_p[m] = 0
    stay = [m for m in shared for _ in range(min(h_r[m], h_p[m]))]
    rnd.shuffle(stay)
    plan += [(m, m) for m in stay[:0 if (whole and plan) else n_spect]]
    don = [m for m in shared for _ in range(max(0, h_r[m] - h_p[m]))]
    acc = [m for m in shared for _ in range(max(0, h_p[m] - h_r[m]))]
    rnd.shuffle(don)
    rnd.shuffle(acc)
    plan += list(zip(don, acc))[:n_migr]
    if not plan:
        return None
    nxt = max(set(ra) | set(pa)) + 1
    rw = [Chem.RWMol(mr), Chem.RWMol(mp)]
    for pair in plan:
        for w, heavy in zip(rw, pair):
            at = next(a for a in w.GetAtoms() if a.GetAtomMapNum() == heavy)
            at.SetNumExplicitHs(at.GetTotalNumHs() - 1)
            at.SetNoImplicit(True)
            h = Chem.Atom(1)
            h.SetAtomMapNum(nxt)
            h.SetNoImplicit(True)
            w.AddBond(at.GetIdx(), w.AddAtom(h), Chem.BondType.SINGLE)
            w.UpdatePropertyCache(strict=False)
        nxt += 1
    try:
        return Chem.MolToSmiles(rw[0], canonical=False) + ">>" + Chem.MolToSmiles(rw[1], canonical=False)
    except Exception:  # noqa: BLE001
        return None


def sparse_renumber(rs, rnd, top=1000):
    """The same mapping with map numbers outside 1..n: distinct values below `top` in random order (gaps, multi-digit)."""
    from rdkit import Chem

    mr, mp = side_mols(rs)
    maps = sorted({a.GetAtomMapNum() for m in (mr, mp) for a in m.GetAtoms() if a.GetAtomMapNum()})
    d = dict(zip(maps, rnd.sample(range(1, max(top, 2 * len(maps))), len(maps))))
    for m in (mr, mp):
        for a in m.GetAtoms():
            if a.GetAtomMapNum():
                a.SetAtomMapNum(d[a.GetAtomMapNum()])
    return Chem.MolToSmiles(mr, canonical=False) + ">>" + Chem.MolToSmiles(mp, canonical=False)


def hspell_one(rnd, r):
    """One explicit-hydrogen spelling of r with at least one spectator hydrogen (parameters drawn), or None."""
    whole = rnd.random() < 0.25
    v = explicit_h(r, rnd, rnd.choice([1, 1, 2, 3, 5]), rnd.choice([0, 1, 2]), whole)
    if v is None or parse_rxn(v) is None or h_census(v)[0] == 0:
        return None
    return v


def hspell_pool(ctx, base, n):
    """-> list of (source, explicit-hydrogen spelling, implicit spelling it was made from (None: hand-written))."""
    rnd = ctx.rnd
    out = []
    for s, r in MECH_HAND:
        out.append((s, r if rnd.random() < 0.5 else renumber(r, rnd, canonical=rnd.random() < 0.5), None))
        ctx.count("hspell:hand")
    tries = 0
    base = list(base)
    rnd.shuffle(base)
    for s, r in base:
        if len(out) >= n + len(MECH_HAND):
            break
        v = hspell_one(rnd, r)
        tries += 1
        if v is None:
            ctx.count("hspell:not_applicable")
            continue
        if rnd.random() < 0.25:
            v = sparse_renumber(v, rnd)
            ctx.count("hspell:sparse_map_numbers")
        out.append(("hspell:" + s, v, r))
    for s, v, r in out:
        sp, mg = h_census(v)
        ctx.count("hspell:pool")
        ctx.count(f"hspell:spectators:{min(sp, 6)}{'+' if sp >= 6 else ''}")
        ctx.count(f"hspell:centre_hydrogens:{min(mg, 4)}{'+' if mg >= 4 else ''}")
        if sp and mg:
            ctx.count("hspell:spectator_next_to_centre_hydrogen")
    return out


def gen_session_h(rnd, triples, n_react, n_steps):
    """History over `n_react` reactions given in an explicit-hydrogen spelling: per reaction the spelling twice, the implicit
    spelling it was made from, a second explicit spelling (other hydrogens), another outcome of the same reactant side, a
    renumbered copy (sparse numbers with probability 0.5), its own canonical output fed back; shuffled, first occurrence first."""
    toks = []
    for s, v, r in rnd.sample(triples, n_react):
        toks += [("same", v, r), ("same", v, r), ("implicit", v, r), ("respell", v, r), ("other", v, r), ("renumber", v, r),
                 ("feedback", v, r)]
    rnd.shuffle(toks)
    hist, first = [], {}
    for kind, v, r in toks[:n_steps]:
        if v not in first:
            first[v] = len(hist)
            hist.append(v)
        elif kind == "same":
            hist.append(v)
        elif kind == "implicit":
            hist.append(r if r is not None else renumber(v, rnd))
        elif kind == "respell":
            hist.append((hspell_one(rnd, r) if r is not None else None) or renumber(v, rnd, canonical=True))
        elif kind == "other":
            hist.append(other_outcome(v, rnd)[1])
        elif kind == "renumber":
            hist.append(sparse_renumber(v, rnd) if rnd.random() < 0.5 else renumber(v, rnd, canonical=rnd.random() < 0.5))
        else:
            hist.append({"feedback": first[v]})
    return hist


def hspell_streams(ctx, base_pool, lap):
    """Everything of stream 13, generated after all other streams (they keep their cases for a given seed)."""
    q = ctx.quick
    rnd = ctx.rnd
    hp = hspell_pool(ctx, [(s, r) for s, r in base_pool if n_atoms(r) <= 30], 26 if q else 240)
    pairs = [(s, v) for s, v, _ in hp]
    for backend in BACKENDS:
        run_batch(ctx, [canon_case(ctx, backend, s, v, 2 if q else 4, tag="hspell") for s, v in pairs])
    lap("hspell:canon")
    sub = pairs[:4] + rnd.sample(pairs[4:], min(8 if q else 110, len(pairs) - 4))
    run_batch(ctx, [validator_case(ctx, s, v, 2 if q else 4) for s, v in sub])
    lap("hspell:validator")
    run_batch(ctx, [balance_case(ctx, s, v) for s, v in pairs])
    run_batch(ctx, [standardize_case(ctx, s, v, 3 if q else 6) for s, v in pairs])
    lap("hspell:balance+standardize")
    plan = []
    for backend in BACKENDS:
        for k in range(3 if q else 20):
            plan.append(("session", {"backend": backend}, gen_session_h(rnd, hp, 2, 8 if q else 14)))
    for backend in BACKENDS:
        for k in range(2 if q else 12):
            plan.append(("partial", {"backend": backend}, gen_partial(rnd, pairs, 4 if q else 6, backend, light_only=True)))
    small = [t for t in hp if n_atoms(t[1]) <= 20]
    for k in range(6 if q else 40):
        o = gen_opts(rnd)
        coarse = o["backend"] == "nauty" and not set(DEFAULT_ATTRS) <= set(o["node_attrs"])
        tr = small if coarse else hp
        plan.append(("config", o, gen_session_h(rnd, tr, 1, 4) if k % 2 == 0
                     else gen_partial(rnd, [(s, v) for s, v, _ in tr], 3, o["backend"], light_only=True)))
    for kind in ("session", "partial", "config"):
        idx = [k for k, p in enumerate(plan) if p[0] == kind]
        run_batch(ctx, [session_case(ctx, kind, f"hspell:{kind}:{k}", [{"opts": plan[k][1], "history": plan[k][2]}],
                                     earlier=[{"opts": o, "history": h} for _, o, h in plan[:k]]) for k in idx])
    lap("hspell:sessions")
    run_batch(ctx, [canon_edge_case(ctx, s, {"mode": "call", "backend": rnd.choice(BACKENDS), "rsmi": v, "call": "call"})
                    for s, v in (pairs if not q else rnd.sample(pairs, min(8, len(pairs))))])
    lap("hspell:call")


# ---------------------------------------------------------------- driver
def load_regress():
    d = ROOT / "regress" / "C09"
    out = []
    if d.exists():
        for f in sorted(d.glob("*.json")):
            out.append(json.loads(f.read_text()))
    return out


def run_one(ctx, c, n_variants=3):
    s = c["stream"]
    if s == "canon":
        run_batch(ctx, [canon_case(ctx, c["backend"], c.get("source", "regress"), c["rsmi"], n_variants, tag="regress")])
        if "variant" in c and not ctx.violations:
            a, b = canon_str(c["backend"], c["rsmi"]), canon_str(c["backend"], c["variant"])
            gh = parse_rxn(c["rsmi"])
            if a != b and gh is not None and ctx.lean().ok([{"cmd": "rxn.autCount", "G": enc(gh[0])}])[0] == 1:
                ctx.violation("canonical reaction depends on the numbering / atom order although the reactant graph has "
                              "no non-trivial automorphism", c, {"canonical": a, "canonical_of_variant": b},
                              [CLASS_WL] if c["backend"] == "wl" and wl_tie(gh[0]) else [])
    elif s == "validator":
        fixed = [(c.get("kind", "replay"), c["variant"])] if c.get("variant") is not None else None
        if c.get("kind") in NORMALIZE_KINDS + ("fix_aam",):  # a produced re-spelling: produced again by the tree under test
            try:
                fixed = [(c["kind"], produced_variant(c["kind"], c["rsmi"]))]
            except Exception as e:  # noqa: BLE001
                ctx.violation("NormalizeAAM.fit / FixAAM raises on a parseable mapped reaction", c, {"exception": repr(e)[:300]})
                return
        if c.get("variants"):
            fixed = [(k, v) for k, v in c["variants"]]
        run_batch(ctx, [validator_case(ctx, c.get("source", "regress"), c["rsmi"], 3, fixed)])
    elif s == "balance":
        run_batch(ctx, [balance_case(ctx, c.get("source", "regress"), c["rsmi"])])
    elif s == "standardize":
        fixed = {"variant": c["variant"], "remove_aam": c.get("remove_aam", True)} if "variant" in c else None
        run_batch(ctx, [standardize_case(ctx, c.get("source", "regress"), c["rsmi"], 4, fixed)])
    elif s == "session":
        run_batch(ctx, [session_case(ctx, c.get("kind", "session"), c.get("source", "regress"), c["sessions"], minimise=False)])
    elif s == "balance_entry":
        run_batch(ctx, [balance_entry_case(ctx, c.get("source", "regress"), {k: v for k, v in c.items() if k != "source"})])
    elif s == "standardize_opt":
        if c.get("mode") == "remove_atom_mapping":
            remove_mapping_case(ctx, c.get("source", "regress"), c["rsmi"], c["symbol"])
        else:
            run_batch(ctx, [standardize_opt_case(ctx, c.get("source", "regress"),
                                                 {k: v for k, v in c.items() if k not in ("source", "stream")})])
    elif s == "canon_edge":
        d = {k: v for k, v in c.items() if k not in ("source", "stream")}
        if c.get("mode") == "pairwise":
            pairwise_case(ctx, c.get("source", "regress"), d)
        else:
            run_batch(ctx, [(remap_case if c.get("mode") == "remap_graph" else canon_edge_case)(ctx, c.get("source", "regress"), d)])
    elif s == "malformed":
        if "rsmi" in c:
            ctx.case(["malformed", c["rsmi"], c["truth"]], nontrivial=True)
            for what in malformed_problems(c):
                ctx.violation(what, c, None)
    elif s == "entry":
        # the recorded call first (when there is one), then the full call matrix in a fixed order, all in this process
        full = entry_calls(None, c["gt"] == DEFAULT_GT and list(c["cols"]) == DEFAULT_COLS)
        calls = [k for k in full if k[0] == "ref"] + ([c["call"]] if c.get("call") and c["call"][0] != "ref" else []) \
            + [k for k in full if k[0] != "ref"]
        if c.get("calls"):  # the failure needed the whole table and its call history: the recorded calls, in their order
            calls = [list(k) for k in c["calls"]]
        run_batch(ctx, [entry_case(ctx, c.get("source", "regress"), {"rows": c["rows"], "gt": c["gt"], "cols": list(c["cols"]),
                                                                     "calls": calls}, confirm=False)])


def n_atoms(rs):
    return rs.split(">>")[0].count("[") or len(rs)


def run(ctx):
    _quiet()
    ctx.trusted = [
        "Lean 4.33 kernel; axioms of the property theorems as listed in obligation_list",
        "hand-written model SynKitModel/RxnNorm.lean tied to /repo by this correspondence run (not by translation)",
        "shared matching engine SynKitModel/Match.lean (isoDecide / auts), theorems of SynKitProofs/Match.lean",
        "RDKit: SMILES parsing/printing, canonical SMILES (opaque `canon`; invariance and idempotence are hypotheses of "
        "standardize_idem / standardize_perm), CalcMolFormula (its output is read as element table + charge)",
        "Driver/RxnNorm.lean JSON codec, harness/graphio.py encoder, harness/props/c09.py adapters",
        "synkit.Chem.utils.enumerate_tautomers (RDKit TautomerEnumerator over the reactant side): the list of tautomers that "
        "ignore_tautomers=False quantifies over is taken from it",
        "the canonical labelling of the reactant graph is the back-end's output (C08); C09 takes it as a parameter",
    ]
    ctx.assumptions = [
        "reactions parse on both sides (28 corpus reactions do not and are skipped, counted)",
        "'reactant atoms all distinguishable' = the reactant graph has no non-trivial automorphism on "
        "(element, aromatic, charge, hcount; order), decided by the Lean engine (DESIGN 5a)",
        "'same unmapped reactants and products' is compared on constitution (canonical non-isomeric SMILES with "
        "hydrogens folded): the graph pipeline carries no stereo labels",
        "partially mapped reactions: unmapped atoms occur on the reactant side only (CanonRSMI numbers those; unmapped product "
        "atoms are dropped by its graph conversion - reported, not gated: outside the property's quantifier); the canonical "
        "reaction numbers every reactant atom, so 'isomorphic ITS' is decided after removing, from query and answer alike, the "
        "map numbers that occur on one side only (they relate no atom to another); the unmapped-sides clause covers the rest",
        "non-default options never put 'atom_map' among node_attrs (it is the quantity being canonicalised; with it the wl "
        "back-end is not a fixed point) and use wl_iterations >= 1 (NetworkX rejects 0)",
        "validator entry points: the flags ignore_aromaticity / ignore_tautomers are always passed by keyword (their position is not "
        "part of what is gated); ignore_tautomers=True (the default) means the plain check = ITS / centre isomorphism; "
        "ignore_tautomers=False means: some reactant tautomer of the ground truth (or the ground truth itself) passes the plain "
        "check - gated only for ground truths with <= 8 tautomers (cost), and always: a mapping isomorphic to the ground truth is "
        "accepted; accuracy / success_rate figures of validate_smiles are not gated (the property speaks of verdicts)",
        "NormalizeAAM.fit (anchored file without a clause of its own) is read as a normal form that only re-spells the mapping "
        "(kekulised, map numbers + 1 unless fix_aam_indice=False, hydrogens outside the centre folded): on reactions without explicit "
        "hydrogen atoms its output must be ITS-isomorphic to the input, with them centre-isomorphic; when some explicit hydrogen is a "
        "spectator (bonded to the same heavy atom on both sides) the folding changes hydrogen counts of heavy atoms, also of centre atoms, "
        "so the output is compared (ITS and centre) with the input re-spelled by the harness with exactly those hydrogens folded",
        "explicit-hydrogen spellings are inputs like any other: every gate is evaluated against the spelling that was queried (no gate "
        "relates the answer for an explicit spelling to the answer for the implicit one); the wild-card atoms of the mechanism file are "
        "written as hydroxide / water",
        "batch balance check: the order of the records inside the two lists is not gated; records without the reaction column and "
        "unsupported containers (tuple) may be skipped / refused - only answers that ARE given are gated; a record that carries its "
        "own key 'balanced' must still be answered by element counts (class " + CLASS_BAL_KEY + ")",
        "Standardize options / rejected fragments / malformed strings and get_aam_pairwise_indices are compared against an independent "
        "specification written in the harness (std_expect: RDKit per fragment, sorted by Lean rxn.standardize; brute force over the "
        "shared map values), not against a Lean model of RDKit; error branches are matched by exception type (ValueError / KeyError)",
        "a reaction with a side that RDKit rejects has no element counts and no ITS graph: the balance check must not answer True when "
        "exactly one side is rejected (both rejected: the implementation answers True - counted, not gated, outside the property), the "
        "validator must not accept",
    ]
    ctx.gen_rule = (
        "regression inputs first; population = vendored mapped reactions (ecoli 274, USPTO test set 100) plus hand-written small "
        "reactions (corpus/c09_reactions.txt), sampled by ctx.rnd; variants per reaction: random permutations of the map numbers "
        "(atom order kept / canonical), RDKit random re-rooting seeded from ctx.rnd, fragment shuffles, FixAAM shift, transposition of "
        "two centre atoms (or two product atoms of one element) on the product side, fragment deletion / duplication, reversal. "
        "Sessions (streams 5-7, generated after the others): per back-end 9/40 histories of 9/18 queries over 3 fully mapped reactions "
        "(query repeated, other outcome of the same reactant side: identity / product atoms transposed / product fragment not drawn, "
        "renumbered copy, own output fed back; shuffled); per back-end 8/40 histories of 6/8 partially mapped queries (reaction + 1-3 "
        "unmapped fragments of a per-session shelf drawn from 28 reagents, with probability 0.4 one fragment twice, 0.3 leaving groups "
        "unmapped, 0.2 query repeated); 24/120 histories of 3 queries with random options (wl_iterations in 1,2,4,5,6; node_attrs "
        "permuted / 1-3 of the 4 keys / + neighbors / none). The exact back-end gets reactions of <=35 atoms and light reagents "
        "(its cost is exponential in the symmetry of the reactant graph). "
        "Entry points (stream 8, generated last, implementation calls in child processes): 13 hand-written ground truths (9 with two "
        "hetero atoms related by a reactant tautomer shift exchanged on the product / reactant side, 2 pairs of isomeric aromatisations, "
        "2 pairs of reactions with isomorphic centres) + 28/260 corpus reactions of <=26/45 atoms, three re-mappings each (renumbering, "
        "transposition of two centre atoms / twins / two hetero atoms X(H)-C=X / two product atoms of one element, a corpus reaction "
        "with the same centre signature, the reaction itself), grouped into tables of 1-5 records (+ one record twice, p=0.25), default "
        "column names (p=0.4) or others with 1-3 of the columns in shuffled order; per table 8 reference calls, 6 direct calls with "
        "ignore_aromaticity left out (smiles_check with the method left out / RC / ITS by position or keyword, smiles_check_tautomer with the "
        "method left out / one method; inserted at fixed places, no random choice), 11 validate_smiles and "
        "11 check_pair calls (method not passed / RC / ITS x flags not passed / 4 combinations; style kw / positional / DataFrame / "
        "default columns drawn per call), in a shuffled order. "
        "Inside stream 2: per reaction NormalizeAAM.fit(r) / fit(r, fix_aam_indice=False) (quick: one of the two on every second reaction, "
        "chosen by the length of the string mod 4; thorough: both) as variants; check_equivariant_graph on [ground truth, first renumbering, last 3 variants]. "
        "Streams 9-12 (generated last): 16/210 balance batches (input form cycled: list of records, string, mixed, list of strings, "
        "tuple; 1-6 reactions drawn from the stream-3 variants original / fragment deleted / duplicated / reversed / charge only / same "
        "ion on both sides; default column or one of 3 others by keyword / position; records without the column p=0.25; a record with a "
        "stale key 'balanced' p=0.25 and in batch 0; workers: constructor default 4 and n_jobs=2 in 2 of 14 batches, else 1); "
        "Standardize: 3 hand-written stereo reactions + 25/all corpus reactions with stereo marks through fit(ignore_stereo=False) "
        "(keyword / positional) with a re-rooted and a renumbered variant, p=0.4 standardize_rsmi(stereo=True) on the unmapped shuffled "
        "reaction; 30/all standard forms with 1-3 fragments that RDKit rejects (7 unsanitisable, 5 unparseable) inserted or one side "
        "replaced by them, through fit(remove_aam=False) (keyword / positional / standardize_rsmi; stereo p=0.3) with a fragment-"
        "shuffled variant and through fit(remove_aam=True); 6 strings with 0 / 2 separators; 6/60 remove_atom_mapping calls with "
        "separator '>', '=>', '>>', '->'; canonicaliser: 18/200 degenerate reactions (mode cycled: not A>>B, product side empty / "
        "unmapped / both sides unmapped, reactant side empty, __call__; back-end drawn); 30/400 remap_graph calls on product graphs "
        "(kind cycled: full id list, full pairs, prefix of the id list, an id the graph lacks, partial pairs, empty) and as many "
        "get_aam_pairwise_indices calls (node ids permuted + 100, 15% of the atoms unmapped, default / other attribute name); "
        "12/100 reactions with the left / right / both sides replaced by a rejected fragment (cycled). "
        "Stream 13 (generated last): 15 mechanism steps of Data/Testcase/mech.json.gz (base '*' written as hydroxide; half of them "
        "renumbered) + 26/240 fully mapped corpus reactions of <=30 reactant atoms re-spelled with explicit mapped hydrogens: 1/1/2/3/5 "
        "spectator hydrogens on random heavy atoms (p=0.25: every hydrogen of one heavy atom whose hydrogen count does not change) and "
        "0/1/2 migrating hydrogens (donor = atom that loses hydrogens, acceptor = atom that gains them), fresh map numbers; p=0.25 all "
        "map numbers replaced by distinct values below 1000; every input has >=1 spectator. All of them through canon (both back-ends, "
        "2/4 variants), balance, standardize (3/6 variants), 12/114 through the validator stream (2/4 drawn transpositions), 8/all through "
        "__call__; per back-end 3/20 histories of 8/14 queries over 2 reactions (explicit spelling twice, the implicit spelling it was "
        "made from, a second explicit spelling, other outcome, renumbered / sparse copy, own output fed back), per back-end 2/12 partially "
        "mapped histories of 4/6 queries (light reagents), 6/40 histories with random options.")
    ctx.nontrivial_rule = ("distinct (stream, back-end/method, reaction, variant); canon: >=3 reactant atoms and >=2 bonds; validator: "
                           "centre with >=2 atoms; balance: >=2 atoms on the left; standardize: >=2 fragments; sessions: distinct "
                           "(options, history up to the step), >=3 reactant atoms mapped on both sides' ITS and >=2 bonds; entry points: distinct "
                           "(entry point, style, method, flags, ground truth, mapped reaction), centre of the ground truth >=2 atoms; "
                           "streams 9-12: distinct (stream, options, input); balance batches with >=2 reactions, standardize inputs with >=2 "
                           "fragments, remap graphs with >=3 nodes, pairwise specifications with >=2 pairs")
    build_and_audit(ctx, ["SynKitProofs.Props.C09"], "SynKitProofs/Audit/C09.lean", THEOREMS)

    for c in load_regress():
        run_one(ctx, c)
        ctx.count("regress_cases")

    corpus = [(s, r) for s, r in load_corpus() if parse_rxn(r) is not None]
    ctx.count("corpus_parseable", len(corpus))
    synthetic = [(s, r) for s, r in corpus if s.startswith("synthetic")]
    real = [(s, r) for s, r in corpus if not s.startswith("synthetic")]
    small = [(s, r) for s, r in real if n_atoms(r) <= 45]
    q = ctx.quick
    pick = lambda pool, n: pool if n >= len(pool) else ctx.rnd.sample(pool, n)  # noqa: E731

    import time

    walls, t_last = {}, [time.time()]

    def lap(name):
        now = time.time()
        walls[name] = round(now - t_last[0], 1)
        t_last[0] = now

    lap("build+audit+regress+parse")
    for backend in BACKENDS:
        run_batch(ctx, [canon_case(ctx, backend, s, r, 2 if q else 4)
                        for s, r in synthetic + pick(small if q else real, 50 if q else 10 ** 6)])
        lap("canon:" + backend)
    run_batch(ctx, [validator_case(ctx, s, r, 3 if q else 6)
                    for s, r in synthetic + pick(small if q else real, 70 if q else 10 ** 6)])
    lap("validator")
    run_batch(ctx, [balance_case(ctx, s, r) for s, r in synthetic + pick(real, 120 if q else 10 ** 6)])
    lap("balance")
    run_batch(ctx, [standardize_case(ctx, s, r, 3 if q else 6) for s, r in synthetic + pick(real, 120 if q else 10 ** 6)])
    lap("standardize")
    # sessions last: the streams above keep their cases for a given seed, and state left behind by a session cannot leak
    # into them
    pool = [(s, r) for s, r in synthetic + small if session_pool_ok(r)]
    ctx.count("session_pool", len(pool))
    plan = session_streams(ctx, pool)
    for kind in ("session", "partial", "config"):
        idx = [k for k, p in enumerate(plan) if p[0] == kind]
        run_batch(ctx, [session_case(ctx, kind, f"{kind}:{k}", [{"opts": plan[k][1], "history": plan[k][2]}],
                                     earlier=[{"opts": o, "history": h} for _, o, h in plan[:k]]) for k in idx])
        lap(kind)
    # entry points of the validator, after everything else (the streams above keep their cases for a given seed); the
    # implementation calls of this stream are made in child processes
    epool = [(s, r) for s, r in synthetic + real if n_atoms(r) <= (26 if q else 45)]
    ctx.count("entry_pool", len(epool))
    entry_stream(ctx, epool, 28 if q else 260)
    lap("entry")
    # streams 9-12 (batch balance entry point, Standardize options / rejected fragments, degenerate reactions and public helpers
    # of the canonicaliser, rejected sides), generated after everything else
    balance_entry_stream(ctx, synthetic + real, 16 if q else 210)
    lap("balance_entry")
    run_batch(ctx, [standardize_opt_case(ctx, s, c) for s, c in gen_standardize_opt(ctx, synthetic + real, 25 if q else 10 ** 6,
                                                                                    30 if q else 10 ** 6)])
    for s, r in ctx.rnd.sample(real, min(len(real), 6 if q else 60)):
        remove_mapping_case(ctx, s, r, ctx.rnd.choice([">", "=>", ">>", "->"]))
    lap("standardize_opt")
    run_batch(ctx, [canon_edge_case(ctx, s, c) for s, c in gen_canon_edge(ctx, pool, 18 if q else 200)])
    remaps, pws = gen_helpers(ctx, synthetic + small, 30 if q else 400)
    run_batch(ctx, [remap_case(ctx, s, c) for s, c in remaps])
    for s, c in pws:
        pairwise_case(ctx, s, c)
    lap("canon_edge")
    malformed_stream(ctx, synthetic + small, 12 if q else 100)
    lap("malformed")
    # stream 13 (explicit mapped hydrogens: spectators next to centre hydrogens; sparse map numbers) through the case functions of
    # streams 1-7 and 11, generated after everything else
    hspell_streams(ctx, pool, lap)
    # stream 2 on the hand-written pairs of stream 8 (smiles_check is called there with ignore_aromaticity left out and the method by
    # position): pairs whose centre verdict depends on the aromaticity flag, pairs that only the method tells apart, tautomer swaps
    hand = []
    for h in ENTRY_HAND:
        other = h["other"] if "other" in h else transpose_product(h["truth"], *h["swap"])
        hand.append(validator_case(ctx, "hand:" + h["name"], h["truth"], 0,
                                   fixed=[("other_reaction_same_centre" if "other" in h else "transpose_tautomer_shift", other),
                                          ("other_renumbered", renumber(other, ctx.rnd)),
                                          ("renumber", renumber(h["truth"], ctx.rnd))]))
    run_batch(ctx, hand)
    lap("validator:hand_pairs")
    ctx.extra["stream_wall_s"] = walls

    known = load_known(ctx.pid)

    def stream_ok(name):
        return not any(v["case"].get("stream") == name for v in ctx.violations
                       if isinstance(v["case"], dict) and match_known(v, known) is None)

    ctx.obligation("correspondence: canonical graphs impl == model; ITS(canon r) iso ITS(r); unmapped sides; fixed point; "
                   "numbering independence on asymmetric reactants (wl, nauty)", stream_ok("canon"))
    ctx.obligation("correspondence: validator verdict == Lean iso decision == model (ITS, RC) on renumberings and transpositions",
                   stream_ok("validator"))
    ctx.obligation("correspondence: balance verdict impl == model", stream_ok("balance"))
    ctx.obligation("correspondence: Standardize.fit == model; idempotent; invariant under rewritings", stream_ok("standardize"))
    ctx.obligation("reused canonicaliser (repeated queries, other outcomes of the same reactants, renumbered copies, own output "
                   "fed back; partially mapped reactions with recurring unmapped reagents; non-default options): every answer "
                   "is ITS-equivalent to its query, has the same unmapped sides, is a fixed point and equals a fresh "
                   "instance's answer", stream_ok("session"))
    ctx.obligation("batch balance entry point dicts_balance_check (string / list of strings / list of records / mixed; default and other "
                   "column; 1, 2 and the default 4 workers): every reaction given is answered once, other keys kept, verdict == model "
                   "and == the list it is put in", stream_ok("balance_entry"))
    ctx.obligation("Standardize with ignore_stereo=False / remove_aam=False / rejected fragments / malformed strings: fit == model with "
                   "explicit error branches; idempotent; invariant under rewritings; remove_atom_mapping with another separator",
                   stream_ok("standardize_opt"))
    ctx.obligation("CanonRSMI on degenerate reactions and through __call__ == model canonRxnWith incl. its error enum; remap_graph "
                   "(pairs / id list) == Lean remapGraph / remapGraphList; get_aam_pairwise_indices == brute-force specification",
                   stream_ok("canon_edge"))
    ctx.obligation("a side that RDKit rejects: balance check does not answer True, validator entry points do not accept, FixAAM raises",
                   stream_ok("malformed"))
    ctx.obligation("explicit mapped hydrogens (spectators that stay on their heavy atom next to hydrogens of the centre; mechanism steps "
                   "of Data/Testcase/mech.json.gz; map numbers with gaps): canonicaliser (both back-ends, reused instances, partially "
                   "mapped, non-default options, __call__), validator + NormalizeAAM / FixAAM re-spellings, balance and Standardize meet "
                   "the gates of streams 1-7 on them", not any(
                       isinstance(v["case"], dict) and (str(v["case"].get("source", "")).startswith(("hspell:", "mech:")))
                       and match_known(v, known) is None for v in ctx.violations))
    ctx.obligation("validator entry points check_pair / validate_smiles (list of dicts, DataFrame, default column names; methods RC, "
                   "ITS, default; flags not passed and in all four combinations; by keyword / position): every verdict == "
                   "smiles_check (over the reactant tautomers when ignore_tautomers=False) with the same method and flags == Lean iso "
                   "decision on the ITS / centre graphs when ignore_tautomers=True", stream_ok("entry"))


def replay(ctx, case):
    _quiet()
    run_one(ctx, case["case"])

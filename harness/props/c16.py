"""C16 — network views (bipartite graph, species graph, reaction strings) round-trip exactly.

Correspondence: the same network is built as a real `CRNHyperGraph` (through its public API:
`add_rxn`, `assign_mol`, `remove_species(prune_orphans=False)` for species without reactions)
and handed to the Lean model (`SynKitModel/Views.lean`) in the iteration orders the Python
object really has.  Compared, per export flag combination:

  (a) the exported view (bipartite graph / species graph / list of reaction strings),
      implementation vs model, canonicalised (nodes, arcs, attribute dicts, sets sorted);
  (b) the re-imported network, implementation vs model (errors by kind), and — for the
      combinations the theorems of `Props/C16.lean` cover — vs the original network.

The theorems say the model's round trip reproduces the network; so implementation == model on
(a),(b) puts the real code under the theorem, and a case where the implementation's re-import
differs from the original *inside the theorem's hypotheses* is a failing input of C16.
A separate malformed stream (labels outside `WfLabel`, hand-written side / line strings) only
compares implementation == model on the parse results (no round-trip claim).
"""
import itertools
import json
import re

from ..core import build_and_audit, ROOT

THEOREMS = [
    "SynKit.Views.digits_roundtrip",
    "SynKit.Views.side_roundtrip",
    "SynKit.Views.side_roundtrip_perm",
    "SynKit.Views.wf_counterexample",
    "SynKit.Views.wf_counterexample_nonletter",
    "SynKit.Views.strings_roundtrip",
    "SynKit.Views.strings_roundtrip_multiset",
    "SynKit.Views.noIdClash_default",
    "SynKit.Views.bipartite_roundtrip",
    "SynKit.Views.bipartite_roundtrip_noid",
    "SynKit.Views.species_roundtrip",
    "SynKit.Views.species_roundtrip_mol",
    "SynKit.Views.C16.full",
    "SynKit.Views.ofBipartiteRaw_toRaw",
    "SynKit.Views.ofSpeciesGraphRaw_toRaw",
    "SynKit.Views.parseItemsFrom_plain",
    "SynKit.Views.ofBipartiteRaw_prefix_roundtrip",
    "SynKit.Views.kindOK_of_prefixDisjoint",
    "SynKit.Views.prefixDisjoint_counterexample",
    "SynKit.Views.ofBipartiteRaw_attr_names",
    "SynKit.Views.ofBipartiteRaw_default_rule",
    "SynKit.Views.ofBipartiteRaw_reads_only",
    "SynKit.Views.bipRawClaim_roundtrip",
    "SynKit.Views.bipRawClaim_roundtrip_noid",
    "SynKit.Views.speciesRawClaim_roundtrip",
    "SynKit.Views.ofSpeciesGraphRaw_via_forms",
    "SynKit.Views.ofSpeciesGraphRaw_legacy_stoich",
    "SynKit.Views.coeffFor_defaults",
    "SynKit.Views.legacy_counterexample",
    "SynKit.Views.parseItemsFrom_forms",
    "SynKit.Views.parseRxnsInput_lines",
    # ties of the raw importers (ViewsRaw.lean, reached by the raw streams) to the importers above
    "SynKit.Views.ofBipartiteRaw_toRaw",
    "SynKit.Views.ofSpeciesGraphRaw_toRaw",
    "SynKit.Views.parseItemsFrom_plain",
    # claim conditions of the raw streams (SynKitModel/ViewsClaim.lean, decided by views.claim_*) => round trips
    "SynKit.Views.ofBipartiteRaw_prefix_roundtrip",
    "SynKit.Views.kindOK_of_prefixDisjoint",
    "SynKit.Views.prefixDisjoint_counterexample",
    "SynKit.Views.ofBipartiteRaw_attr_names",
    "SynKit.Views.ofBipartiteRaw_default_rule",
    "SynKit.Views.ofBipartiteRaw_reads_only",
    "SynKit.Views.bipRawClaim_roundtrip",
    "SynKit.Views.bipRawClaim_roundtrip_noid",
    "SynKit.Views.speciesRawClaim_roundtrip",
    "SynKit.Views.ofSpeciesGraphRaw_via_forms",
    "SynKit.Views.ofSpeciesGraphRaw_legacy_stoich",
    "SynKit.Views.coeffFor_defaults",
    "SynKit.Views.legacy_counterexample",
    "SynKit.Views.parseItemsFrom_forms",
    "SynKit.Views.parseRxnsInput_lines",
]

WS = {0x9, 0xA, 0xB, 0xC, 0xD, 0x1C, 0x1D, 0x1E, 0x1F, 0x20, 0x85, 0xA0, 0x1680, 0x2028, 0x2029, 0x202F, 0x205F, 0x3000} | set(range(0x2000, 0x200B))


def wf_label(s):
    """Python twin of `SynKit.Views.WfLabel` (cross-checked against the driver in every run)."""
    if not s:
        return False
    c = s[0]
    if not (("A" <= c <= "Z") or ("a" <= c <= "z")):
        return False
    return all(ord(ch) not in WS and ch not in "+*|>" for ch in s)


# ------------------------------------------------------------------ molecule-label codec
# `species_to_mol` values are documented as "int, str, or other hashable".  The model carries a label as
# an opaque string, so every label is encoded injectively up to Python `==`: a str as itself (generator
# strings never start with '~'), numbers by VALUE (0 == 0.0 == numpy.int64(0) -> one model value; bool kept
# apart), tuples / frozensets structurally.  In a spec (JSON) a non-str label is {"t": type, "v": value}.
def dec_mol(j):
    if not isinstance(j, dict):
        return j
    t, v = j["t"], j["v"]
    if t in ("npint", "npfloat"):
        import numpy as np
        return np.int64(v) if t == "npint" else np.float64(v)
    if t == "tuple":
        return tuple(dec_mol(x) for x in v)
    if t == "fset":
        return frozenset(dec_mol(x) for x in v)
    return {"int": int, "float": float, "bool": bool}[t](v)


def enc_mol(m):
    import numbers

    if isinstance(m, str):
        return m
    if m is None:
        return "~none"
    if isinstance(m, bool) or type(m).__name__ in ("bool_", "bool"):
        return "~bool:%s" % bool(m)
    if isinstance(m, numbers.Integral):
        return "~num:%d" % int(m)
    if isinstance(m, numbers.Real):
        f = float(m)
        return "~num:%d" % int(f) if f == f and abs(f) != float("inf") and f == int(f) else "~num:%r" % f
    if isinstance(m, tuple):
        return "~tuple:" + json.dumps([enc_mol(x) for x in m])
    if isinstance(m, (set, frozenset)):
        return "~fset:" + json.dumps(sorted(enc_mol(x) for x in m))
    if isinstance(m, list):
        return "~list:" + json.dumps([enc_mol(x) for x in m])
    return "~py:%s:%r" % (type(m).__name__, m)


def apply_op(H, op):
    """Network reached through the public API after earlier calls (hidden-state streams): the model only
    ever sees the network that results (`net_of_H`), never the history."""
    from synkit.CRN.Hypergraph import conversion as cv

    k = op[0]
    if k == "export":  # every exporter / importer has already been used on this object
        G = cv.hypergraph_to_bipartite(H, include_edge_id_attr=True, include_mol=True, integer_ids=bool(op[1]) if len(op) > 1 else False)
        cv.bipartite_to_hypergraph(G)
        S = cv.hypergraph_to_species_graph(H, include_mol=True)
        cv.species_graph_to_hypergraph(S)
        cv.rxns_to_hypergraph(cv.hypergraph_to_rxn_strings(H, include_edge_id=True))
    elif k == "copy":
        H = H.copy()
    elif k == "remove_rxn":
        if len(H.edges) > 1:
            H.remove_rxn(list(H.edges)[op[1] % len(H.edges)])
    elif k == "add":
        r = op[1]
        if r["id"] is None or r["id"] not in H.edges:
            H.add_rxn(dict((s, c) for s, c in r["r"]), dict((s, c) for s, c in r["p"]), rule=r["rule"], edge_id=r["id"])
    elif k == "remove_species":
        if op[1] in H.species and any(set(e.species()) - {op[1]} for e in H.edges.values()):
            H.remove_species(op[1])
    elif k == "assign_mol":
        if op[1] in H.species:
            H.assign_mol(op[1], dec_mol(op[2]))
    elif k == "roundtrip":  # the object under test is itself the result of an earlier round trip
        H = cv.bipartite_to_hypergraph(cv.hypergraph_to_bipartite(H, include_edge_id_attr=True, include_mol=True, integer_ids=bool(op[1])))
    return H


# ------------------------------------------------------------------ implementation adapter
def build_H(spec):
    """spec: {"rxns": [{"id": str|None, "rule": str|None, "r": [[s,c]..], "p": [[s,c]..]}],
              "isolated": [s..], "mol": [[s, m]..]} -> CRNHyperGraph (public API only)."""
    from synkit.CRN.Hypergraph.hypergraph import CRNHyperGraph

    H = CRNHyperGraph()
    for r in spec["rxns"]:
        H.add_rxn(dict((s, c) for s, c in r["r"]), dict((s, c) for s, c in r["p"]), rule=r["rule"], edge_id=r["id"])
    for k, s in enumerate(spec.get("isolated", [])):
        if s in H.species:
            continue
        tmp = f"__tmp{k}"
        H.add_rxn({s: 1}, {}, rule="tmp", edge_id=tmp)
        H.remove_species(s, prune_orphans=False)  # the emptied reaction is removed, the species is kept
        assert tmp not in H.edges and s in H.species
    if spec.get("mol_via") == "map":
        H.set_mol_map({s: dec_mol(m) for s, m in spec.get("mol", []) if s in H.species})
    else:
        for s, m in spec.get("mol", []):
            if s in H.species:
                H.assign_mol(s, dec_mol(m))
    for op in spec.get("ops", []):
        H = apply_op(H, op)
    # malformed stream only: a coefficient forced to 0 behind the API's back (exercises the
    # importers' normalisation and their ValueError branch)
    for i, side, sp in spec.get("poke", []):
        e = list(H.edges.values())[i % len(H.edges)]
        d = (e.reactants if side == "r" else e.products).data
        if sp in d:
            d[sp] = 0
    return H


def net_of_H(H):
    """The network as the model sees it: Python's own iteration orders."""
    return {
        "species": list(H.species),
        "rxns": [{"id": k, "rule": e.rule, "r": [[s, int(c)] for s, c in e.reactants.items()],
                  "p": [[s, int(c)] for s, c in e.products.items()]} for k, e in H.edges.items()],
        "mol": [[s, enc_mol(m)] for s, m in H.species_to_mol.items()],
    }


def canon_net(H):
    bad = [k for k, e in H.edges.items() if e.id != k]
    d = {
        "species": sorted(H.species),
        "rxns": sorted(({"id": k, "rule": e.rule, "r": sorted([s, int(c)] for s, c in e.reactants.items()),
                         "p": sorted([s, int(c)] for s, c in e.products.items())} for k, e in H.edges.items()),
                       key=lambda r: r["id"]),
        "mol": sorted([s, enc_mol(m)] for s, m in H.species_to_mol.items()),
    }
    if bad:
        d["id_field_mismatch"] = bad
    return d


def canon_of_netjson(net):
    return {
        "species": sorted(net["species"]),
        "rxns": sorted(({"id": r["id"], "rule": r["rule"], "r": sorted(r["r"]), "p": sorted(r["p"])} for r in net["rxns"]),
                       key=lambda r: r["id"]),
        "mol": sorted(net["mol"]),
    }


def nid_key(n):
    return (isinstance(n, str), n)


def canon_bgraph(G):
    nodes = sorted(({"id": n, **{k: (enc_mol(v) if k == "mol" else v) for k, v in d.items()}} for n, d in G.nodes(data=True)),
                   key=lambda d: nid_key(d["id"]))
    edges = sorted(({"u": u, "v": v, **d} for u, v, d in G.edges(data=True)), key=lambda d: (nid_key(d["u"]), nid_key(d["v"])))
    return {"nodes": nodes, "edges": edges}


def canon_sgraph(G):
    nodes = sorted(({"id": n, **{k: (enc_mol(v) if k == "mol" else v) for k, v in d.items()}} for n, d in G.nodes(data=True)),
                   key=lambda d: d["id"])
    edges = []
    for u, v, d in G.edges(data=True):
        edges.append({"u": u, "v": v, "via": sorted(d["via"]), "rules": sorted(d["rules"]),
                      "stoich_r": int(d["stoich_r"]), "stoich_p": int(d["stoich_p"]),
                      "stoich_r_map": sorted([k, int(c)] for k, c in d["stoich_r_map"].items()),
                      "stoich_p_map": sorted([k, int(c)] for k, c in d["stoich_p_map"].items())})
    edges.sort(key=lambda d: (d["u"], d["v"]))
    return {"nodes": nodes, "edges": edges}


def guarded(fn):
    try:
        return {"ok": canon_net(fn())}
    except KeyError:
        return {"err": "KeyError"}
    except ValueError:
        return {"err": "ValueError"}
    except IndexError:
        return {"err": "IndexError"}


def flags_kwargs(f):
    return dict(species_prefix=f["sp"], reaction_prefix=f["rp"], bipartite_values=tuple(f["bip"]),
                include_stoich=f["stoich"], include_role=f["role"], include_isolated_species=f["isolated"],
                integer_ids=f["int"], include_edge_id_attr=f["eid"], include_mol=f["mol"])


def impl_bip(H, f, twice=False):
    from synkit.CRN.Hypergraph import conversion as cv

    G = cv.hypergraph_to_bipartite(H, **flags_kwargs(f))
    before = canon_bgraph(G)
    res = {"graph": before, "re": guarded(lambda: cv.bipartite_to_hypergraph(G))}
    if twice:  # same query repeated: second import of the same graph, second export of the same network
        G2 = cv.hypergraph_to_bipartite(H, **flags_kwargs(f))
        rep = {"graph_after_import": canon_bgraph(G), "second_export": canon_bgraph(G2),
               "second_import": guarded(lambda: cv.bipartite_to_hypergraph(G)), "import_of_second_export": guarded(lambda: cv.bipartite_to_hypergraph(G2))}
        bad = {k: v for k, v in rep.items() if v != (before if k in ("graph_after_import", "second_export") else res["re"])}
        if bad:
            res["unstable"] = bad
    return res


def impl_species(H, mol, twice=False):
    from synkit.CRN.Hypergraph import conversion as cv

    G = cv.hypergraph_to_species_graph(H, include_mol=mol)
    before = canon_sgraph(G)
    res = {"graph": before, "re": guarded(lambda: cv.species_graph_to_hypergraph(G))}
    if twice:
        G2 = cv.hypergraph_to_species_graph(H, include_mol=mol)
        strip = lambda r: ({"ok": {**r["ok"], "rxns": [{**x, "rule": None} for x in r["ok"]["rxns"]]}} if "ok" in r else r)  # noqa: E731 (rule choice is free)
        rep = {"graph_after_import": canon_sgraph(G), "second_export": canon_sgraph(G2)}
        rep2 = {"second_import": guarded(lambda: cv.species_graph_to_hypergraph(G)), "import_of_second_export": guarded(lambda: cv.species_graph_to_hypergraph(G2))}
        bad = {k: v for k, v in rep.items() if v != before}
        bad.update({k: v for k, v in rep2.items() if strip(v) != strip(res["re"])})
        if bad:
            res["unstable"] = bad
    return res


def one_shot(lines, how):
    """The documented `Iterable[str]` handed over as a list, a tuple, or a one-shot iterator / generator / map."""
    if how == "tuple":
        return tuple(lines)
    if how == "iter":
        return iter(list(lines))
    if how == "gen":
        return (l for l in list(lines))
    if how == "map":
        return map(lambda x: x, list(lines))
    return lines


def impl_strings(H, f, twice=False, how="list"):
    from synkit.CRN.Hypergraph import conversion as cv

    kw = dict(include_rule_suffix=f["rule"], include_edge_id=f["id"], sort=f["sort"])
    lines = cv.hypergraph_to_rxn_strings(H, **kw)
    res = {"lines": list(lines), "re": guarded(lambda: cv.rxns_to_hypergraph(one_shot(lines, how)))}
    if twice:
        rep = {"lines_after_parse": list(lines), "second_print": list(cv.hypergraph_to_rxn_strings(H, **kw))}
        bad = {k: v for k, v in rep.items() if v != res["lines"]}
        again = guarded(lambda: cv.rxns_to_hypergraph(list(res["lines"])))
        if strip_ids(again) != strip_ids(res["re"]):
            bad["second_parse"] = again
        if bad:
            res["unstable"] = bad
    return res


# ------------------------------------------------------------------ comparison helpers
def contents(net):
    """Multiset of (rule, reactants, products), ids dropped."""
    return sorted(json.dumps([r["rule"], r["r"], r["p"]]) for r in net["rxns"])


def strip_ids(res):
    """For id-regenerating round trips: compare everything except the ids themselves."""
    if "ok" not in res:
        return res
    n = res["ok"]
    return {"ok": {"species": n["species"], "contents": contents(n), "mol": n["mol"]}}


def gen_ids_wellformed(res, pattern):
    if "ok" not in res:
        return True
    return all(re.fullmatch(pattern(r["rule"]), r["id"]) for r in res["ok"]["rxns"])


ALL_BOOL6 = list(itertools.product([False, True], repeat=6))


def bip_flag_sets(rnd, quick, full):
    """Every combination of the six boolean flags (with default prefixes), plus prefix variants."""
    out = []
    combos = ALL_BOOL6 if full else rnd.sample(ALL_BOOL6, 8)
    for st, ro, iso, it, eid, mol in combos:
        out.append({"sp": "S:", "rp": "R:", "bip": [0, 1], "stoich": st, "role": ro, "isolated": iso, "int": it, "eid": eid, "mol": mol})
    # prefix variants (string ids): other prefixes, empty prefix on one side, other bipartite markers
    out.append({"sp": "sp/", "rp": "rx/", "bip": [1, 0], "stoich": True, "role": True, "isolated": True, "int": False, "eid": True, "mol": True})
    out.append({"sp": "S:", "rp": None, "bip": [5, 7], "stoich": True, "role": False, "isolated": False, "int": False, "eid": True, "mol": True})
    out.append({"sp": None, "rp": "R:", "bip": [0, 1], "stoich": True, "role": True, "isolated": True, "int": False, "eid": False, "mol": False})
    return out


def node_clash(spec_net, f):
    """String-id view in which a species node id equals a reaction node id (DESIGN §6 F19)."""
    if f["int"]:
        return False
    sp = {(f["sp"] or "") + s for s in spec_net["species"]}
    rx = {(f["rp"] or "") + r["id"] for r in spec_net["rxns"]}
    return bool(sp & rx)


def expected_bip(orig, f):
    """What `bipartite_roundtrip` promises for the re-imported network (canonical form)."""
    used = sorted({s for r in orig["rxns"] for s, _ in r["r"] + r["p"]})
    mol = [m for m in orig["mol"] if m[0] in used] if f["mol"] else []
    return {"species": used, "rxns": orig["rxns"], "mol": mol}


# ------------------------------------------------------------------ evaluation of networks
STR_FLAGS = [{"rule": a, "id": b, "sort": c} for a in (True, False) for b in (False, True) for c in (True, False)]


def rules_wf(orig):
    return all(r["rule"] and not any(ord(ch) in WS for ch in r["rule"]) for r in orig["rxns"])


def labels_wf(orig):
    return all(wf_label(s) for r in orig["rxns"] for s, _ in r["r"] + r["p"])


def all_ones(orig):
    return all(c == 1 for r in orig["rxns"] for _, c in r["r"] + r["p"])


def positive(orig):
    return all(c > 0 for r in orig["rxns"] for _, c in r["r"] + r["p"])


def two_sided(orig):
    return all(r["r"] and r["p"] for r in orig["rxns"])


def sorted_contents(orig):
    return sorted(json.dumps([r["rule"], sorted(r["r"]), sorted(r["p"])]) for r in orig["rxns"])


class Problem(dict):
    pass


def evaluate(ctx, specs, flagsets, tag, count=True):
    """specs: list of network specs; flagsets: list (per spec) of bipartite flag lists.
    Returns per spec a list of problems (dicts: view, flag, kind in {'spec','diverge','clash'}, detail)."""
    Hs, nets, origs, reqs = [], [], [], []
    for spec, fl in zip(specs, flagsets):
        H = build_H(spec)
        net = net_of_H(H)
        Hs.append(H), nets.append(net), origs.append(canon_net(H))
        reqs.append({"cmd": "views.bip", "net": net, "flags": fl})
        reqs.append({"cmd": "views.species", "net": net, "mol": False})
        reqs.append({"cmd": "views.species", "net": net, "mol": True})
        reqs.append({"cmd": "views.strings", "net": net, "flags": STR_FLAGS})
    reps = ctx.lean().ok(reqs, shards=8)
    out = []
    for i, (spec, fl, H, net, orig) in enumerate(zip(specs, flagsets, Hs, nets, origs)):
        probs = []
        mb, ms0, ms1, mstr = reps[4 * i:4 * i + 4]
        pos = positive(orig)
        twice = bool(spec.get("twice"))
        hows = spec.get("line_containers") or ["list"]

        def unstable(im, view, flag):
            if "unstable" in im:
                probs.append(Problem(view=view, flag=flag, kind="diverge",
                                     detail={"what": "the same query repeated on the same object gives another answer (or the call changed its argument)", "differs": im["unstable"]}))
        # ---- bipartite
        for f, m in zip(fl, mb):
            im = impl_bip(H, f, twice)
            unstable(im, "bip", f)
            a, b = im["re"], m["re"]
            if not f["eid"]:
                if not gen_ids_wellformed(a, lambda rule: re.escape(rule) + r"_\d{1,8}"):
                    probs.append(Problem(view="bip", flag=f, kind="diverge", detail="regenerated id is not f'{rule}_{n}' with n < 10**8"))
                a, b = strip_ids(a), strip_ids(b)
            if im["graph"] != m["graph"]:
                probs.append(Problem(view="bip", flag=f, kind="diverge", detail={"what": "exported graph", "impl": im["graph"], "model": m["graph"]}))
            elif a != b:
                probs.append(Problem(view="bip", flag=f, kind="diverge", detail={"what": "re-imported network", "impl": a, "model": b}))
            clash = node_clash(orig, f)
            kept = (f["stoich"] or all_ones(orig)) and pos
            if count:
                ctx.count("bip:" + ("clash" if clash else "claimed" if kept else "lossy(no stoich)"))
                ctx.count("bip:re:" + ("ok" if "ok" in im["re"] else im["re"]["err"]))
                if not pos:
                    ctx.count("bip:zero coefficient poked in (no claim)")
            want = {"ok": expected_bip(orig, f)}
            got = im["re"]
            if not f["eid"]:
                want, got = strip_ids(want), strip_ids(got)
            if kept and got != want:
                probs.append(Problem(view="bip", flag=f, kind="clash" if clash else "spec",
                                     detail={"what": "re-imported network differs from the original", "impl": im["re"], "original": orig}))
        # ---- species graph
        for mol, m in ((False, ms0), (True, ms1)):
            im = impl_species(H, mol, twice)
            unstable(im, "species", {"mol": mol})
            cands = {k: v for k, v in m["rules"]}

            def norules(res):
                if "ok" not in res:
                    return res
                n = res["ok"]
                return {"ok": {**n, "rxns": [{**r, "rule": None} for r in n["rxns"]]}}
            if im["graph"] != m["graph"]:
                probs.append(Problem(view="species", flag={"mol": mol}, kind="diverge", detail={"what": "exported graph", "impl": im["graph"], "model": m["graph"]}))
            elif norules(im["re"]) != norules(m["re"]):
                probs.append(Problem(view="species", flag={"mol": mol}, kind="diverge", detail={"what": "re-imported network", "impl": im["re"], "model": m["re"]}))
            elif "ok" in im["re"] and any(r["rule"] not in cands.get(r["id"], []) for r in im["re"]["ok"]["rxns"]):
                probs.append(Problem(view="species", flag={"mol": mol}, kind="diverge", detail={"what": "rule of a rebuilt reaction is not one of the rules on its arcs", "impl": im["re"], "model_candidates": m["rules"]}))
            ts = two_sided(orig) and pos
            if count:
                ctx.count("species:" + ("claimed" if ts else "one-sided reaction or poked (no claim)"))
                ctx.count("species:re:" + ("ok" if "ok" in im["re"] else im["re"]["err"]))
                if "ok" in im["re"] and any(len(v) > 1 for v in cands.values()):
                    ctx.count("species:rule ambiguous (several rules on shared arcs)")
            if ts:
                want = [[r["id"], r["r"], r["p"]] for r in orig["rxns"]]
                got = [[r["id"], r["r"], r["p"]] for r in im["re"]["ok"]["rxns"]] if "ok" in im["re"] else im["re"]
                if got != want:
                    probs.append(Problem(view="species", flag={"mol": mol}, kind="spec",
                                         detail={"what": "ids / stoichiometry not reproduced", "impl": im["re"], "original": orig}))
        # ---- strings
        lw, rw = labels_wf(orig) and pos, rules_wf(orig)
        for j, (f, m) in enumerate(zip(STR_FLAGS, mstr)):
            im = impl_strings(H, f, twice, hows[j % len(hows)])
            unstable(im, "strings", f)
            if sorted(im["lines"]) != sorted(m["lines"]):
                probs.append(Problem(view="strings", flag=f, kind="diverge", detail={"what": "printed lines", "impl": im["lines"], "model": m["lines"]}))
            elif strip_ids(im["re"]) != strip_ids(m["re"]):
                probs.append(Problem(view="strings", flag=f, kind="diverge", detail={"what": "parsed network", "impl": im["re"], "model": m["re"]}))
            if count:
                if im["lines"] == m["lines"]:
                    ctx.count("strings:line order equal too")
                ctx.count("strings:" + ("claimed" if (lw and rw and f["rule"]) else "no claim (labels/rules outside Wf or rules not printed)"))
                ctx.count("strings:re:" + ("ok" if "ok" in im["re"] else im["re"]["err"]))
            if lw and rw and f["rule"]:
                got = contents(im["re"]["ok"]) if "ok" in im["re"] else im["re"]
                if got != sorted_contents(orig):
                    probs.append(Problem(view="strings", flag=f, kind="spec",
                                         detail={"what": "multiset of (rule, reactants, products) not reproduced", "impl": im["re"], "lines": im["lines"], "original": orig}))
        # no exporter / importer may change the network it was given (hidden state between calls)
        if canon_net(H) != orig or net_of_H(H) != net:
            probs.append(Problem(view="state", flag={}, kind="diverge",
                                 detail={"what": "the network object changed while its views were exported / imported", "before": orig, "after": canon_net(H)}))
        out.append(probs)
    return out


def lean_spec(ctx, orig, res, mode, mol):
    """Verdict of the Lean specification predicate on what the implementation returned."""
    if "ok" not in res:
        return False
    n = res["ok"]
    got = {"species": n["species"], "rxns": n["rxns"], "mol": n["mol"]}
    return ctx.lean().ok([{"cmd": "views.spec", "orig": {k: orig[k] for k in ("species", "rxns", "mol")}, "got": got, "mode": mode, "mol": mol}])[0]


def shrink_spec(ctx, spec, pred):
    """Greedy: drop reactions, isolated species, mol labels, lower coefficients while `pred` holds."""
    from ..shrink import shrink_seq

    def with_rxns(rx):
        return {**spec, "rxns": rx}

    def safe(s):
        try:
            return bool(s["rxns"]) and pred(s)
        except Exception:
            return False
    rx = shrink_seq(spec["rxns"], lambda c: safe(with_rxns(c)), budget=120)
    spec = with_rxns(rx)
    for key in ("isolated", "mol", "ops"):
        cand = {**spec, key: []}
        if spec.get(key) and safe(cand):
            spec = cand
    if len(spec.get("mol") or []) > 1:
        base = spec
        spec = {**spec, "mol": shrink_seq(spec["mol"], lambda c: safe({**base, "mol": c}), budget=30)}
    if len(spec.get("ops") or []) > 1:
        base = spec
        spec = {**spec, "ops": shrink_seq(spec["ops"], lambda c: safe({**base, "ops": c}), budget=20)}
    changed = True
    n = 0
    while changed and n < 60:
        changed = False
        for i, r in enumerate(spec["rxns"]):
            for side in ("r", "p"):
                for j, (s, c) in enumerate(r[side]):
                    for c2 in ([1] if c > 1 else []):
                        r2 = {**r, side: r[side][:j] + [[s, c2]] + r[side][j + 1:]}
                        cand = with_rxns(spec["rxns"][:i] + [r2] + spec["rxns"][i + 1:])
                        n += 1
                        if safe(cand):
                            spec, changed = cand, True
                    if len(r[side]) + len(r["p" if side == "r" else "r"]) > 1:
                        r2 = {**r, side: r[side][:j] + r[side][j + 1:]}
                        cand = with_rxns(spec["rxns"][:i] + [r2] + spec["rxns"][i + 1:])
                        n += 1
                        if safe(cand):
                            spec, changed = cand, True
                            break
                if changed:
                    break
            if changed:
                break
    return spec


def report(ctx, spec, fl, probs, tag):
    """Turn the problems of one network into (at most one per kind/view) violations."""
    seen = set()
    for p in probs:
        key = (p["view"], p["kind"])
        if key in seen:
            continue
        seen.add(key)
        f = p["flag"]
        flags = [f] if p["view"] == "bip" else fl[:1]
        if p["kind"] == "clash":
            ctx.count("clash round-trip failures (class species_label_is_edge_id)")
        # at most two minimised reports per (view, kind) and run; the rest is only counted, and the
        # search goes on so that a correspondence break can still be followed by a failing input
        rep = ctx.extra.setdefault("reports_per_view_kind", {})
        rk = p["view"] + "/" + p["kind"]
        rep[rk] = rep.get(rk, 0) + 1
        if rep[rk] > 2:
            continue

        def still(s, view=p["view"], kind=p["kind"], f=f, flags=flags):
            ps = evaluate(ctx, [s], [flags], tag, count=False)[0]
            return any(q["view"] == view and q["kind"] == kind and (view != "bip" or q["flag"] == f) for q in ps)
        small = shrink_spec(ctx, spec, still)
        ps = [q for q in evaluate(ctx, [small], [flags], tag, count=False)[0] if q["view"] == p["view"] and q["kind"] == p["kind"]]
        q = ps[0] if ps else p
        case = {"kind": "net", "spec": small, "flags": flags}
        detail = {"view": q["view"], "flag": q["flag"], "stream": tag, "detail": q["detail"]}
        if q["kind"] == "spec":
            H = build_H(small)
            orig = canon_net(H)
            mode = {"bip": "bip" if q["flag"].get("eid") else "bip_noid", "species": "species", "strings": "strings"}[q["view"]]
            res = q["detail"].get("impl") if isinstance(q["detail"], dict) else None
            detail["lean_spec_verdict"] = lean_spec(ctx, orig, res, mode, bool(q["flag"].get("mol"))) if isinstance(res, dict) else None
            ctx.violation(f"{q['view']} round trip does not reproduce the network (inside the hypotheses of the theorem)", case, detail)
        elif q["kind"] == "clash":
            ctx.violation("un-prefixed string-id bipartite view: a species named like a reaction id collides with the reaction node; the round trip loses it",
                          case, detail, classes=["species_label_is_edge_id"])
        else:
            ctx.violation(f"correspondence broken: {q['view']} view, implementation differs from the model (no round-trip failure shown)",
                          case, detail, no_input=True)


def run_nets(ctx, items, tag, batch=400):
    """items: list of (spec, flaglist)."""
    for k in range(0, len(items), batch):
        chunk = items[k:k + batch]
        specs = [s for s, _ in chunk]
        fls = [f for _, f in chunk]
        res = evaluate(ctx, specs, fls, tag)
        for (spec, fl), probs in zip(chunk, res):
            nsp = len({s for r in spec["rxns"] for s, _ in r["r"] + r["p"]})
            ctx.case([spec, tag], nontrivial=bool(spec["rxns"]) and nsp >= 2,
                     sample={"stream": tag, "spec": spec} if len(spec["rxns"]) <= 2 else None)
            ctx.count("nets:" + tag)
            ctx.count("rxns:%d" % min(len(spec["rxns"]), 10))
            if probs:
                report(ctx, spec, fl, probs, tag)
                if len(unclassified(ctx)) >= 8:
                    return


# ------------------------------------------------------------------ generators
def exhaustive_specs(species, coeffs, max_side, nrx):
    """All networks of <= nrx reactions (multisets) over `species`, up to renaming of the species
    (the lexicographically least representative of each orbit is kept)."""
    perms = [dict(zip(species, p)) for p in itertools.permutations(species)]

    def key(rx, pi):
        return sorted((sorted((pi[s], c) for s, c in r), sorted((pi[s], c) for s, c in p)) for r, p in rx)
    sides = [[]]
    for k in range(1, max_side + 1):
        for sp in itertools.combinations(species, k):
            for cs in itertools.product(coeffs, repeat=k):
                sides.append([[s, c] for s, c in zip(sp, cs)])
    rxs = [(r, p) for r in sides for p in sides if r or p]
    for n in range(1, nrx + 1):
        for combo in itertools.combinations_with_replacement(range(len(rxs)), n):
            rx = [rxs[i] for i in combo]
            k0 = key(rx, perms[0])
            if any(key(rx, pi) < k0 for pi in perms[1:]):
                continue
            yield {"rxns": [{"id": None, "rule": None, "r": rxs[i][0], "p": rxs[i][1]} for i in combo], "isolated": [], "mol": []}


WF_POOL = ["A", "B", "C", "D", "Fe2", "H2O", "A_1", "Cl2", "E", "r_1", "R1_2", "x9y", "Zn(OH)2", "glc-6P", "a", "rule=Z"]
WEIRD_POOL = ["2A", "x y", "A+B", "_q", "∅", "3", "x*y", "a|b", "a>>b", "α", "[OH-]", "A>", "10Fe", " A", "A B", "0", "2 B"]
RULES = [None, None, "r", "R1", "R2", "k_cat", "a|b", ""]
IDS = ["r_1", "r_2", "r_3", "R1_1", "R1_2", "r_10", "x", "e1", "A", "B", "R1_7"]
MOLS = ["CCO", "O", "[Fe+2]", "C1=CC=CC=C1", "m 1"]


MOL_FALSY = [{"t": "int", "v": 0}, {"t": "float", "v": 0.0}, "", {"t": "tuple", "v": []}, {"t": "bool", "v": False}, {"t": "fset", "v": []},
             {"t": "npint", "v": 0}, {"t": "npfloat", "v": 0.0}]
MOL_TRUTHY = [{"t": "int", "v": 1}, {"t": "float", "v": 1.0}, {"t": "npint", "v": 1}, {"t": "npfloat", "v": 1.0}, {"t": "int", "v": 2}, {"t": "int", "v": 12},
              {"t": "int", "v": 10 ** 9}, {"t": "float", "v": 2.5}, {"t": "int", "v": -1}, {"t": "tuple", "v": ["C", "O"]}, {"t": "tuple", "v": [{"t": "int", "v": 0}]},
              {"t": "tuple", "v": [{"t": "int", "v": 1}, {"t": "float", "v": 2.0}]}, {"t": "bool", "v": True}, {"t": "fset", "v": ["C"]},
              "0", "1", "False", "None", " ", "CCO", "O"]
NUM_TYPES = ["int", "int", "float", "npint", "npfloat"]
BIG_COEFFS = [1, 1, 2, 3, 10, 12, 50, 99, 100, 2500, 65536, 10 ** 6, 123456789, 10 ** 12]
IDS_WIDE = ["", "0", "00", "r_0", "r_100", "R1_12345678", "r_1", "r_2", "R1_1", "x", "A", "7", "e 1", "id=3"]


def typed_mols(rnd, species):
    """Molecule labels of every documented shape: 0-/1-based integer indices (written as int, float or numpy
    numbers, mixed within one network), falsy values (0, 0.0, '', (), False, frozenset()), strings that print
    like numbers, tuples; most species labelled."""
    c = rnd.random()
    sp = sorted(species)
    if c < 0.4:  # indices into an external molecule table
        base = 0 if c < 0.3 else 1
        uniform = rnd.choice(NUM_TYPES) if rnd.random() < 0.5 else None
        return [[s, {"t": uniform or rnd.choice(NUM_TYPES), "v": base + i}] for i, s in enumerate(sp) if rnd.random() < 0.9]
    if c < 0.55:
        return [[s, rnd.choice(["", "0", "1", " ", "False", "CCO", "O", "[Fe+2]"])] for s in sp if rnd.random() < 0.8]
    return [[s, rnd.choice(MOL_FALSY) if rnd.random() < 0.45 else rnd.choice(MOL_TRUTHY)] for s in sp if rnd.random() < 0.75]


def random_spec(rnd, pool, nsp_max=8, nrx_max=10, explicit_ids=True, coeffs=None, ids=None, nsp_min=1, nrx_min=1, mols=False):
    nsp = rnd.randint(nsp_min, nsp_max)
    sp = rnd.sample(pool, min(nsp, len(pool)))
    nrx = rnd.randint(nrx_min, nrx_max)
    rxns, used = [], set()

    def coeff():
        return rnd.choice(coeffs or [1, 1, 1, 2, 2, 3, 10, 12, 100])

    def side(kmax=3):
        k = rnd.choice([0, 1, 1, 1, 2, 2, 3][:4 + kmax])
        return [[s, coeff()] for s in rnd.sample(sp, min(k, len(sp)))]
    while len(rxns) < nrx:
        c = rnd.random()
        if rxns and c < 0.12:  # repeated reaction (same content, other id)
            base = rnd.choice(rxns)
            r, p = [list(x) for x in base["r"]], [list(x) for x in base["p"]]
        elif rxns and c < 0.27:  # same species pair as an earlier reaction, other coefficients / extra species
            base = rnd.choice(rxns)
            r = [[s, coeff()] for s, _ in base["r"]] or side()
            p = [[s, coeff()] for s, _ in base["p"]] or side()
            if rnd.random() < 0.4:
                extra = rnd.choice(sp)
                if extra not in [s for s, _ in p]:
                    p.append([extra, coeff()])
        elif c < 0.40:  # catalyst
            r, p = side(), side()
            cat = rnd.choice(sp)
            if cat not in [s for s, _ in r]:
                r.append([cat, coeff()])
            if cat not in [s for s, _ in p]:
                p.append([cat, coeff()])
        elif c < 0.50:  # source / sink
            r, p = (side(), []) if rnd.random() < 0.5 else ([], side())
        else:
            r, p = side(), side()
        if not r and not p:
            continue
        eid = None
        if explicit_ids and rnd.random() < 0.35:
            eid = rnd.choice(ids or IDS)
            if eid in used:
                eid = None
        rule = rnd.choice(RULES)
        rxns.append({"id": eid, "rule": rule, "r": r, "p": p})
        used.add(eid)
    spec = {"rxns": rxns,
            "isolated": [s for s in ["Z", "Q2"] if rnd.random() < 0.2],
            "mol": [[s, rnd.choice(MOLS)] for s in sp + ["Z"] if rnd.random() < 0.4]}
    if mols:
        spec["mol"] = typed_mols(rnd, sp + ["Z"])
        if rnd.random() < 0.4:
            spec["mol_via"] = "map"
    return spec


def mol_flag_sets(rnd):
    """8 of the 64 flag combinations (6 of them with include_mol forced on) + the prefix variants."""
    out = bip_flag_sets(rnd, True, False)
    for f in out[:6]:
        f["mol"] = True
    return out


def random_ops(rnd, spec):
    """1-4 public-API calls made on the object before it is queried (see apply_op)."""
    sp = sorted({s for r in spec["rxns"] for s, _ in r["r"] + r["p"]})
    ops = []
    for _ in range(rnd.randint(1, 4)):
        c = rnd.random()
        if c < 0.30:
            ops.append(["export", rnd.random() < 0.5])
        elif c < 0.42:
            ops.append(["copy"])
        elif c < 0.57:
            ops.append(["remove_rxn", rnd.randrange(10)])
        elif c < 0.75:
            ops.append(["add", random_spec(rnd, sp + ["Nw"], nsp_max=3, nrx_max=1, explicit_ids=False)["rxns"][0]])
        elif c < 0.85:
            ops.append(["remove_species", rnd.choice(sp)])
        elif c < 0.93:
            ops.append(["assign_mol", rnd.choice(sp), rnd.choice(MOL_FALSY + MOL_TRUTHY)])
        else:
            ops.append(["roundtrip", rnd.random() < 0.5])
    return ops


def buildable(spec):
    try:
        return bool(build_H(spec).edges)
    except KeyError:
        return False


SIDE_FIXED = ["1 A", "1*A", "1A", "01 A", "", " ", "∅", " ∅ ", "∅ + A", "*", "2*", "2*A", "2 * A", "+", "A+", "+A", "A++B", "A + + B", "2A3", "2 A B", "A 2", "2 3 A",
              "2_A", "1_0 A", "1__0 A", "_1 A", "1_ A", "-2 A", "+3 A", "- 2 A", "2.5 A", "2.5A", "12", "0A", "0 A", "007B", "00 B", "A + A", "2A + 3 A + A",
              "2A+B", "10Fe+2Cl2", "2 A + B", "A B", "2 A", "A\nB", "2A\n", "x y", "2x y", " 2  A  ", "3*B*C", "A*B", "**", "2a", "2_", "2é", "éA",
              "A>B", "A|B", "∅A", "2∅", "A + ∅", "0x10 A", "1e3 A", "7 7", "2 +", "+ 2"]


def random_side_string(rnd):
    labs = ["A", "B", "Fe2", "2A", "x y", "_q", "∅", "α", "H2O", "7", ""]
    cfs = ["", "", "2", "10", "0", "007", "1 ", "1*", "1", "2 ", "2*", " 3 * ", "-2 ", "+3 ", "1_0 ", "2  ", "*"]
    seps = [" + ", "+", " +", "+ ", " + + ", "  +  ", " \t+\n"]
    n = rnd.randint(1, 4)
    s = ""
    for i in range(n):
        if i:
            s += rnd.choice(seps)
        s += rnd.choice(cfs) + rnd.choice(labs)
    return rnd.choice(["", " ", "\t"]) + s + rnd.choice(["", " ", "\n"])


LINE_FIXED = ["A >> B", "A>>B", "A + B", "A > B", "A >> B >> C", "A>>B|rule=R1", "A >> B | rule = R1 extra", "A >> B | id=x", "A >> B | norule",
              "A >> B | rule=", "A >> B | rule= ", "A >> B || rule=R", "A >> B | xrule=Q", "A >> B | rule rule=R", "∅ >> ∅", " >> A", "A >> ", ">>", " >> ",
              "A >> B | rule=R1 | rule=R2", "A + * >> B", "2A + B >> 3C | rule=R1 id=r_7", "A >> B | id=rule=Z", "A >> B |", "| rule=R", "A | B >> C",
              "A >> B\t|\trule\t=\tR9", "A >> B | RULE=R1", "A >>> B", "A >> > B", "2 A >> 2*B | rule=k", "A >> B | rule=a|b", "A >> B | rule=∅"]


# ------------------------------------------------------------------ malformed stream (parse results only)
def impl_side(s):
    from synkit.CRN.Hypergraph.rxn import RXNSide

    try:
        return {"ok": [[k, int(v)] for k, v in RXNSide.from_str(s).data.items()]}
    except IndexError:
        return {"err": "IndexError"}
    except ValueError:
        return {"err": "ValueError"}
    except KeyError:
        return {"err": "KeyError"}


def run_sides(ctx, sides, tag):
    mod = ctx.lean().ok([{"cmd": "views.side", "sides": sides}])[0]
    for s, m in zip(sides, mod):
        im = impl_side(s)
        ctx.case(["side", s], nontrivial=bool(s.strip()), sample={"stream": tag, "side": s} if len(s) < 12 else None)
        ctx.count("side:" + ("ok" if "ok" in im else im["err"]))
        if im != m:
            ctx.violation("correspondence broken: RXNSide.from_str differs from the model parseSide (malformed stream, no round-trip claim)",
                          {"kind": "sides", "sides": [s]}, {"impl": im, "model": m, "stream": tag}, no_input=True)
            if len(unclassified(ctx)) >= 8:
                return


def impl_lines(lines, suffix, default_rule):
    from synkit.CRN.Hypergraph.hypergraph import CRNHyperGraph
    from synkit.CRN.Hypergraph import conversion as cv

    if suffix and default_rule == "r":
        return guarded(lambda: cv.rxns_to_hypergraph(lines))
    return guarded(lambda: CRNHyperGraph().parse_rxns(lines, default_rule=default_rule, parse_rule_from_suffix=suffix))


def run_lines(ctx, cases, tag):
    """cases: list of (lines, suffix, default_rule)."""
    mod = ctx.lean().ok([{"cmd": "views.parse", "lines": ls, "suffix": sfx, "default_rule": dr} for ls, sfx, dr in cases], shards=4)
    for (ls, sfx, dr), m in zip(cases, mod):
        im = impl_lines(ls, sfx, dr)
        ctx.case(["lines", ls, sfx, dr], nontrivial=True, sample={"stream": tag, "lines": ls} if len(ls) == 1 else None)
        ctx.count("lines:" + ("ok" if "ok" in im else im["err"]))
        if im != m:
            ctx.violation("correspondence broken: parse_rxns differs from the model parseLines (malformed stream, no round-trip claim)",
                          {"kind": "lines", "lines": ls, "suffix": sfx, "default_rule": dr}, {"impl": im, "model": m, "stream": tag}, no_input=True)
            if len(unclassified(ctx)) >= 8:
                return


# ------------------------------------------------------------------ importers beyond the exporters' output
# The importers accept more than the exporters produce: graphs without `kind` tags (prefix, then
# degree heuristic), without labels / edge ids / stoichiometry, under other attribute names (keyword
# arguments), relabelled species graphs, arcs without `via` / per-reaction maps (legacy values),
# `via` as list / tuple / single id, `mol_attr=None`, `default_rule`; `parse_rxns` takes (line, rule)
# tuples, a mapping, `rules=` and `prefer_suffix`.  Model: SynKitModel/ViewsRaw.lean.  Each case is
# (network, export flags, transformation t): the graph is exported by the real exporter, degraded as t
# says, imported by the real importer with the keyword arguments t says, and the model gets the
# degraded graph as the importer reads it (attributes looked up under the names passed).
def any_guarded(fn):
    try:
        return {"ok": canon_net(fn())}
    except Exception as e:  # every exception is an outcome here (the model knows three kinds)
        return {"err": type(e).__name__}


def hit(mask, i):
    return bool(mask[i % len(mask)])


def mark_generated(res, explicit):
    """Ids not taken from the graph are synthesised from hash(): compared by shape only."""
    if "ok" not in res:
        return res
    n = res["ok"]
    rx = [{**r, "id": (r["id"] if r["id"] in explicit else None)} for r in n["rxns"]]
    rx.sort(key=lambda r: json.dumps(r, sort_keys=True))
    return {"ok": {**{k: v for k, v in n.items() if k != "rxns"}, "rxns": rx}}


def no_rules(res):
    if "ok" not in res:
        return res
    n = res["ok"]
    return {"ok": {**n, "rxns": sorted(({**r, "rule": None} for r in n["rxns"]), key=lambda r: json.dumps(r, sort_keys=True))}}


BIP_RAW_MODES = {
    "kind": ["keep", "all", "all", "all", "species", "reaction", "some", "other"],
    "sp_label": ["keep", "keep", "strip", "rename", "rename_nopass"],
    "rx_label": ["keep", "keep", "strip", "rename", "rename_nopass"],
    "edge_id": ["keep", "keep", "strip", "rename", "rename_nopass", "some"],
    "stoich": ["keep", "keep", "strip", "rename", "rename_nopass", "some"],
    "mol": ["keep", "keep", "rename", "rename_nopass", "none"],
}


def random_bip_transform(rnd, f):
    """35% 'wild' (every dimension drawn from its mode list), else 'mild': 1-2 dimensions (+ 'kind' with 40%) drawn, the rest kept."""
    wild = rnd.random() < 0.35
    t = {k: "keep" for k in BIP_RAW_MODES}
    for k in (list(BIP_RAW_MODES) if wild else rnd.sample(list(BIP_RAW_MODES), rnd.choice([1, 1, 2])) + (["kind"] if rnd.random() < 0.4 else [])):
        t[k] = rnd.choice(BIP_RAW_MODES[k])
    t["mask"] = [rnd.random() < 0.5 for _ in range(7)]
    same = rnd.random() < (0.7 if wild else 0.85)
    t["imp_sp"] = (f["sp"] or "") if same else rnd.choice(["S:", "R:", "sp/", "", "x"])
    t["imp_rp"] = (f["rp"] or "") if same else rnd.choice(["R:", "S:", "rx/", "", "x"])
    t["default_rule"] = rnd.choice(["r", "r", "dflt", "R1"])
    t["numtype"] = rnd.choice(["int", "int", "float", "np", "mixed"])
    t["extra"] = rnd.random() < 0.3
    return t


def retype(v, mode, i):
    """The same number written another way (a graph that went through GraphML / pandas / numpy): == to `v`."""
    import numpy as np

    if mode == "mixed":
        mode = ["int", "float", "np", "npfloat"][i % 4]
    return {"int": int, "float": float, "np": np.int64, "npfloat": np.float64}[mode](v)


NODE_EXTRAS = {"weight": 1.5, "id": 7, "capacity": 0, "title": "", "color": "red"}
EDGE_EXTRAS = {"weight": 3, "label": "x", "id": "r_1", "name": "A", "capacity": 0, "mol": "CCO"}


def add_extras(G, t):
    """Attributes the importer does not select (names a library default might pick up); the model never sees them."""
    for i, n in enumerate(sorted(G.nodes, key=nid_key)):
        for j, (k, v) in enumerate(NODE_EXTRAS.items()):
            if hit(t["mask"], i + j) and k not in G.nodes[n]:
                G.nodes[n][k] = v
    for i, (u, v) in enumerate(sorted(G.edges, key=lambda e: (nid_key(e[0]), nid_key(e[1])))):
        for j, (k, val) in enumerate(EDGE_EXTRAS.items()):
            if hit(t["mask"], i + 2 * j) and k not in G.edges[u, v]:
                G.edges[u, v][k] = val


def apply_bip_transform(G, t):
    """-> (degraded copy of the exported graph, keyword arguments for bipartite_to_hypergraph)."""
    G = G.copy()
    kw = {"species_prefix": t["imp_sp"], "reaction_prefix": t["imp_rp"], "default_rule": t["default_rule"]}
    order = sorted(G.nodes, key=nid_key)
    for i, n in enumerate(order):
        d = G.nodes[n]
        is_sp = d["kind"] == "species"
        mode = t["sp_label"] if is_sp else t["rx_label"]
        if mode == "strip":
            d.pop("label", None)
        elif mode in ("rename", "rename_nopass"):
            d["name" if is_sp else "rname"] = d.pop("label")
        if "edge_id" in d:
            if t["edge_id"] == "strip" or (t["edge_id"] == "some" and hit(t["mask"], i)):
                d.pop("edge_id")
            elif t["edge_id"] in ("rename", "rename_nopass"):
                d["eid"] = d.pop("edge_id")
        if "mol" in d and t["mol"] in ("rename", "rename_nopass"):
            d["smiles"] = d.pop("mol")
        k = t["kind"]
        if k == "all" or (k == "species" and is_sp) or (k == "reaction" and not is_sp) or (k == "some" and hit(t["mask"], i + 3)):
            d.pop("kind")
        elif k == "other" and hit(t["mask"], i + 3):
            d["kind"] = "foo"
    for i, (u, v) in enumerate(sorted(G.edges, key=lambda e: (nid_key(e[0]), nid_key(e[1])))):
        d = G.edges[u, v]
        if "stoich" in d:
            d["stoich"] = retype(d["stoich"], t.get("numtype", "int"), i)
            if t["stoich"] == "strip" or (t["stoich"] == "some" and hit(t["mask"], i + 1)):
                d.pop("stoich")
            elif t["stoich"] in ("rename", "rename_nopass"):
                d["n"] = d.pop("stoich")
    if t.get("extra"):
        add_extras(G, t)
    if t["sp_label"] == "rename":
        kw["species_label_attr"] = "name"
    if t["rx_label"] == "rename":
        kw["reaction_label_attr"] = "rname"
    if t["edge_id"] == "rename":
        kw["reaction_edge_id_attr"] = "eid"
    if t["stoich"] == "rename":
        kw["stoich_attr"] = "n"
    if t["mol"] == "rename":
        kw["mol_attr"] = "smiles"
    elif t["mol"] == "none":
        kw["mol_attr"] = None
    return G, kw


def raw_bgraph(G, kw):
    """The graph as the importer reads it: every attribute under the name passed to the importer."""
    sla, rla = kw.get("species_label_attr", "label"), kw.get("reaction_label_attr", "label")
    eia, sa, ma = kw.get("reaction_edge_id_attr", "edge_id"), kw.get("stoich_attr", "stoich"), kw.get("mol_attr", "mol")
    nodes = [{"id": n, "kind": d.get("kind"), "sp_label": d.get(sla), "rx_label": d.get(rla), "edge_id": d.get(eia),
              "mol": (enc_mol(d[ma]) if ma is not None and ma in d else None)} for n, d in G.nodes(data=True)]
    edges = [{"u": u, "v": v, "stoich": (int(d[sa]) if d.get(sa) is not None else None)} for u, v, d in G.edges(data=True)]
    return {"cmd": "views.bip_raw", "graph": {"nodes": nodes, "edges": edges}, "sp": kw["species_prefix"], "rp": kw["reaction_prefix"],
            "default_rule": kw["default_rule"], "mol": ma is not None}


def bip_claim_request(H, G0, G, kw, f, req):
    """Is a round trip claimed for this degraded graph?  Decided by the model (`bipRawClaimWith`, `bipRawIdsKept` of
    SynKitModel/ViewsClaim.lean; theorems `bipRawClaim_roundtrip`, `bipRawClaim_roundtrip_noid`): it gets the network, the
    export flags, the importer's options and the degraded graph as the importer reads it — nodes in `G.nodes` order, arcs
    reaction node by reaction node, incoming then outgoing, in the order the exporter added them (`G0`)."""
    sa = kw.get("stoich_attr", "stoich")
    edges, seen = [], set()
    for n in G0.nodes:
        if G0.nodes[n].get("kind") != "reaction":
            continue
        for u, v in [(u, n) for u in G0.pred[n]] + [(n, v) for v in G0.succ[n]]:
            if (u, v) in seen:  # only in a clashing view (a node that is species and reaction at once): never claimed
                continue
            seen.add((u, v))
            d = G.edges[u, v]
            edges.append({"u": u, "v": v, "stoich": (int(d[sa]) if d.get(sa) is not None else None)})
    return {"cmd": "views.claim_bip_raw", "net": net_of_H(H), "flags": f, "graph": {"nodes": req["graph"]["nodes"], "edges": edges},
            "sp": req["sp"], "rp": req["rp"], "default_rule": req["default_rule"], "mol": req["mol"]}


def eval_bip_raw(ctx, items, tag, count=True):
    """items: [(spec, f, t)] -> per item list of Problems."""
    from synkit.CRN.Hypergraph import conversion as cv

    prep, reqs = [], []
    for spec, f, t in items:
        H = build_H(spec)
        G0 = cv.hypergraph_to_bipartite(H, **flags_kwargs(f))
        G, kw = apply_bip_transform(G0, t)
        prep.append((H, G0, G, kw))
        reqs.append(raw_bgraph(G, kw))
        reqs.append(bip_claim_request(H, G0, G, kw, f, reqs[-1]))
    reps = ctx.lean().ok(reqs, shards=8)
    reqs, claims = reqs[0::2], reps[1::2]
    reps = reps[0::2]
    out = []
    for (spec, f, t), (H, G0, G, kw), req, m, cl in zip(items, prep, reqs, reps, claims):
        probs = []
        orig = canon_net(H)
        explicit = {n["edge_id"] for n in req["graph"]["nodes"] if n["edge_id"] is not None}
        im = any_guarded(lambda: cv.bipartite_to_hypergraph(G, **kw))
        a, b = mark_generated(im, explicit), mark_generated(m["re"], explicit)
        tagged = [n for n in req["graph"]["nodes"] if n["kind"] in ("species", "reaction")]
        route = ("kind" if len(tagged) == len(req["graph"]["nodes"]) else
                 "degree" if not tagged and not any(isinstance(n["id"], str) and (n["id"].startswith(kw["species_prefix"]) or n["id"].startswith(kw["reaction_prefix"]))
                                                    for n in req["graph"]["nodes"]) else "prefix(+kind)")
        if a != b:
            probs.append(Problem(view="bip_raw", flag=f, kind="diverge", detail={"what": "imported network", "impl": im, "model": m["re"], "kwargs": kw, "route": route}))
        elif "ok" in im and not all(r["id"] in explicit or re.fullmatch(re.escape(r["rule"]) + r"_\d{1,8}", r["id"]) for r in im["ok"]["rxns"]):
            probs.append(Problem(view="bip_raw", flag=f, kind="diverge", detail={"what": "synthesised id is not f'{rule}_{n}' with n < 10**8", "impl": im}))
        elif cl["claim"] and a != mark_generated(cl["re"], explicit):
            # the claim theorems are about the graph with the arcs of a reaction node in in_edges / out_edges order
            probs.append(Problem(view="bip_raw", flag=f, kind="diverge", detail={"what": "imported network (arcs in the exporter's order)", "impl": im, "model": cl["re"], "kwargs": kw, "route": route}))
        # claimed? -> decided by the model: (expected molecule labels kept?, ids compared?)
        claim = (cl["mol"], cl["ids"]) if cl["claim"] else None
        if count:
            ctx.count("bip_raw:route:" + route)
            ctx.count("bip_raw:" + ("claimed" if claim else "no claim (view lost information / heuristic cannot decide)"))
            if claim:
                ctx.count("bip_raw:claimed " + ("with ids" if cl["ids"] else "ids aside"))
            if route != "kind":
                ctx.count("bip_raw:kind missing somewhere, PrefixDisjoint(importer prefixes)=%s" % cl["prefix_disjoint"])
            ctx.count("bip_raw:re:" + ("ok" if "ok" in im else im["err"]))
            for k in BIP_RAW_MODES:
                ctx.count("bip_raw:%s=%s" % (k, t[k]))
            ctx.count("bip_raw:importer prefixes " + ("as exported" if (t["imp_sp"], t["imp_rp"]) == (f["sp"] or "", f["rp"] or "") else "other"))
            ctx.count("bip_raw:ids " + ("int" if f["int"] else "str"))
            ctx.count("bip_raw:stoich written as " + t.get("numtype", "int")), ctx.count("bip_raw:unselected extra attributes=%s" % bool(t.get("extra")))
        if claim:
            mol_kept, with_ids = claim
            want, got = {"ok": expected_bip(orig, {**f, "mol": f["mol"] and mol_kept})}, im
            if not with_ids:
                want, got = strip_ids(want), strip_ids(got)
            if got != want:
                probs.append(Problem(view="bip_raw", flag=f, kind="spec",
                                     detail={"what": "re-imported network differs from the original", "impl": im, "original": orig, "kwargs": kw, "route": route}))
        out.append(probs)
    return out


SP_RAW_MODES = {
    "relabel": ["keep", "int", "int", "str"],
    "label": ["keep", "keep", "strip", "rename", "rename_nopass"],
    "via": ["set", "list", "tuple", "scalar", "strip", "some"],
    "rules": ["set", "set", "scalar", "strip"],
    "maps": ["keep", "keep", "strip", "strip", "strip_r", "strip_p", "some"],
    "legacy": ["keep", "keep", "strip"],
    "mol": ["keep", "keep", "rename", "rename_nopass", "none"],
}


SP_RAW_KEEP = {"relabel": "keep", "label": "keep", "via": "set", "rules": "set", "maps": "keep", "legacy": "keep", "mol": "keep"}


def random_sp_transform(rnd):
    """35% 'wild' (every dimension drawn from its mode list), else 'mild': 1-2 dimensions drawn, the rest as exported."""
    t = dict(SP_RAW_KEEP)
    for k in (list(SP_RAW_MODES) if rnd.random() < 0.35 else rnd.sample(list(SP_RAW_MODES), rnd.choice([1, 1, 2]))):
        t[k] = rnd.choice(SP_RAW_MODES[k])
    t["mask"] = [rnd.random() < 0.5 for _ in range(7)]
    t["default_rule"] = rnd.choice(["r", "r", "dflt", "R1"])
    t["numtype"] = rnd.choice(["int", "int", "float", "np", "mixed"])
    t["extra"] = rnd.random() < 0.3
    return t


def apply_sp_transform(G0, t):
    import networkx as nx

    G = nx.DiGraph()
    G.add_nodes_from((n, dict(d)) for n, d in G0.nodes(data=True))
    G.add_edges_from((u, v, dict(d)) for u, v, d in G0.edges(data=True))
    kw = {"default_rule": t["default_rule"]}
    for n, d in G.nodes(data=True):
        if t["label"] == "strip":
            d.pop("label", None)
        elif t["label"] in ("rename", "rename_nopass") and "label" in d:
            d["name"] = d.pop("label")
        if "mol" in d and t["mol"] in ("rename", "rename_nopass"):
            d["smiles"] = d.pop("mol")
    for i, (u, v, d) in enumerate(sorted(G.edges(data=True), key=lambda e: (e[0], e[1]))):
        via, rules = sorted(d["via"]), sorted(d["rules"])
        nt = t.get("numtype", "int")
        if nt != "int":
            d["stoich_r"], d["stoich_p"] = retype(d["stoich_r"], nt, i), retype(d["stoich_p"], nt, i + 1)
            d["stoich_r_map"] = {k: retype(c, nt, i + j) for j, (k, c) in enumerate(d["stoich_r_map"].items())}
            d["stoich_p_map"] = {k: retype(c, nt, i + j + 1) for j, (k, c) in enumerate(d["stoich_p_map"].items())}
        if t["via"] == "strip" or (t["via"] == "some" and hit(t["mask"], i)):
            d.pop("via")
        elif t["via"] == "list":
            d["via"] = list(d["via"])
        elif t["via"] == "tuple":
            d["via"] = tuple(via)
        elif t["via"] == "scalar":
            d["via"] = via[0] if len(via) == 1 else via
        if t["rules"] == "strip":
            d.pop("rules")
        elif t["rules"] == "scalar" and len(rules) == 1:
            d["rules"] = rules[0]
        mp = t["maps"]
        if mp in ("strip", "strip_r") or (mp == "some" and hit(t["mask"], i + 2)):
            d.pop("stoich_r_map")
        if mp in ("strip", "strip_p") or (mp == "some" and hit(t["mask"], i + 2)):
            d.pop("stoich_p_map")
        if t["legacy"] == "strip":
            d.pop("stoich_r"), d.pop("stoich_p")
    if t.get("extra"):
        for i, n in enumerate(list(G.nodes)):
            for j, (k, v) in enumerate(NODE_EXTRAS.items()):
                if hit(t["mask"], i + j) and k not in G.nodes[n]:
                    G.nodes[n][k] = v
        for i, (u, v, d) in enumerate(sorted(G.edges(data=True), key=lambda e: (e[0], e[1]))):
            for j, (k, val) in enumerate(EDGE_EXTRAS.items()):
                if hit(t["mask"], i + 2 * j) and k not in d:
                    d[k] = val
    if t["relabel"] != "keep":
        order = list(G.nodes)
        mp = {n: (i + 1 if t["relabel"] == "int" else "n%d" % (len(order) - i)) for i, n in enumerate(order)}
        G = nx.relabel_nodes(G, mp, copy=True)
    if t["label"] == "rename":
        kw["species_label_attr"] = "name"
    if t["mol"] == "rename":
        kw["mol_attr"] = "smiles"
    elif t["mol"] == "none":
        kw["mol_attr"] = None
    return G, kw


def raw_sgraph(G, kw):
    la, ma = kw.get("species_label_attr", "label"), kw.get("mol_attr", "mol")
    nodes = [{"id": str(n), "label": d.get(la), "mol": (enc_mol(d[ma]) if ma is not None and ma in d else None)} for n, d in G.nodes(data=True)]
    edges = []
    for u, v, d in G.edges(data=True):
        via, rules = d.get("via"), d.get("rules")
        rm, pm = d.get("stoich_r_map"), d.get("stoich_p_map")
        edges.append({"u": str(u), "v": str(v),
                      "via": (list(via) if isinstance(via, (set, list, tuple)) else via),
                      "rules": (list(rules) if isinstance(rules, set) else rules),
                      "stoich_r": (int(d["stoich_r"]) if d.get("stoich_r") is not None else None),
                      "stoich_p": (int(d["stoich_p"]) if d.get("stoich_p") is not None else None),
                      "r_map": ([[k, int(c)] for k, c in rm.items()] if isinstance(rm, dict) else None),
                      "p_map": ([[k, int(c)] for k, c in pm.items()] if isinstance(pm, dict) else None)})
    return {"cmd": "views.species_raw", "graph": {"nodes": nodes, "edges": edges}, "default_rule": kw["default_rule"], "mol": ma is not None}


def eval_sp_raw(ctx, items, tag, count=True):
    """items: [(spec, include_mol, t)]."""
    from synkit.CRN.Hypergraph import conversion as cv

    prep, reqs = [], []
    for spec, mol, t in items:
        H = build_H(spec)
        G, kw = apply_sp_transform(cv.hypergraph_to_species_graph(H, include_mol=mol), t)
        prep.append((H, G, kw))
        reqs.append(raw_sgraph(G, kw))
        # is a round trip claimed?  decided by the model (`speciesRawClaim`; theorem `speciesRawClaim_roundtrip`) from the
        # network and the degraded graph as the importer reads it
        reqs.append({"cmd": "views.claim_species_raw", "net": net_of_H(H), "mol": mol, "graph": reqs[-1]["graph"]})
    reps = ctx.lean().ok(reqs, shards=8)
    reqs, claims, reps = reqs[0::2], reps[1::2], reps[0::2]
    out = []
    for (spec, mol, t), (H, G, kw), req, m, cl in zip(items, prep, reqs, reps, claims):
        probs = []
        orig = canon_net(H)
        explicit = set()
        for e in req["graph"]["edges"]:
            explicit |= set(e["via"]) if isinstance(e["via"], list) else ({e["via"]} if e["via"] else set())
        im = any_guarded(lambda: cv.species_graph_to_hypergraph(G, **kw))
        cands = {k: v for k, v in m["rules"]}
        a, b = mark_generated(no_rules(im), explicit), mark_generated(no_rules(m["re"]), explicit)
        fl = {"mol": mol, "t": t}
        if a != b:
            probs.append(Problem(view="species_raw", flag=fl, kind="diverge", detail={"what": "imported network", "impl": im, "model": m["re"], "kwargs": kw}))
        elif "ok" in im and not all(r["id"] in explicit or re.fullmatch(r"edge_\d{1,8}", r["id"]) for r in im["ok"]["rxns"]):
            probs.append(Problem(view="species_raw", flag=fl, kind="diverge", detail={"what": "synthesised id is not 'edge_{n}' with n < 10**8", "impl": im}))
        elif "ok" in im and any(r["id"] in explicit and r["rule"] not in cands.get(r["id"], []) for r in im["ok"]["rxns"]):
            probs.append(Problem(view="species_raw", flag=fl, kind="diverge", detail={"what": "rule of a rebuilt reaction is neither on its arcs nor the default", "impl": im, "model_candidates": m["rules"]}))
        elif "ok" in im and any(r["id"] not in explicit and r["rule"] not in {c for k, v in cands.items() if k not in explicit for c in v} for r in im["ok"]["rxns"]):
            probs.append(Problem(view="species_raw", flag=fl, kind="diverge", detail={"what": "rule of a per-arc reaction is not a candidate", "impl": im, "model_candidates": m["rules"]}))
        claim = cl["claim"]
        if count:
            ctx.count("species_raw:" + ("claimed" if claim else "no claim (one-sided / view lost ids, labels or coefficients)"))
            if t["maps"] != "keep":
                ctx.count("species_raw:maps missing somewhere, ArcsUniform=%s AllOnes=%s" % (cl["arcs_uniform"], cl["all_ones"]))
            ctx.count("species_raw:re:" + ("ok" if "ok" in im else im["err"]))
            for k in SP_RAW_MODES:
                ctx.count("species_raw:%s=%s" % (k, t[k]))
            ctx.count("species_raw:coefficients written as " + t.get("numtype", "int")), ctx.count("species_raw:unselected extra attributes=%s" % bool(t.get("extra")))
        if claim:
            want = [[r["id"], r["r"], r["p"]] for r in orig["rxns"]]
            got = [[r["id"], r["r"], r["p"]] for r in im["ok"]["rxns"]] if "ok" in im else im
            if got != want:
                probs.append(Problem(view="species_raw", flag=fl, kind="spec",
                                     detail={"what": "ids / stoichiometry not reproduced", "impl": im, "original": orig, "kwargs": kw}))
        out.append(probs)
    return out


ITEM_FORMS = ["tuples", "tuples", "mapping", "rules", "rules", "rules_short", "mixed"]


def random_items_case(rnd, quick=True):
    return {"str": rnd.choice(STR_FLAGS), "form": rnd.choice(ITEM_FORMS), "rules": rnd.choice(["true", "true", "true", "other", "none", "mix"]),
            "suffix": rnd.random() < 0.8, "prefer": rnd.random() < 0.5, "default_rule": rnd.choice(["r", "dflt"]),
            "via_conversion": rnd.random() < 0.5, "mask": [rnd.random() < 0.5 for _ in range(5)],
            "container": rnd.choice(["list", "list", "tuple", "iter", "gen", "map"])}


def items_of(lines, true_rules, t):
    """-> (argument for parse_rxns, rules= argument or None, the (line, explicit rule) pairs it denotes
    or None when the documented ValueError is expected)."""
    n = len(lines)
    if t["rules"] == "true":
        ex = list(true_rules)
    elif t["rules"] == "other":
        ex = [["X", "k2", ""][i % 3] for i in range(n)]
    elif t["rules"] == "none":
        ex = [None] * n
    else:
        ex = [(true_rules[i] if hit(t["mask"], i) else None) for i in range(n)]
    form = t["form"]
    if form == "tuples":
        return [(l, r) for l, r in zip(lines, ex)], None, [[l, r] for l, r in zip(lines, ex)]
    if form == "mixed":  # plain strings where there is no rule, tuples elsewhere
        return [(l if r is None else (l, r)) for l, r in zip(lines, ex)], None, [[l, r] for l, r in zip(lines, ex)]
    if form == "mapping":
        d = {}
        for l, r in zip(lines, ex):
            d[l] = r
        return d, None, [[l, r] for l, r in d.items()]
    if form == "rules":
        return list(lines), ex, [[l, r] for l, r in zip(lines, ex)]
    return list(lines), ex[:-1] + ([] if n % 2 else [None, None]), None  # length mismatch


def eval_items(ctx, items, tag, count=True):
    """items: [(spec, t)]."""
    from synkit.CRN.Hypergraph import conversion as cv
    from synkit.CRN.Hypergraph.hypergraph import CRNHyperGraph

    prep, reqs = [], []
    for spec, t in items:
        H = build_H(spec)
        f = t["str"]
        pairs_src = sorted(H.edges.items()) if f["sort"] else list(H.edges.items())
        lines = cv.hypergraph_to_rxn_strings(H, include_rule_suffix=f["rule"], include_edge_id=f["id"], sort=f["sort"])
        arg, rules, pairs = items_of(lines, [e.rule for _, e in pairs_src], t)
        prep.append((H, lines, arg, rules, pairs))
        reqs.append({"cmd": "views.parse_items", "items": pairs or [], "suffix": t["suffix"], "prefer": t["prefer"], "default_rule": t["default_rule"]})
        # is a round trip claimed?  decided by the model (`itemsClaim`; theorem `parseItemsFrom_forms`)
        reqs.append({"cmd": "views.claim_items", "net": net_of_H(H), "flags": f, "items": pairs or [], "suffix": t["suffix"], "prefer": t["prefer"]})
    reps = ctx.lean().ok(reqs, shards=4)
    claims, reps = reps[1::2], reps[0::2]
    out = []
    for (spec, t), (H, lines, arg, rules, pairs), m, cl in zip(items, prep, reps, claims):
        probs = []
        orig = canon_net(H)
        kw = dict(default_rule=t["default_rule"], parse_rule_from_suffix=t["suffix"], prefer_suffix=t["prefer"])
        how = t.get("container", "list")
        if not isinstance(arg, dict):  # the documented Iterable: also a tuple / one-shot iterator / generator / map object
            arg = one_shot(arg, how)
            if rules is not None and how == "tuple":
                rules = tuple(rules)
        if count:
            ctx.count("items:container=" + ("mapping" if isinstance(arg, dict) else how))
        if rules is None and t["via_conversion"]:
            im = any_guarded(lambda: cv.rxns_to_hypergraph(arg, **kw))
        else:
            im = any_guarded(lambda: CRNHyperGraph().parse_rxns(arg, rules=rules, **kw))
        want_m = m if pairs is not None else {"err": "ValueError"}  # documented: `rules` length mismatch
        if im != want_m:
            probs.append(Problem(view="items", flag=t, kind="diverge", detail={"what": "parsed network", "impl": im, "model": want_m, "lines": lines}))
        claim = pairs is not None and cl["claim"]
        if count:
            ctx.count("items:" + ("claimed" if claim else "no claim (a rule is not told / suffix left in the text / lengths differ)"))
            ctx.count("items:re:" + ("ok" if "ok" in im else im["err"]))
            ctx.count("items:form=" + t["form"]), ctx.count("items:rules=" + t["rules"])
            ctx.count("items:prefer_suffix=%s parse_rule_from_suffix=%s" % (t["prefer"], t["suffix"]))
            ctx.count("items:entry=" + ("rxns_to_hypergraph" if rules is None and t["via_conversion"] else "parse_rxns"))
            if pairs and any(r is not None for _, r in pairs) and "|" in "".join(lines) and not (t["prefer"] and t["suffix"]):
                ctx.count("items:explicit rule on a line with a suffix, suffix not preferred (the suffix stays in the last label; no claim)")
        if claim:
            got = contents(im["ok"]) if "ok" in im else im
            if got != sorted_contents(orig):
                probs.append(Problem(view="items", flag=t, kind="spec",
                                     detail={"what": "multiset of (rule, reactants, products) not reproduced", "impl": im, "lines": lines, "original": orig}))
        out.append(probs)
    return out


RAW_EVAL = {"bip_raw": lambda ctx, spec, extra, tag, count: eval_bip_raw(ctx, [(spec, extra["f"], extra["t"])], tag, count)[0],
            "species_raw": lambda ctx, spec, extra, tag, count: eval_sp_raw(ctx, [(spec, extra["mol"], extra["t"])], tag, count)[0],
            "items": lambda ctx, spec, extra, tag, count: eval_items(ctx, [(spec, extra["t"])], tag, count)[0]}


def report_raw(ctx, view, spec, extra, probs, tag):
    seen = set()
    for p in probs:
        if p["kind"] in seen:
            continue
        seen.add(p["kind"])
        rep = ctx.extra.setdefault("reports_per_view_kind", {})
        rk = view + "/" + p["kind"]
        rep[rk] = rep.get(rk, 0) + 1
        if rep[rk] > 2:
            continue

        def still(s, kind=p["kind"]):
            return any(q["kind"] == kind for q in RAW_EVAL[view](ctx, s, extra, tag, False))
        small = shrink_spec(ctx, spec, still)
        ps = [q for q in RAW_EVAL[view](ctx, small, extra, tag, False) if q["kind"] == p["kind"]]
        q = ps[0] if ps else p
        case = {"kind": view, "spec": small, **extra}
        detail = {"view": view, "stream": tag, "detail": q["detail"]}
        if q["kind"] == "spec":
            ctx.violation(f"{view}: the importer does not reproduce the network from a view that still determines it (documented input form / keyword argument)",
                          case, detail)
        else:
            ctx.violation(f"correspondence broken: {view}, implementation differs from the model ViewsRaw.lean (no round-trip failure shown)",
                          case, detail, no_input=True)


def run_raw(ctx, view, items, tag, batch=300):
    """items: [(spec, extra)] with extra the dict stored in the replay case."""
    ev = {"bip_raw": lambda ch: eval_bip_raw(ctx, [(s, x["f"], x["t"]) for s, x in ch], tag),
          "species_raw": lambda ch: eval_sp_raw(ctx, [(s, x["mol"], x["t"]) for s, x in ch], tag),
          "items": lambda ch: eval_items(ctx, [(s, x["t"]) for s, x in ch], tag)}[view]
    for k in range(0, len(items), batch):
        chunk = items[k:k + batch]
        for (spec, extra), probs in zip(chunk, ev(chunk)):
            nsp = len({s for r in spec["rxns"] for s, _ in r["r"] + r["p"]})
            ctx.case([spec, extra, tag], nontrivial=bool(spec["rxns"]) and nsp >= 2,
                     sample={"stream": tag, "spec": spec, **extra} if len(spec["rxns"]) <= 1 else None)
            ctx.count("nets:" + tag)
            if probs:
                report_raw(ctx, view, spec, extra, probs, tag)
                if len(unclassified(ctx)) >= 8:
                    return


def one_sided_spec(rnd, pool):
    """Sink-only or source-only network (the degree heuristic of the bipartite importer is exact on sinks)."""
    sp = rnd.sample(pool, rnd.randint(1, 4))
    sink = rnd.random() < 0.7
    rx = []
    for _ in range(rnd.randint(1, 3)):
        side = [[s, rnd.choice([1, 1, 2, 3, 10])] for s in rnd.sample(sp, rnd.randint(1, min(2, len(sp))))]
        rx.append({"id": None, "rule": rnd.choice(RULES), "r": side if sink else [], "p": [] if sink else side})
    return {"rxns": rx, "isolated": [], "mol": [[s, rnd.choice(MOLS)] for s in sp if rnd.random() < 0.4]}


def raw_streams(ctx):
    rnd = ctx.rnd
    # (1) bipartite importer
    n = 260 if ctx.quick else 4000
    items = []
    while len(items) < n:
        c = rnd.random()
        spec = one_sided_spec(rnd, WF_POOL) if c < 0.12 else random_spec(rnd, WF_POOL, nsp_max=6, nrx_max=5)
        if not buildable(spec):
            continue
        st, ro, iso, it, eid, mol = rnd.choice(ALL_BOOL6)
        pv = rnd.random()
        sp, rp = ("S:", "R:") if pv < 0.6 else ("sp/", "rx/") if pv < 0.75 else (None, None) if pv < 0.9 else ("S:", None)
        f = {"sp": sp, "rp": rp, "bip": [0, 1], "stoich": st or rnd.random() < 0.5, "role": ro, "isolated": iso, "int": it and rnd.random() < 0.6,
             "eid": eid or rnd.random() < 0.4, "mol": mol or rnd.random() < 0.4}
        for _ in range(2):
            items.append((spec, {"f": f, "t": random_bip_transform(rnd, f)}))
    # + networks with molecule labels of every documented shape (ints from 0, falsy values, numpy numbers, tuples), mol exported
    extra_n = n // 5
    while len(items) < n + extra_n:
        spec = random_spec(rnd, WF_POOL, nsp_max=6, nrx_max=5, mols=True, ids=IDS_WIDE if rnd.random() < 0.3 else None)
        if not buildable(spec):
            continue
        f = {"sp": "S:", "rp": "R:", "bip": [0, 1], "stoich": True, "role": rnd.random() < 0.5, "isolated": rnd.random() < 0.5, "int": rnd.random() < 0.4,
             "eid": rnd.random() < 0.8, "mol": True}
        t = random_bip_transform(rnd, f)
        t["mol"] = rnd.choice(["keep", "keep", "rename", "rename_nopass", "none"])
        items.append((spec, {"f": f, "t": t}))
    if len(unclassified(ctx)) < 8:
        run_raw(ctx, "bip_raw", items, "bip-importer-raw")
    # (2) species-graph importer
    n = 320 if ctx.quick else 5000
    items = []
    while len(items) < n:
        spec = random_spec(rnd, WF_POOL, nsp_max=6, nrx_max=5)
        if rnd.random() < 0.75:
            spec["rxns"] = [r for r in spec["rxns"] if r["r"] and r["p"]]
        if not spec["rxns"] or not buildable(spec):
            continue
        for _ in range(2):
            items.append((spec, {"mol": rnd.random() < 0.5, "t": random_sp_transform(rnd)}))
    extra_n = n // 5
    while len(items) < n + extra_n:
        spec = random_spec(rnd, WF_POOL, nsp_max=6, nrx_max=5, mols=True, ids=IDS_WIDE if rnd.random() < 0.3 else None)
        spec["rxns"] = [r for r in spec["rxns"] if r["r"] and r["p"]]
        if not spec["rxns"] or not buildable(spec):
            continue
        t = random_sp_transform(rnd)
        t["mol"] = rnd.choice(["keep", "keep", "rename", "rename_nopass", "none"])
        items.append((spec, {"mol": True, "t": t}))
    if len(unclassified(ctx)) < 8:
        run_raw(ctx, "species_raw", items, "species-importer-raw")
    # (3) parse_rxns input forms
    n = 300 if ctx.quick else 5000
    items = []
    while len(items) < n:
        spec = random_spec(rnd, WF_POOL if rnd.random() < 0.85 else WEIRD_POOL + WF_POOL[:4], nsp_max=5, nrx_max=4)
        if buildable(spec):
            items.append((spec, {"t": random_items_case(rnd)}))
    if len(unclassified(ctx)) < 8:
        run_raw(ctx, "items", items, "parse-input-forms")
    # (4) hand-written lines with explicit rules (parse results only)
    if len(unclassified(ctx)) < 8:
        cases = []
        for l in LINE_FIXED:
            for ex, sfx, pre in ((None, True, True), ("X", True, False), ("X", True, True), ("", True, True), ("X", False, True)):
                cases.append(([[l, ex]], sfx, pre, "dflt"))
        run_item_lines(ctx, cases)


def run_item_lines(ctx, cases):
    """cases: [(items [[line, rule|None]..], parse_rule_from_suffix, prefer_suffix, default_rule)]."""
    from synkit.CRN.Hypergraph.hypergraph import CRNHyperGraph

    mod = ctx.lean().ok([{"cmd": "views.parse_items", "items": it, "suffix": sfx, "prefer": pre, "default_rule": dr} for it, sfx, pre, dr in cases], shards=4)
    for (it, sfx, pre, dr), m in zip(cases, mod):
        im = any_guarded(lambda: CRNHyperGraph().parse_rxns([tuple(x) for x in it], default_rule=dr, parse_rule_from_suffix=sfx, prefer_suffix=pre))
        ctx.case(["item-lines", it, sfx, pre], nontrivial=True)
        ctx.count("item-lines:" + ("ok" if "ok" in im else im["err"]))
        if im != m:
            ctx.violation("correspondence broken: parse_rxns with an explicit per-line rule differs from the model parseItemsFrom (malformed stream, no round-trip claim)",
                          {"kind": "item_lines", "items": it, "suffix": sfx, "prefer": pre, "default_rule": dr}, {"impl": im, "model": m}, no_input=True)
            if len(unclassified(ctx)) >= 8:
                return


def rep_streams(ctx):
    rnd = ctx.rnd
    # (a) molecule labels of every documented shape ("int, str, or other hashable"): indices from 0, falsy values,
    #     the same number written as int / float / numpy scalar within one network, tuples, strings printing like numbers
    fixed = {"rxns": [{"id": None, "rule": "R1", "r": [["A", 2], ["E", 1]], "p": [["B", 1], ["E", 1]]}, {"id": None, "rule": "R2", "r": [["B", 12]], "p": [["C", 3]]},
                      {"id": None, "rule": "R3", "r": [], "p": [["A", 1]]}], "isolated": [], "mol": []}
    items = []
    for ty in ("int", "float", "npint"):
        for base in (0, 1):
            items.append(({**fixed, "mol": [[s, {"t": ty, "v": base + i}] for i, s in enumerate("ABCE")]}, mol_flag_sets(rnd)))
    for m in MOL_FALSY + MOL_TRUTHY:
        items.append(({**fixed, "mol": [["A", m], ["B", "CCO"]], "mol_via": "map"}, mol_flag_sets(rnd)))
    n = len(items) + (150 if ctx.quick else 2500)
    while len(items) < n:
        spec = random_spec(rnd, WF_POOL, nsp_max=6, nrx_max=5, mols=True)
        if buildable(spec):
            items.append((spec, mol_flag_sets(rnd)))
    run_nets(ctx, items, "mol-label-shapes")
    # (b) scale: one more species / reaction than the random tier reaches and beyond, coefficients far outside the small
    #     alphabet (ratios like 1:50:2500, 10**12), ids that are falsy / numeric / multi-digit / contain a blank
    items = []
    while len(items) < (60 if ctx.quick else 900):
        big = rnd.random() < 0.6
        spec = random_spec(rnd, WF_POOL, nsp_max=13 if big else 6, nrx_max=14 if big else 5, nsp_min=9 if big else 1, nrx_min=11 if big else 1,
                           coeffs=BIG_COEFFS, ids=IDS_WIDE, mols=rnd.random() < 0.5)
        if buildable(spec):
            items.append((spec, mol_flag_sets(rnd)))
    if len(unclassified(ctx)) < 8:
        run_nets(ctx, items, "scale-and-wide-ids")
    # (c) history: the object was exported / imported / copied / edited through the public API before it is queried; every
    #     query is made twice (second export, second import of the same graph); reaction strings handed over as one-shot iterables
    items = []
    while len(items) < (110 if ctx.quick else 1800):
        spec = random_spec(rnd, WF_POOL, nsp_max=6, nrx_max=5, mols=rnd.random() < 0.5)
        if not buildable(spec):
            continue
        spec["ops"] = random_ops(rnd, spec)
        spec["twice"] = True
        spec["line_containers"] = [rnd.choice(["list", "tuple", "iter", "gen", "map"]) for _ in range(3)]
        if buildable(spec):
            items.append((spec, mol_flag_sets(rnd)))
    if len(unclassified(ctx)) < 8:
        run_nets(ctx, items, "history-and-repeated-queries")


def check_raw_ties(ctx, specs):
    """The raw importers of ViewsRaw.lean agree with the importers the theorems are about on every
    exported graph (default options) — evaluated by the driver."""
    reqs, fls = [], [{"sp": "S:", "rp": "R:", "bip": [0, 1], "stoich": st, "role": True, "isolated": iso, "int": it, "eid": eid, "mol": mol}
                     for st, iso, it, eid, mol in itertools.product([False, True], repeat=5)]
    fls.append({"sp": None, "rp": None, "bip": [0, 1], "stoich": True, "role": True, "isolated": True, "int": False, "eid": True, "mol": True})
    for spec in specs:
        net = net_of_H(build_H(spec))
        reqs.append({"cmd": "views.bip_tie", "net": net, "flags": fls})
        reqs.append({"cmd": "views.species_tie", "net": net, "mol": True})
        reqs.append({"cmd": "views.species_tie", "net": net, "mol": False})
    reps = ctx.lean().ok(reqs, shards=8)
    bad = [i for i, r in enumerate(reps) if (r is not True and not (isinstance(r, list) and all(x is True for x in r)))]
    ctx.count("raw_tie_checks", len(reqs))
    ctx.obligation("ViewsRaw importers == Views importers (the ones under the theorems) on exported graphs, default options", not bad,
                   "first failing request: " + json.dumps(reqs[bad[0]])[:600] if bad else "")


def unclassified(ctx):
    return [v for v in ctx.violations if not v["classes"]]


def load_regress():
    d = ROOT / "regress" / "C16"
    return [json.loads(f.read_text()) for f in sorted(d.glob("*.json"))] if d.exists() else []


def run_case(ctx, c, tag):
    if c["kind"] == "net":
        run_nets(ctx, [(c["spec"], c["flags"])], tag)
    elif c["kind"] == "sides":
        run_sides(ctx, c["sides"], tag)
    elif c["kind"] == "lines":
        run_lines(ctx, [(c["lines"], c.get("suffix", True), c.get("default_rule", "r"))], tag)
    elif c["kind"] in RAW_EVAL:
        run_raw(ctx, c["kind"], [(c["spec"], {k: v for k, v in c.items() if k not in ("kind", "spec", "note")})], tag)
    elif c["kind"] == "item_lines":
        run_item_lines(ctx, [(c["items"], c["suffix"], c["prefer"], c["default_rule"])])


def run(ctx):
    ctx.trusted = [
        "Lean 4.33 kernel; axioms of the property theorems as listed in obligation_list",
        "hand-written model SynKitModel/Views.lean tied to /repo by this correspondence run (not by translation)",
        "Driver/Views.lean JSON codec, harness/props/c16.py adapter + canonicalisation (node/arc lists, attribute dicts, sets sorted)",
        "molecule labels are opaque to the model: the adapter encodes each label injectively up to Python == (enc_mol: str as itself, numbers by value so 0 == 0.0 == numpy.int64(0), "
        "bool / tuple / frozenset tagged); numeric attribute values of degraded graphs travel as int(value)",
        "NetworkX DiGraph semantics (insertion-ordered nodes/arcs, add_node/add_edge update in place) as modelled; Python hash() is a parameter of the model "
        "(ids regenerated from it are compared by shape only)",
        "modelled outside the theorems (SynKitModel/ViewsRaw.lean, tied to Views.lean on exported graphs by the raw_tie obligation): the prefix / degree heuristics of "
        "bipartite_to_hypergraph for graphs without 'kind' tags, missing label / edge_id / stoich / mol attributes, species arcs without 'via' / per-reaction maps, "
        "parse_rxns with explicit per-line rules; the attribute-name keyword arguments are resolved by the adapter (it reads each attribute under the name it passes)",
        "not modelled: non-ASCII decimal digits in \\d / int(); 'rules' of a species arc given as a list (TypeError: unhashable) or tuple; a frozenset as 'via'; "
        "mixed int/str node ids; two species nodes with one label",
    ]
    ctx.assumptions = [
        "string round trip: labels satisfy WfLabel (non-empty, first char an ASCII letter, no whitespace, none of + * | >), rules non-empty without whitespace, rule suffix printed",
        "bipartite round trip: include_stoich (or all coefficients 1); ids reproduced iff include_edge_id_attr; string ids must not clash (always true with prefixes S:/R:)",
        "species-graph round trip: every reaction has reactants and products; rules are not claimed (the code picks an arbitrary rule among reactions sharing an arc)",
        "species without reactions and their molecule labels are not carried by any view's importer (reactions, their species and those species' labels are)",
        "degraded / re-keyed views (raw streams): a round trip is claimed only where the view still determines the network — node kinds present or decidable by the "
        "prefixes passed to the importer (string ids, non-empty prefixes, no reaction node id starting with the species prefix); labels present under the attribute name "
        "passed, or node id == label; rules present or all equal to default_rule; coefficients present (bipartite 'stoich'; species graph: per-reaction maps, or legacy "
        "stoich_r/stoich_p when all reactions on an arc agree) or all 1; species arcs all carry 'via'. Elsewhere (degree heuristic, lost attributes) only implementation == model",
        "parse_rxns input forms: claimed when every rule is told — explicit true rules on suffix-free lines, or lines with a rule suffix and (no explicit rule or prefer_suffix); "
        "an explicit rule on a line that also carries a suffix, without prefer_suffix, leaves the suffix text in the last product label (modelled as the code does, no claim)",
    ]
    ctx.gen_rule = ("regression corpus first; EXHAUSTIVE small networks (see exhaustive_part) each with 8 seeded-random of the 64 boolean flag combinations + 3 prefix variants; "
                    "RANDOM networks (<=8 species, <=10 reactions; catalysts, repeated reactions, source/sink, coefficients up to 100, reactions sharing a species pair, "
                    "labels like Fe2/H2O/A_1/Zn(OH)2, rules from a small alphabet, explicit ids that look generated, species without reactions, molecule labels) with ALL 64 flag "
                    "combinations + 3 prefix variants + the _as_bipartite/_CRNGraphBackend presets, species graph with/without mol, 8 string flag combinations; "
                    "CLASH stream (un-prefixed ids, species named like reaction ids); "
                    "MOL-LABEL-SHAPES (a fixed catalyst/source network with 0-/1-based indices as int/float/numpy and with each falsy / truthy label of MOL_FALSY, MOL_TRUTHY, then random networks "
                    "<=6 species / <=5 reactions whose labels are indices from 0 or 1 written as int / float / numpy scalars mixed within the network, falsy values 0, 0.0, '', (), False, frozenset(), "
                    "strings printing like numbers, tuples; assign_mol or set_mol_map; 8 flag combinations with include_mol forced on in 6 + 3 prefix variants); "
                    "SCALE-AND-WIDE-IDS (60%: 9-13 species and 11-14 reactions, i.e. beyond the random tier; coefficients from BIG_COEFFS up to 10**12; ids from IDS_WIDE: '', '0', '00', multi-digit, with a blank); "
                    "HISTORY (random networks reached through 1-4 earlier public-API calls: every exporter/importer already used, copy(), remove_rxn, add_rxn, remove_species, assign_mol, a previous "
                    "bipartite round trip; each query made twice and the argument checked unchanged; printed lines parsed from list / tuple / iter / generator / map); MALFORMED streams (labels outside WfLabel in networks; hand-written and random side strings; "
                    "hand-written reaction lines, with and without suffix parsing) compared on parse results only; "
                    "RAW-IMPORTER streams: random networks (<=6 species, <=5 reactions; 12% sink-/source-only for the bipartite one) exported by the real exporter with random flags "
                    "(prefixes S:/R: 60%, sp//rx/ 15%, none 15%, S:/none 10%; int ids ~30%), then 2 seeded-random degradations each (35% every dimension drawn, else 1-2 dimensions and the rest as exported) from the mode "
                    "lists BIP_RAW_MODES / SP_RAW_MODES (kind tags kept/stripped for all, species, reactions, a masked subset, or set to another value; labels, edge_id, stoich, mol "
                    "kept / stripped / renamed with or without passing the attribute-name keyword; importer prefixes as exported 70% else from a small pool; default_rule; mol_attr=None; "
                    "species graph: nodes relabelled to 1..N or n<k>, via as set/list/tuple/single id/stripped/partly stripped, rules set/single/stripped, per-reaction maps kept/stripped/"
                    "one side/partly, legacy values kept/stripped); in both raw streams the coefficients are written as int / float / numpy.int64 / mixed per arc (all == the exported integer; the model "
                    "gets the integer), 30% carry unselected extra attributes (nodes: weight,id,capacity,title,color; arcs: weight,label,id,name,capacity,mol), and +20% networks with typed / falsy "
                    "molecule labels and wide ids with include_mol on; PARSE-INPUT-FORMS (argument as list / tuple / one-shot iter / generator / map): printed lines (8 flag combinations) fed back as (line, rule) tuples, mixed, mapping, rules=, rules= of wrong "
                    "length, with true / other / no / partly given rules, prefer_suffix, parse_rule_from_suffix, default_rule, through parse_rxns or rxns_to_hypergraph; LINE_FIXED x 5 explicit-rule settings.")
    ctx.nontrivial_rule = "network distinct as a JSON value (per stream) with >=1 reaction over >=2 species; side/line strings distinct and non-blank"
    build_and_audit(ctx, ["SynKitProofs.Props.C16", "SynKitProofs.ViewsRawLemmas"], "SynKitProofs/Audit/C16.lean", THEOREMS)
    rnd = ctx.rnd

    # WfLabel twin check
    labs = WF_POOL + WEIRD_POOL + ["", "A\u00a0B", "Z\t", "b*", "q+", "k|", "g>", "é", "Aé", "A∅"]
    lw = ctx.lean().ok([{"cmd": "views.wf", "labels": labs}])[0]
    ctx.obligation("WfLabel (Lean) == wf_label (harness twin) on the label pools", lw == [wf_label(s) for s in labs],
                   str([(s, a) for s, a in zip(labs, lw) if a != wf_label(s)]))
    assert all(wf_label(s) for s in WF_POOL) and not any(wf_label(s) for s in WEIRD_POOL)

    # presets of the two internal callers, read from the Lean definitions
    def preset(**kw):
        return ctx.lean().ok([{"cmd": "views.preset", **kw}])[0]

    # regression corpus
    reg = load_regress()
    for c in reg:
        run_case(ctx, c, "regress")
    ctx.count("regress_cases", len(reg))

    # exhaustive small networks (up to renaming of species)
    if ctx.quick:
        ex = list(exhaustive_specs(["A", "B", "C"], [1, 2, 3], 1, 2)) + list(exhaustive_specs(["A", "B"], [1, 2], 2, 2)) + \
            list(exhaustive_specs(["A", "B", "C"], [1, 2, 3], 2, 1))
        ctx.extra["exhaustive_part"] = ("up to renaming of species: all networks of <=2 reactions over {A,B,C}, coefficients 1..3, <=1 species per side; all of <=2 reactions "
                                        "over {A,B}, coefficients 1..2, <=2 species per side; all single reactions over {A,B,C}, coefficients 1..3, <=2 species per side")
    else:
        ex = list(exhaustive_specs(["A", "B", "C"], [1, 2], 1, 3)) + list(exhaustive_specs(["A", "B", "C"], [1, 2, 3], 1, 2)) + \
            list(exhaustive_specs(["A", "B", "C"], [1, 2], 2, 2)) + list(exhaustive_specs(["A", "B", "C", "D"], [1, 2, 3], 2, 1)) + \
            list(exhaustive_specs(["A", "B"], [1, 2, 3], 2, 2))
        ctx.extra["exhaustive_part"] = ("up to renaming of species: all networks of <=3 reactions over {A,B,C}, coefficients 1..2, <=1 species per side; all of <=2 reactions over "
                                        "{A,B,C}, coefficients 1..3, <=1 species per side; all of <=2 reactions over {A,B,C}, coefficients 1..2, <=2 species per side; all single "
                                        "reactions over {A,B,C,D}, coefficients 1..3, <=2 species per side; all of <=2 reactions over {A,B}, coefficients 1..3, <=2 species per side")
    ctx.extra["exhaustive"] = True
    items = [(s, bip_flag_sets(rnd, ctx.quick, False)) for s in ex]
    if len(unclassified(ctx)) < 8:
        run_nets(ctx, items, "exhaustive-small")

    # random networks, all flag combinations + presets
    nrand = 500 if ctx.quick else 6000
    pres = [preset(name="as_bipartite", sp="S:", rp="R:", int=True, stoich=True), preset(name="as_bipartite", sp="a", rp="b", int=False, stoich=False),
            preset(name="backend", int=True, stoich=True), preset(name="backend", int=False, stoich=True), preset(name="backend", int=False, stoich=False)]
    items = []
    while len(items) < nrand:
        spec = random_spec(rnd, WF_POOL)
        if buildable(spec):
            items.append((spec, bip_flag_sets(rnd, ctx.quick, True) + pres))
    if len(unclassified(ctx)) < 8:
        run_nets(ctx, items, "random")
        check_presets(ctx, [s for s, _ in items[:60 if ctx.quick else 400]])

    # clash stream (DESIGN §6 F19): un-prefixed string ids, species named like reaction ids
    items = []
    while len(items) < (40 if ctx.quick else 300):
        spec = random_spec(rnd, ["r_1", "r_2", "R1_1", "A", "B", "x"], nsp_max=4, nrx_max=4)
        if buildable(spec):
            fl = [{"sp": None, "rp": None, "bip": [0, 1], "stoich": True, "role": True, "isolated": True, "int": False, "eid": e, "mol": True} for e in (True, False)]
            fl.append({"sp": "R:", "rp": "R:", "bip": [0, 1], "stoich": True, "role": True, "isolated": rnd.random() < 0.5, "int": False, "eid": True, "mol": False})
            items.append((spec, fl))
    if len(unclassified(ctx)) < 8:
        run_nets(ctx, items, "clash")

    # representation / scale / history streams (round-trip claims exactly as for the random stream)
    if len(unclassified(ctx)) < 8:
        rep_streams(ctx)

    # malformed: networks whose labels are outside WfLabel (all three views; no string round-trip claim)
    items = []
    while len(items) < (120 if ctx.quick else 1200):
        spec = random_spec(rnd, WEIRD_POOL + WF_POOL[:4], nsp_max=5, nrx_max=4)
        if buildable(spec):
            items.append((spec, bip_flag_sets(rnd, ctx.quick, False)))
    if len(unclassified(ctx)) < 8:
        run_nets(ctx, items, "malformed-labels")
    items = []
    while len(items) < (60 if ctx.quick else 600):
        spec = random_spec(rnd, WF_POOL[:6], nsp_max=4, nrx_max=3, explicit_ids=False)
        spec["poke"] = [[rnd.randrange(3), rnd.choice("rp"), rnd.choice(WF_POOL[:6])] for _ in range(rnd.randint(1, 4))]
        if buildable(spec):
            items.append((spec, bip_flag_sets(rnd, ctx.quick, False)))
    if len(unclassified(ctx)) < 8:
        run_nets(ctx, items, "malformed-zero-coefficient")
    if len(unclassified(ctx)) < 8:
        run_sides(ctx, SIDE_FIXED + [random_side_string(rnd) for _ in range(1500 if ctx.quick else 20000)], "malformed-sides")
    if len(unclassified(ctx)) < 8:
        cases = [([l], True, "r") for l in LINE_FIXED] + [([l], False, "dflt") for l in LINE_FIXED]
        for _ in range(300 if ctx.quick else 4000):
            k = rnd.randint(1, 4)
            ls = []
            for _ in range(k):
                l = random_side_string(rnd) + rnd.choice([" >> ", ">>", " > ", " >>", ">> ", " >> >> "]) + random_side_string(rnd)
                l += rnd.choice(["", "", " | rule=R1", "|rule = k", " | id=r_1", " | rule=R2 id=x", " | x | rule=R3", " | rule="])
                ls.append(l)
            cases.append((ls, rnd.random() < 0.8, rnd.choice(["r", "dflt"])))
        run_lines(ctx, cases, "malformed-lines")
    # importers on inputs the exporters do not produce (documented input forms, keyword arguments)
    if len(unclassified(ctx)) < 8:
        raw_streams(ctx)
    tie_specs = []
    while len(tie_specs) < (40 if ctx.quick else 400):
        spec = random_spec(rnd, WF_POOL, nsp_max=5, nrx_max=4)
        if buildable(spec):
            tie_specs.append(spec)
    check_raw_ties(ctx, tie_specs)
    real = [v for v in ctx.violations if not v["classes"]]
    ctx.obligation("correspondence: exported views and re-imported networks, implementation == model, every flag combination", not [v for v in real if v["no_input"]])
    ctx.obligation("round trips reproduce the network on the implementation wherever the theorems claim it", not [v for v in real if not v["no_input"]])


def check_presets(ctx, specs):
    """`_as_bipartite`, `_as_species_graph`, `_CRNGraphBackend` are the exporter at the flag presets
    written down in the model (`asBipartiteFlags`, `backendFlags`)."""
    from synkit.CRN.Hypergraph import conversion as cv
    from synkit.CRN.Hypergraph.backend import _CRNGraphBackend

    combos = [(it, st) for it in (True, False) for st in (True, False)]
    pa = ctx.lean().ok([{"cmd": "views.preset", "name": "as_bipartite", "sp": "S:", "rp": "R:", "int": it, "stoich": st} for it, st in combos])
    pb = ctx.lean().ok([{"cmd": "views.preset", "name": "backend", "int": it, "stoich": st} for it, st in combos])
    bad = None
    for spec in specs:
        H = build_H(spec)
        for (it, st), fa, fb in zip(combos, pa, pb):
            g1 = canon_bgraph(cv._as_bipartite(H, species_prefix="S:", reaction_prefix="R:", integer_ids=it, include_stoich=st))
            g2 = canon_bgraph(cv.hypergraph_to_bipartite(H, **flags_kwargs(fa)))
            g3 = canon_bgraph(_CRNGraphBackend(H, include_rule=True, integer_ids=it, include_stoich=st).G)
            g4 = canon_bgraph(cv.hypergraph_to_bipartite(H, **flags_kwargs(fb)))
            if g1 != g2 or g3 != g4:
                bad = bad or {"spec": spec, "int": it, "stoich": st, "which": "_as_bipartite" if g1 != g2 else "_CRNGraphBackend"}
        s1 = canon_sgraph(cv._as_species_graph(H))
        s2 = canon_sgraph(_CRNGraphBackend(H, include_rule=False).G)
        s3 = canon_sgraph(cv.hypergraph_to_species_graph(H))
        if s1 != s3 or s2 != s3:
            bad = bad or {"spec": spec, "which": "_as_species_graph/_CRNGraphBackend species view"}
        bb, bs = _CRNGraphBackend(H, include_rule=True), _CRNGraphBackend(H, include_rule=False)
        if (bb.graph_type, bs.graph_type) != ("bipartite", "species") or bb.G is not bb.G or bs.G is not bs.G \
                or canon_bgraph(bb.G) != canon_bgraph(cv.hypergraph_to_bipartite(H, **flags_kwargs(pb[2]))) or canon_sgraph(bs.G) != s3:
            bad = bad or {"spec": spec, "which": "_CRNGraphBackend graph_type / cached graph"}
        ctx.count("preset_checks")
    if bad:
        ctx.violation("correspondence broken: an internal caller no longer uses the exporter at the flag preset written in the model",
                      {"kind": "net", "spec": bad["spec"], "flags": []}, bad, no_input=True)


def replay(ctx, case):
    run_case(ctx, case["case"], "replay")

"""C20 — siphons, traps, Petri firing and pathway realizability match their Petri-net definitions.

Three correspondence streams tie `lean/SynKitModel/Petri.lean` (about which Props/C20.lean proves
the property) to the working tree:

* structure: `find_siphons` / `find_traps` (and `PetriAnalyzer`) vs the model, families compared as
  sets of label sets; inputs are CRNHyperGraphs and plain NetworkX bipartite graphs in every documented
  variation (graph class, node typing, missing `stoich`, arc direction, ids, labels, order, exporter options); on a difference the Lean command `spec.petri.minimal` evaluates the right-hand
  side of `siphons_spec` / `traps_spec` on what the implementation returned; whenever the input is a NetworkX graph, the LIVE object
  is serialised node by node and edge by edge (`bip_graph_request`, i.e. `c17.bip_request`), the Lean model of the graph reading
  (`SynKitModel/BipGraph.lean`, `BipGraphViews.lean`; driver command `bip.structure`) reads the network off it (`netOfGraph`), that
  network must be the described one (harness self-test, `Infra` otherwise) and the EXPECTED families are `petri.structure` of it
  (theorems `graphSiphonPred_eq`, `graphTrapPred_eq`, `graphFindSiphons_eq` tie the graph-level model to the network-level one);
* firing: `PetriNet.add_transition / enabled / fire / marking_to_tuple` vs the model on random nets,
  markings (with missing places) and ids (unknown id -> KeyError);
* realizability: the extended net (`M0`, `MT`, arcs), the verdict with the same bounds, validity of
  the implementation's own certificate (`spec.petri.certificate`, the hypothesis of the proved
  `certificate_check_sound`), and the verdict against an exhaustive reachability search written here.

Shape of the expected family (structure): besides sparse random networks (whose minimal siphons / traps are nearly always a few
sets of one size) the families are PLANTED - an antichain of a chosen shape (mixed sizes, small members touching every species
plus a larger member, gaps in the sizes, nothing below size n-1, a whole layer of k-subsets) is turned into a network whose
minimal siphons (traps) are exactly that antichain - so that the subset search itself (size order, pruning, early exits, caps) is
exercised; dense networks in which every species is produced; 4-species networks one step beyond the exhaustive stream; the same
numbers in several Python types with unselected library-default attributes next to them (`numeric_build`).

Three history streams reuse ONE object across many calls (hidden state between calls): all public
methods of `PathwayRealizability` in random order, interleaved construction / queries on `PetriNet`
objects, and `PetriAnalyzer` objects kept across in-place edits of their network.  The model side is
computed per query from what is loaded / defined at that moment (the Lean model is pure), never from
the history.
"""
import itertools
import json
from collections import deque

from ..core import ROOT, Infra
from ..leanscope import build_and_audit_scoped
from ..shrink import shrink_seq
from .. import netio

THEOREMS = [
    "SynKit.Petri.minimalSets_spec",
    "SynKit.Petri.closure_predicates_spec",
    "SynKit.Petri.siphons_spec",
    "SynKit.Petri.traps_spec",
    "SynKit.Petri.siphons_traps_spec_unbounded",
    "SynKit.Petri.findSiphons_labels",
    "SynKit.Petri.enabled_spec",
    "SynKit.Petri.fire_spec",
    "SynKit.Petri.realizable_sound",
    "SynKit.Petri.certificate_check_sound",
    "SynKit.Petri.bfs_never_fuelOut",
    "SynKit.Petri.bfs_complete_partial",
    "SynKit.Petri.bfs_notFound_within_states",
    "SynKit.Petri.bfs_complete_within_bounds",
    "SynKit.Petri.bfs_complete_within_bounds_5a",
    "SynKit.Petri.bfs_never_unrealizable_within_bounds",
    "SynKit.Petri.bfs_complete_within_bounds_card",
    "SynKit.BipGraph.graphSiphonPred_eq",
    "SynKit.BipGraph.graphTrapPred_eq",
    "SynKit.BipGraph.graphFindSiphons_eq",
    "SynKit.BipGraph.graphSiphonsTraps_spec",
    "SynKit.BipGraph.graphStructure_orientation_invariant",
    "SynKit.BipGraph.graphStructure_undirected_eq_directed",
    "SynKit.BipGraph.graphStructure_missing_stoich",
]

SPEC_LIMIT = 10_000  # markings explored by the exhaustive oracle


# =============================================================== structure (siphons / traps)
def fam(x):
    return sorted(sorted(s) for s in x)


def to_bipartite_variant(desc, render=None):
    """The hand-built bipartite graph of `netio.to_bipartite_raw` in other documented renderings:
    'int-ids' (integer node ids, species/reaction told apart by the `bipartite` flag only, labels as
    attributes, nodes inserted in reverse order), 'no-label' (species node id = label, no `label`
    attribute), 'undirected' (nx.Graph; only for networks where no species is on both sides of a reaction)."""
    import networkx as nx

    if render is None:
        return netio.to_bipartite_raw(desc)
    net = netio.to_net_json_raw(desc)
    G = nx.Graph() if render == "undirected" else nx.DiGraph()
    if render == "int-ids":
        sid = {s: 100 + 2 * i for i, s in enumerate(reversed(net["species"]))}
        rid = {r["id"]: 7 + 2 * i for i, r in enumerate(reversed(net["reactions"]))}
        for r in reversed(net["reactions"]):
            G.add_node(rid[r["id"]], bipartite=1, label=r["rule"])
        for s in reversed(net["species"]):
            G.add_node(sid[s], bipartite=0, label=s)
    elif render == "no-label":
        sid = {s: s for s in net["species"]}
        rid = {r["id"]: "R:" + r["id"] for r in net["reactions"]}
        for s in net["species"]:
            G.add_node(s, kind="species")
        for r in net["reactions"]:
            G.add_node(rid[r["id"]], kind="reaction", label=r["rule"])
    else:
        sid = {s: "S:" + s for s in net["species"]}
        rid = {r["id"]: "R:" + r["id"] for r in net["reactions"]}
        for s in net["species"]:
            G.add_node(sid[s], kind="species", bipartite=0, label=s)
        for r in net["reactions"]:
            G.add_node(rid[r["id"]], kind="reaction", bipartite=1, label=r["rule"])
    for r in net["reactions"]:
        for sp, c in r["r"]:
            G.add_edge(sid[sp], rid[r["id"]], role="reactant", stoich=int(c))
        for sp, c in r["p"]:
            G.add_edge(rid[r["id"]], sid[sp], role="product", stoich=int(c))
    return G


def undirected_ok(desc):
    return all(not ({sp for sp, _ in r["r"]} & {sp for sp, _ in r["p"]}) for r in desc["reactions"])


# --------------------------------------------------------------- plain-networkx inputs, every documented variation
# `find_siphons` / `find_traps` / `PetriAnalyzer` accept "CRNHyperGraph or bipartite graph".  A case with an
# `nx` entry hands them a plain NetworkX graph.  The entry fixes the coarse choices (counted in the evidence);
# the fine ones (which node gets which flag, which arc loses its `stoich`, insertion order, ...) come from a
# private `random.Random(rseed)` whose seed was drawn from `ctx.rnd`, so a stored case rebuilds the same graph.
#
#   via     'hand'   : built here node by node        | 'export': `hypergraph_to_bipartite(H, **opts)`
#   cls     DiGraph | MultiDiGraph | Graph | MultiGraph  (export: the exported DiGraph copied into that class)
#   flags   kind | bipartite | both | mixed               node typing by `kind`, by the `bipartite` flag, or both
#   stoich  all | none | mixed                            arcs without `stoich` count once (coefficient 1)
#   arcs    forward | reversed | mixed                    species->reaction for a reactant or the other way
#                                                         round; the `role` attribute is the convention
#   ids     str | int | mixed | label                     'S:A'/'R:r_1', integers, both kinds, or bare label / id
#   labels  all | none | mixed                            species without `label` are reported as str(node id)
#   order   given | reversed | shuffled | edges-first     insertion order of nodes and arcs
#   extra   bool                                          unrelated node / arc attributes present
# The expected answer is the Lean model on the EFFECTIVE network (`nx_build` -> eff): species renamed to the
# label the documentation says is reported, coefficient 1 where `stoich` is left out; it never comes from the code.
NX_CLASSES = ["DiGraph", "MultiDiGraph", "Graph", "MultiGraph"]
NX_HAND = {"flags": ["kind", "bipartite", "both", "mixed"], "stoich": ["all", "none", "mixed"],
           "arcs": ["forward", "reversed", "mixed"], "ids": ["str", "int", "mixed", "label"],
           "labels": ["all", "none", "mixed"], "order": ["given", "reversed", "shuffled", "edges-first"]}
NX_EXPORT_OPTS = {"integer_ids": [False, True], "species_prefix": ["S:", None, "sp_"], "reaction_prefix": ["R:", None, "rx/"],
                  "include_stoich": [True, False], "include_isolated_species": [True, False],
                  "include_edge_id_attr": [False, True], "include_mol": [False, True],
                  "bipartite_values": [[0, 1], [5, 7]]}
# Marker pairs that reuse 0 / 1 with the other meaning.  The exporter writes `kind` next to them and the node typing is documented as
# "`kind` if present, otherwise the `bipartite` flag", so these graphs describe the same network; they are kept in a stream of their own
# and violations found there carry the class below (see `structure_classes`).
NX_CONFLICTING_MARKERS = [[1, 2], [1, 0], [2, 0], [1, 1]]
MARKER_CLASS = "nonstandard-bipartite-markers"


def structure_classes(case):
    opts = (case.get("nx") or {}).get("opts") or {}
    return [MARKER_CLASS] if opts.get("bipartite_values") in NX_CONFLICTING_MARKERS else []


def nx_class(name):
    import networkx as nx

    return {"DiGraph": nx.DiGraph, "MultiDiGraph": nx.MultiDiGraph, "Graph": nx.Graph, "MultiGraph": nx.MultiGraph}[name]


def strip_catalysts(desc):
    """An undirected simple graph has one edge per (species, reaction) pair: drop the product entry of a species
    that is also a reactant of the same reaction (reactions left without any entry are removed)."""
    rs = []
    for r in desc["reactions"]:
        on_r = {sp for sp, _ in r["r"]}
        r = dict(r, p=[e for e in r["p"] if e[0] not in on_r])
        if r["r"] or r["p"]:
            rs.append(r)
    return dict(desc, reactions=rs or [{"id": "r_1", "rule": "r", "r": [["A", 1]], "p": []}])


def random_nx_spec(rnd, via, cls=None):
    spec = {"via": via, "cls": cls or rnd.choice(NX_CLASSES), "rseed": rnd.randrange(1 << 30)}
    if via == "hand":
        for k, vals in NX_HAND.items():
            spec[k] = rnd.choice(vals)
        spec["extra"] = rnd.random() < 0.3
    else:
        spec["opts"] = {k: rnd.choice(v) for k, v in NX_EXPORT_OPTS.items() if rnd.random() < 0.5}
        spec["order"] = rnd.choice(["given", "given", "shuffled"])
    return spec


def nx_build(case):
    """-> (graph, effective description, realised choices)."""
    import random as _random

    import networkx as nx

    spec, desc = case["nx"], case["desc"]
    r0 = _random.Random(spec.get("rseed", 0))
    cls = spec.get("cls", "DiGraph")
    multi, directed = cls.startswith("Multi"), cls.endswith("DiGraph")
    info = {"no_stoich_arcs": 0, "reversed_arcs": 0, "unlabelled_species": 0}
    if spec["via"] == "export":
        from synkit.CRN.Hypergraph.conversion import hypergraph_to_bipartite

        opts = dict(spec.get("opts") or {})
        H = netio.to_hypergraph(desc)
        if opts.get("include_mol"):
            H.species_to_mol = {s: {"name": s} for s in sorted(H.species)[::2]}
        D = hypergraph_to_bipartite(H, **opts)
        nodes, arcs = list(D.nodes(data=True)), list(D.edges(data=True))
        if spec.get("order") == "shuffled":
            r0.shuffle(nodes)
            r0.shuffle(arcs)
        if cls == "DiGraph" and spec.get("order") != "shuffled":
            G = D
        else:
            G = nx_class(cls)()
            G.add_nodes_from((n, dict(d)) for n, d in nodes)
            for u, v, d in arcs:
                if not directed and r0.random() < 0.5:
                    u, v = v, u
                G.add_edge(u, v, **d)
        if G.number_of_edges() != len(arcs):
            raise AssertionError("harness: arcs collapsed while rendering " + json.dumps(case))
        rs = netio.reactions_of(desc)
        if opts.get("include_stoich", True) is False:
            rs = [dict(r, r=[[s, 1] for s, _ in r["r"]], p=[[s, 1] for s, _ in r["p"]]) for r in rs]
            info["no_stoich_arcs"] = sum(len(r["r"]) + len(r["p"]) for r in rs)
        iso = list(desc.get("isolated", [])) if opts.get("include_isolated_species", True) else []
        return G, {"reactions": rs, "isolated": iso}, info

    raw = netio.to_net_json_raw(desc)
    species, rxns = raw["species"], raw["reactions"]
    ids, labels, flags = spec.get("ids", "str"), spec.get("labels", "all"), spec.get("flags", "both")
    nid = {}
    pool = r0.sample(range(1, 400), len(species) + len(rxns))
    for k, s in enumerate(species):
        as_int = ids == "int" or (ids == "mixed" and r0.random() < 0.5)
        nid["s", s] = pool[k] if as_int else (s if ids == "label" else "S:" + s)
    for k, r in enumerate(rxns):
        as_int = ids == "int" or (ids == "mixed" and r0.random() < 0.5)
        nid["r", r["id"]] = pool[len(species) + k] if as_int else (r["id"] if ids == "label" else "R:" + r["id"])
    attrs, shown = {}, {}
    for kind, items in (("s", species), ("r", [r["id"] for r in rxns])):
        for x in items:
            f = r0.choice(["kind", "bipartite", "both"]) if flags == "mixed" else flags
            a = {}
            if f in ("kind", "both"):
                a["kind"] = "species" if kind == "s" else "reaction"
            if f in ("bipartite", "both"):
                a["bipartite"] = 0 if kind == "s" else 1
            has_label = labels == "all" or (labels == "mixed" and r0.random() < 0.5)
            if kind == "s":
                if has_label:
                    a["label"] = x
                else:
                    info["unlabelled_species"] += 1
                shown[x] = x if has_label else str(nid[kind, x])
            elif has_label:
                a["label"] = next(r["rule"] for r in rxns if r["id"] == x)
            if spec.get("extra"):
                a[r0.choice(["mol", "edge_id", "weight", "color"])] = r0.choice([0, 1, "x", None])
            attrs[nid[kind, x]] = a
    smode, amode = spec.get("stoich", "all"), spec.get("arcs", "forward")
    arcs, eff_rs = [], []
    for r in rxns:
        pair_dir = {}
        eff = {"id": r["id"], "rule": r["rule"], "r": [], "p": []}
        for side, role in (("r", "reactant"), ("p", "product")):
            for s, c in r[side]:
                d = {"role": role}
                if c >= 1 and (smode == "none" or (smode == "mixed" and r0.random() < 0.5)):
                    c = 1
                    info["no_stoich_arcs"] += 1
                else:
                    d["stoich"] = int(c)
                if spec.get("extra") and r0.random() < 0.3:
                    d["order"] = r0.choice([0, 1, 2])
                rev = amode == "reversed" or (amode == "mixed" and r0.random() < 0.5)
                if not multi:  # one arc per ordered pair: both arcs of a catalyst keep the same orientation rule
                    rev = pair_dir.setdefault(s, rev)
                u, v = (nid["s", s], nid["r", r["id"]]) if role == "reactant" else (nid["r", r["id"]], nid["s", s])
                if rev:
                    u, v = v, u
                    info["reversed_arcs"] += 1
                arcs.append((u, v, d))
                eff[side].append([shown[s], int(c)])
        eff_rs.append(eff)
    order = spec.get("order", "given")
    nodes = list(attrs.items())
    if order == "reversed":
        nodes.reverse()
        arcs.reverse()
    elif order in ("shuffled", "edges-first"):
        r0.shuffle(nodes)
        r0.shuffle(arcs)
    G = nx_class(cls)()
    if order == "edges-first":  # nodes come into being through their arcs, attributes follow later
        for u, v, d in arcs:
            G.add_edge(u, v, **d)
        for n, a in nodes:
            G.add_node(n, **a)
    else:
        for n, a in nodes:
            G.add_node(n, **a)
        for u, v, d in arcs:
            G.add_edge(u, v, **d)
    if G.number_of_edges() != len(arcs):
        raise AssertionError("harness: arcs collapsed while rendering " + json.dumps(case))
    return G, {"reactions": eff_rs, "isolated": [shown[s] for s in species]}, info


def random_nx_case(rnd, via, cls=None):
    spec = random_nx_spec(rnd, via, cls)
    desc = random_desc(rnd, max_species=5, max_rxn=4)
    if via == "hand":
        for r in desc["reactions"]:
            for side in ("r", "p"):
                for ent in r[side]:
                    if rnd.random() < 0.08:
                        ent[1] = 0
        if rnd.random() < 0.08:  # a reaction node without any arc
            desc["reactions"].append({"id": "bare", "rule": "r", "r": [], "p": []})
    if spec["cls"] == "Graph":
        desc = strip_catalysts(desc)
    desc["isolated"] = ["Z"] if rnd.random() < 0.2 else []
    n = len(netio.to_net_json_raw(desc)["species"])
    return {"stream": "structure", "desc": desc, "max_size": rnd.choice([None, None, None, 1, 2, 3, n + 1]), "raw": True, "nx": spec}


def count_nx(ctx, case, info):
    spec = case["nx"]
    ctx.count(f"nx:via={spec['via']}:cls={spec.get('cls')}")
    if spec["via"] == "hand":
        for k in ("flags", "stoich", "arcs", "ids", "labels", "order"):
            ctx.count(f"nx:hand:{k}={spec.get(k)}")
    else:
        for k, v in sorted((spec.get("opts") or {}).items()):
            ctx.count(f"nx:export:{k}={v}")
        ctx.count(f"nx:export:order={spec.get('order')}")
    ctx.count("nx:arcs without stoich=" + ("0" if not info["no_stoich_arcs"] else "1+"))
    ctx.count("nx:arcs written against their role=" + ("0" if not info["reversed_arcs"] else "1+"))
    ctx.count("nx:species without label=" + ("0" if not info["unlabelled_species"] else "1+"))


def impl_structure(case):
    from synkit.CRN.Petri import find_siphons, find_traps

    crn = graph_input(case)
    if crn is None:
        crn = netio.to_hypergraph(case["desc"])
    ms = case.get("max_size")
    return {"siphons": fam(find_siphons(crn, max_size=ms)), "traps": fam(find_traps(crn, max_size=ms))}


def net_json(case):
    if case.get("nx"):
        return netio.to_net_json_raw(nx_build(case)[1])
    if case.get("numeric"):
        return netio.to_net_json_raw(numeric_build(case)[1])
    return netio.to_net_json_raw(case["desc"]) if case.get("raw") else netio.to_net_json(case["desc"])


def graph_input(case):
    """The NetworkX graph a structure case hands to the implementation (None: the case hands over a CRNHyperGraph)."""
    if case.get("nx"):
        return nx_build(case)[0]
    if case.get("numeric"):
        return numeric_build(case)[0]
    if case.get("raw"):
        return to_bipartite_variant(case["desc"], case.get("render"))
    return None


def bip_graph_request(G):
    """`c17.bip_request` on the live graph.  NumPy scalars (numeric-types stream) are not Python numbers for that serialiser:
    they are unwrapped (`.item()`: the Python number of the same value) on a copy with the same nodes and edges in the same order."""
    import numpy as np

    from .c17 import bip_request

    def plain(d):
        return {k: (v.item() if isinstance(v, np.generic) else v) for k, v in d.items()}
    if any(isinstance(v, np.generic) for _, d in G.nodes(data=True) for v in d.values()) or \
            any(isinstance(v, np.generic) for _, _, d in G.edges(data=True) for v in d.values()):
        H = G.__class__()
        H.add_nodes_from((n, plain(d)) for n, d in G.nodes(data=True))
        H.add_edges_from((u, v, plain(d)) for u, v, d in G.edges(data=True))
        if list(H.nodes) != list(G.nodes) or H.number_of_edges() != G.number_of_edges():
            raise Infra("harness: unwrapping NumPy scalars changed the graph")
        G = H
    return bip_request(G)


def _rx_key(r):
    return (sorted([str(a), int(b)] for a, b in r["r"]), sorted([str(a), int(b)] for a, b in r["p"]))


def view_matches(view, net):
    """Harness self-test: the network the Lean model reads off the graph (`viewNet (netOfGraph g)`: species sorted by the label the
    code reports, one reaction per reaction node) is the network the case description stands for - same species list, same multiset
    of (consumed, produced) sides, zero coefficients included.  The rule label plays no role in C20 and is not compared (a reaction
    node without `label` shows its node id)."""
    return list(view["species"]) == list(net["species"]) and \
        sorted(map(_rx_key, view["reactions"])) == sorted(map(_rx_key, net["reactions"]))


def lean_graph_structure(ctx, entries, tag):
    """entries: [(bip_graph_request(G), described network JSON, max_size)] -> per entry None (graph not serialisable) or the
    `petri.structure` answer for the network the Lean model of the graph reading reads off G.  Raises Infra when that network is
    not the described one, or when the driver's own evaluation contradicts graphSiphonPred_eq / graphTrapPred_eq / graphFindSiphons_eq."""
    out = [None] * len(entries)
    todo = []
    for i, (bip, net, ms) in enumerate(entries):
        if "cmd" not in bip:
            ctx.count("bip:graph not serialisable: " + str(bip.get("skip")))
            continue
        n = len(net["species"])
        sets = [[a] for a in range(n)] + [[a, b] for a in range(n) for b in range(a + 1, n)] + [list(range(n)), []]
        todo.append((i, dict({k: v for k, v in bip.items() if k != "ids"}, cmd="bip.structure", max_size=ms, sets=sets)))
    if not todo:
        return out
    reps = ctx.lean().ok([r for _, r in todo], shards=8)
    for (i, req), rep in zip(todo, reps):
        bip, net, ms = entries[i]
        ctx.count(f"bip:graphs serialised[{tag}]")
        ctx.count("bip:class=" + ("Multi" if bip["multi"] else "") + ("DiGraph" if bip["directed"] else "Graph"))
        if not rep["wfCore"]:
            ctx.count("bip:graph outside the hypotheses of the theorems (WF)")
        elif not rep["agrees"]:
            raise Infra("bip.structure contradicts graphSiphonPred_eq / graphTrapPred_eq / graphFindSiphons_eq on " + json.dumps(req)[:900])
        if not view_matches(rep["view"], net):
            raise Infra("netOfGraph (Lean model of the graph reading) differs from the network the case description stands for: "
                        + json.dumps({"view": rep["view"], "described": net, "graph": bip})[:1500])
        ctx.count("bip:netOfGraph = described network (self-test)")
    models = ctx.lean().ok([{"cmd": "petri.structure", "net": rep["view"], "max_size": entries[i][2]} for (i, _), rep in zip(todo, reps)], shards=8)
    for (i, req), rep, m in zip(todo, reps, models):
        if rep["wfCore"] and (fam(m["siphons"]) != fam(rep["siphons"]) or fam(m["traps"]) != fam(rep["traps"])):
            raise Infra("petri.structure on netOfGraph differs from the graph-level search of bip.structure on " + json.dumps(req)[:900])
        out[i] = m
    return out


def structure_request(case):
    return {"cmd": "petri.structure", "net": net_json(case), "max_size": case.get("max_size")}


def structure_diff(impl, model):
    for k in ("siphons", "traps"):
        if impl[k] != model[k]:
            return f"{k}: impl={impl[k]} model={model[k]}"
    return None


def spec_structure(ctx, case, impl):
    """Lean verdict of the specification on the implementation's own answer."""
    reqs = [{"cmd": "spec.petri.minimal", "net": net_json(case), "max_size": case.get("max_size"), "kind": kind,
             "family": impl[key]} for kind, key in (("siphon", "siphons"), ("trap", "traps"))]
    a, b = ctx.lean().ok(reqs)
    return {"siphons": a, "traps": b}


def structure_fails(ctx, case):
    """True when the implementation's answer violates the specification on this input."""
    try:
        impl = impl_structure(case)
    except Exception:
        return False
    sp = spec_structure(ctx, case, impl)
    return not (sp["siphons"]["holds"] and sp["traps"]["holds"])


def shrink_structure(ctx, case):
    rs = case["desc"]["reactions"]

    def fails(cand):
        return bool(cand) and structure_fails(ctx, dict(case, desc=dict(case["desc"], reactions=cand)))
    small = shrink_seq(rs, fails, budget=120)
    out = dict(case, desc=dict(case["desc"], reactions=small))
    out.pop("plant", None)  # the reduced network is no longer the planted one
    # lower coefficients
    for r in out["desc"]["reactions"]:
        for side in ("r", "p"):
            for ent in r[side]:
                if ent[1] > 1:
                    old = ent[1]
                    ent[1] = 1
                    if not structure_fails(ctx, out):
                        ent[1] = old
    return out


def run_structure(ctx, cases, tag, spec_all=False, max_new=5):
    if not cases:
        return
    start = len(ctx.violations)
    models = ctx.lean().ok([structure_request(c) for c in cases], shards=8)
    # graph inputs: the expected families come from the Lean model of the graph reading applied to the live graph
    where, entries = [], []
    for i, c in enumerate(cases):
        try:
            G = graph_input(c)
        except AssertionError:
            raise
        except Exception:  # noqa: BLE001 - the rendering itself fails: left to the description-based path below
            continue
        if G is not None:
            where.append(i)
            entries.append((bip_graph_request(G), net_json(c), c.get("max_size")))
    for i, m in zip(where, lean_graph_structure(ctx, entries, tag)):
        if m is None:
            continue
        if fam(m["siphons"]) != fam(models[i]["siphons"]) or fam(m["traps"]) != fam(models[i]["traps"]):
            raise Infra("the model families of netOfGraph differ from those of the described network although the networks agree: "
                        + json.dumps(cases[i])[:900])
        models[i] = m
        ctx.count(f"bip:expected families from the Lean model of the graph reading[{tag}]")
    pending_spec = []
    for case, model in zip(cases, models):
        if not case.get("raw"):
            msg = netio.check_encoding(case["desc"])
            if msg is not None:
                ctx.violation("network encoder and bipartite view disagree (harness assumption, not the property)",
                              case, {"detail": msg, "stream": tag}, no_input=True)
                continue
        try:
            impl = impl_structure(case)
        except AssertionError:
            raise
        except Exception as e:
            # a well-formed network in a documented rendering for which no family is reported at all
            kind = type(e).__name__

            def raises(cand):
                try:
                    impl_structure(dict(case, desc=dict(case["desc"], reactions=cand)))
                except AssertionError:
                    return False
                except Exception as e2:
                    return bool(cand) and type(e2).__name__ == kind
                return False
            small = dict(case, desc=dict(case["desc"], reactions=shrink_seq(case["desc"]["reactions"], raises, budget=60)))
            small.pop("plant", None)
            ctx.count(f"structure[{tag}]")
            ctx.case(["structure", case], False)
            ctx.violation("find_siphons / find_traps raise on a well-formed network (CRNHyperGraph or documented bipartite graph): no siphons / traps are reported",
                          small, {"exception": f"{kind}: {e}", "stream": tag, "net": netio.fmt(small["desc"]),
                                  "model": {k: fam(model[k]) for k in ("siphons", "traps")}},
                          classes=["raises-on-well-formed-network"] + structure_classes(case))
            if len(ctx.violations) >= 5 or len(ctx.violations) - start >= max_new:
                return
            continue
        n_sp = len(net_json(case)["species"])
        ctx.count(f"structure[{tag}]")
        ctx.count(f"structure:species={n_sp}")
        ctx.count(f"structure:siphons={min(len(impl['siphons']), 3)}{'+' if len(impl['siphons']) >= 3 else ''}")
        ctx.count(f"structure:traps={min(len(impl['traps']), 3)}{'+' if len(impl['traps']) >= 3 else ''}")
        ctx.count("structure:max_size=" + ("None" if case.get("max_size") is None else "given"))
        if case.get("nx"):
            count_nx(ctx, case, nx_build(case)[2])
        for key in ("siphons", "traps"):  # shape of the expected family (what a subset search has to get through)
            szs = sorted({len(S) for S in model[key]})
            ctx.count(f"structure:{key}:distinct sizes in the family={min(len(szs), 3)}{'+' if len(szs) >= 3 else ''}")
            if len(szs) >= 2 and any(set().union(*[S for S in model[key] if len(S) <= k]) >= set(net_json(case)["species"]) for k in szs[:-1]):
                ctx.count(f"structure:{key}:smaller members touch every species, a larger member exists")
            if szs and szs[0] >= 3:
                ctx.count(f"structure:{key}:no member below size 3")
            if szs and szs[-1] == n_sp and n_sp >= 3:
                ctx.count(f"structure:{key}:the set of all species is a member")
            if len(model[key]) >= 8:
                ctx.count(f"structure:{key}:8 or more members")
        if case.get("plant"):
            pl = case["plant"]
            ctx.count(f"plant:shape={pl['shape']}:{pl['kind']}")
            ctx.count(f"plant:via={case.get('via')}")
            ctx.count(f"plant:coefficients={pl['coeff']}")
            ctx.count("plant:reactions=" + ("<=6" if len(case["desc"]["reactions"]) <= 6 else "7-15" if len(case["desc"]["reactions"]) <= 15 else "16+"))
            same_names = net_json(case)["species"] == netio.to_net_json_raw(case["desc"])["species"]
            if pl["exact"] and case.get("max_size") is None and same_names:
                ctx.count("plant:exact plant compared with the model")
                if fam(model["siphons" if pl["kind"] == "siphon" else "traps"]) != fam(pl["family"]):
                    ctx.violation("generator: the model's family differs from the planted antichain (planting construction or model fault, "
                                  "not the property)", case, {"model": model, "plant": pl, "stream": tag}, no_input=True)
                    return
        if case.get("numeric"):
            ctx.count("numeric:cls=" + str(case["numeric"].get("cls")))
        nontrivial = bool(model["siphons"] or model["traps"]) and len(case["desc"]["reactions"]) >= 2
        ctx.case(["structure", case], nontrivial,
                 sample={"stream": tag, "net": netio.fmt(case["desc"]), "max_size": case.get("max_size"),
                         "siphons": impl["siphons"], "traps": impl["traps"]} if len(case["desc"]["reactions"]) <= 3 else None)
        d = structure_diff(impl, {"siphons": fam(model["siphons"]), "traps": fam(model["traps"])})
        if d is None:
            if spec_all:
                pending_spec.append((case, impl))
            continue
        sp = spec_structure(ctx, case, impl)
        if not (sp["siphons"]["holds"] and sp["traps"]["holds"]):
            small = shrink_structure(ctx, case)
            simpl = impl_structure(small)
            ctx.violation("reported siphons/traps are not exactly the inclusion-minimal closed sets",
                          small, {"impl": simpl, "spec": spec_structure(ctx, small, simpl), "stream": tag,
                                  "net": netio.fmt(small["desc"]), "original": netio.fmt(case["desc"])},
                          classes=structure_classes(case))
        else:
            ctx.violation("correspondence structure: impl and model families differ although the specification holds",
                          case, {"diff": d, "stream": tag}, no_input=True)
        if len(ctx.violations) >= 5 or len(ctx.violations) - start >= max_new:
            return
    # independent spec evaluation on the implementation's answers (brute force, not `_minimal_sets`)
    if pending_spec:
        reqs = []
        for case, impl in pending_spec:
            for kind, key in (("siphon", "siphons"), ("trap", "traps")):
                reqs.append({"cmd": "spec.petri.minimal", "net": net_json(case), "max_size": case.get("max_size"),
                             "kind": kind, "family": impl[key]})
        reps = ctx.lean().ok(reqs, shards=8)
        for i, (case, impl) in enumerate(pending_spec):
            if not (reps[2 * i]["holds"] and reps[2 * i + 1]["holds"]):
                ctx.violation("brute-force specification rejects an answer on which impl and model agree (model/spec mismatch)",
                              case, {"impl": impl, "spec": [reps[2 * i], reps[2 * i + 1]]}, no_input=True)
                return
            ctx.count("structure:spec_checked")


def analyzer_consistent(ctx, case, how="siphons_traps"):
    """`PetriAnalyzer` must hand out what `find_siphons` / `find_traps` return (attributes, or the
    `summary` record after `compute_all`); built on a CRNHyperGraph or on the plain NetworkX graph of the case."""
    from synkit.CRN.Petri import PetriAnalyzer

    H = nx_build(case)[0] if case.get("nx") else numeric_build(case)[0] if case.get("numeric") else netio.to_hypergraph(case["desc"])
    an = PetriAnalyzer(H, max_siphon_size=case.get("max_size"))
    got = None
    if how == "summary":
        try:
            an.summary, an.explain()  # before any computation: executed, not gated
            an.compute_all()
            sm = an.summary
            an.explain(), repr(an), an.p_semiflows, an.t_semiflows, an.persistence_ok  # executed, not gated
            if sm is not None:
                got = {"siphons": fam(sm.siphons), "traps": fam(sm.traps)}
                ctx.count("structure:analyzer_summary_checked")
        except Exception:  # the numerical parts (semiflows, persistence) are not C20's subject
            ctx.count("structure:analyzer compute_all raised (numerical part, not gated)")
    if got is None:
        an.compute_siphons_traps()
        got = {"siphons": fam(an.siphons), "traps": fam(an.traps)}
    want = impl_structure(case)
    ctx.count("structure:analyzer_checked")
    ctx.count("structure:analyzer_checked:" + ("networkx" if case.get("nx") or case.get("numeric") else "hypergraph"))
    if got != want:
        ctx.violation("PetriAnalyzer reports other siphons/traps than find_siphons/find_traps", dict(case, analyzer=how),
                      {"analyzer": got, "functions": want, "how": how})


# --------------------------------------------------------------- degenerate inputs of find_siphons / find_traps
DEGENERATE_SHAPES = ["species-only", "reactions-only", "empty", "unflagged", "empty-hypergraph", "none", "list-of-strings"]


def degenerate_input(case):
    import networkx as nx
    from synkit.CRN.Hypergraph.hypergraph import CRNHyperGraph

    shape = case["shape"]
    if shape == "empty-hypergraph":
        return CRNHyperGraph()
    if shape == "none":
        return None
    if shape == "list-of-strings":
        return ["A>>B"]
    G = nx_class(case.get("cls", "DiGraph"))()
    sp = {"kind": "species"} if case.get("flags") == "kind" else {"bipartite": 0}
    rx = {"kind": "reaction"} if case.get("flags") == "kind" else {"bipartite": 1}
    if shape == "species-only":
        for x in case["species"]:
            G.add_node("S:" + x, label=x, **sp)
    elif shape == "reactions-only":
        G.add_node("R:r_1", label="r", **rx)
    elif shape == "unflagged":  # a reaction network drawn without any node typing
        G.add_edge("A", "r_1", role="reactant", stoich=1)
        G.add_edge("r_1", "B", role="product", stoich=1)
    return G


def run_structure_degenerate(ctx, cases, tag):
    """Inputs that are no bipartite species/reaction graph, or one without reactions.  C20 speaks about reported
    families only: a rejection (ValueError / TypeError) is recorded, not gated; a family that IS returned for a
    network without reactions must be the model's (every single species is a siphon and a trap)."""
    from synkit.CRN.Petri import find_siphons, find_traps

    for case in cases:
        out = {}
        for key, fn in (("siphons", find_siphons), ("traps", find_traps)):
            try:
                out[key] = fam(fn(degenerate_input(case), max_size=case.get("max_size")))
            except (ValueError, TypeError) as e:
                out[key] = type(e).__name__
        ctx.count(f"degenerate[{tag}]")
        ctx.count(f"degenerate:{case['shape']}:" + "/".join(v if isinstance(v, str) else "family" for v in out.values()))
        ctx.case(["structure-degenerate", case], False, sample={"stream": tag, **case, "outcome": out})
        if case["shape"] not in ("species-only", "reactions-only", "empty", "empty-hypergraph"):
            continue
        if all(isinstance(v, str) for v in out.values()):
            continue
        net = {"species": sorted(case.get("species", [])) if case["shape"] == "species-only" else [], "reactions": []}
        model = ctx.lean().ok([{"cmd": "petri.structure", "net": net, "max_size": case.get("max_size")}])[0]
        for key in ("siphons", "traps"):
            if not isinstance(out[key], str) and out[key] != fam(model[key]):
                ctx.violation("reported siphons/traps of a network without reactions are not exactly the inclusion-minimal closed sets",
                              case, {"impl": out, "model": {k: fam(model[k]) for k in ("siphons", "traps")}, "stream": tag})
                break


def degenerate_cases(rnd):
    cases = []
    for shape in DEGENERATE_SHAPES:
        if shape in ("empty-hypergraph", "none", "list-of-strings"):
            cases.append({"stream": "structure-degenerate", "shape": shape, "max_size": None})
            continue
        for cls in NX_CLASSES:
            cases.append({"stream": "structure-degenerate", "shape": shape, "cls": cls, "flags": rnd.choice(["kind", "bipartite"]),
                          "species": list("ABC")[: rnd.randint(1, 3)], "max_size": rnd.choice([None, 1])})
    return cases


def unit_reactions(species):
    subs = [list(c) for k in range(len(species) + 1) for c in itertools.combinations(species, k)]
    out = []
    for r in subs:
        for p in subs:
            if r or p:
                out.append({"r": [[s, 1] for s in r], "p": [[s, 1] for s in p]})
    return out


def with_ids(rs):
    return [dict(r, id=f"r_{i + 1}") for i, r in enumerate(rs)]


def random_desc(rnd, max_species=6, max_rxn=6, cmax=3):
    sp = list("ABCDEF")[: rnd.randint(2, max_species)]
    n = rnd.randint(1, max_rxn)
    rs = []
    for i in range(n):
        kind = rnd.random()

        def side(lo, hi):
            k = rnd.randint(lo, min(hi, len(sp)))
            return [[s, rnd.randint(1, cmax) if rnd.random() < 0.4 else 1] for s in rnd.sample(sp, k)]
        if kind < 0.12:
            r, p = [], side(1, 2)  # source
        elif kind < 0.24:
            r, p = side(1, 2), []  # sink
        elif kind < 0.45:
            r = side(1, 2)  # catalyst: a reactant reappears among the products
            cat = rnd.choice(r)[0]
            p = [e for e in side(0, 2) if e[0] != cat] + [[cat, rnd.randint(1, cmax)]]
        else:
            r, p = side(1, 3), side(1, 3)
        rid = rnd.choice([f"r_{i + 1}", f"R{i}", f"x{9 - i}", f"r_{10 + i}"])
        rs.append({"id": rid, "rule": rnd.choice(["r", "R1", None]), "r": r, "p": p})
    if len({r["id"] for r in rs}) < len(rs):
        rs = with_ids(rs)
    iso = ["Z"] if rnd.random() < 0.1 else []
    return {"reactions": rs, "isolated": iso}


# --------------------------------------------------------------- networks with a PLANTED family of minimal siphons / traps
# Random sparse networks almost always have minimal siphons / traps of one size only (a few singletons or pairs), so the shape of
# the subset search behind `find_siphons` / `find_traps` (order of sizes, pruning, early exits, caps) is hardly exercised by them.
# Here the FAMILY is chosen first - an antichain F of species sets in one of the shapes below - and a network is built whose closed
# sets are exactly the unions of members of F, so that its inclusion-minimal closed sets are exactly F:
#   for a species p and the members F_1..F_m of F containing p:   p in S  =>  some F_i \ {p} is inside S
#   <=> (distributivity) for every choice c of one element c_i of each F_i \ {p}:   p in S  =>  S meets {c_1..c_m}
#   = one reaction  c_1 + .. + c_m >> p  per choice (siphon condition: a reaction producing a member consumes a member);
#   a species in no member of F gets the source  >> p  (it is in no siphon); for traps every reaction is reversed.
# The expected answer is still the Lean model's (never the plant); an exact plant is additionally compared with the model
# (a difference there is a generator / model fault and reported as such, not as a property violation).
PLANT_SHAPES = ["random", "cover+larger", "star", "layer", "staircase", "only-large", "gap"]
SPECIES_POOL = list("ABCDEFGH")
BIG_COEFFS = [10, 12, 25, 50, 100, 2500]


def antichain(sets):
    sets = {frozenset(s) for s in sets if s}
    return sorted((S for S in sets if not any(T < S for T in sets)), key=sorted)


def plant_family(rnd, sp, shape):
    """An antichain of non-empty subsets of `sp`:
    random        2-6 sets of mixed sizes
    cover+larger  sets of one small size k that jointly touch every species + 1-2 sets of size > k containing none of them
    star          {c, x} for every other species x + the set of all species but c
    layer         half or more of the k-subsets for one k (many minimal sets of one size; k = n: the full set only)
    staircase     disjoint sets of sizes 1, 2, 3, ..
    only-large    nothing below size n-1 (the search finds nothing until the very end)
    gap           a singleton and sets of size >= 3: no minimal set of size 2"""
    n = len(sp)
    sh = list(sp)
    rnd.shuffle(sh)
    if shape == "cover+larger":
        k = rnd.randint(1, max(1, min(3, n - 2)))
        small, left = [], list(sh)
        while left:
            S, left = set(left[:k]), left[k:]
            while len(S) < k:
                S.add(rnd.choice(sp))
            small.append(S)
        for _ in range(rnd.randint(0, 2)):
            small.append(set(rnd.sample(sp, k)))
        sets = list(small)
        for _ in range(rnd.randint(1, 2)):
            for _try in range(20):
                L = set(rnd.sample(sp, rnd.randint(k + 1, n)))
                if not any(S <= L for S in small):
                    sets.append(L)
                    break
    elif shape == "star":
        sets = [{sh[0], x} for x in sh[1:]] + [set(sh[1:])]
    elif shape == "layer":
        k = rnd.randint(1, n)
        allk = [set(c) for c in itertools.combinations(sp, k)]
        rnd.shuffle(allk)
        sets = allk[: rnd.randint(max(1, len(allk) // 2), len(allk))]
    elif shape == "staircase":
        sets, i, k = [], 0, 1
        while i < n:
            sets.append(set(sh[i:i + k]))
            i, k = i + k, k + 1
    elif shape == "only-large":
        k = rnd.choice([n, n, n - 1])
        sets = [set(rnd.sample(sp, k)) for _ in range(1 if k == n else rnd.randint(1, 3))]
    elif shape == "gap":
        sets = [{sh[0]}] + [set(rnd.sample(sh[1:], rnd.randint(min(3, n - 1), n - 1))) for _ in range(rnd.randint(1, 2))]
    else:
        sets = [rnd.sample(sp, max(1, min(n, rnd.choice([1, 2, 2, 2, 3, 3, 4, n - 1, n])))) for _ in range(rnd.randint(2, 6))]
    return antichain(sets)


def plant_clauses(rnd, sp, F, cap=24):
    """-> (clauses [(reactant set, product)], exact).  `exact` is False when a species had more than `cap` choice functions
    and only a sample of them was written down (the closed sets are then a superset of the unions of F)."""
    clauses, exact = [], True
    for p in sp:
        Fs = [S - {p} for S in F if p in S]
        if not Fs:
            clauses.append((frozenset(), p))
            continue
        if any(not S for S in Fs):
            continue  # {p} itself is a member: p is unconstrained
        prod = 1
        for S in Fs:
            prod *= len(S)
        if prod <= cap:
            ch = {frozenset(c) for c in itertools.product(*[sorted(S) for S in Fs])}
        else:
            ch = {frozenset(rnd.choice(sorted(S)) for S in Fs) for _ in range(cap)}
            exact = False
        for c in sorted((c for c in ch if not any(d < c for d in ch)), key=sorted):  # a superset clause is implied
            clauses.append((c, p))
    return clauses, exact


def planted_desc(rnd, n=None, shape=None, kind=None):
    """-> (description, plant record)."""
    n = n or rnd.choice([4, 4, 5, 5, 6, 6, 7])
    sp = SPECIES_POOL[:n]
    shape = shape or rnd.choice(PLANT_SHAPES)
    kind = kind or rnd.choice(["siphon", "trap"])
    F = plant_family(rnd, sp, shape)
    clauses, exact = plant_clauses(rnd, sp, F)
    by = {}
    for R, p in clauses:
        by.setdefault(R, []).append(p)
    rs = []
    for R, ps in by.items():  # clauses with one reactant set: one reaction with several products, or one reaction each
        if len(ps) > 1 and rnd.random() < 0.5:
            rs.append((sorted(R), list(ps)))
        else:
            rs.extend((sorted(R), [p]) for p in ps)
    if rs and rnd.random() < 0.15:  # the same reaction twice under two ids
        rs.append(rnd.choice(rs))
    if not rs or rnd.random() < 0.15:  # an unrelated reaction on top: the plant is no longer the answer
        a = rnd.sample(sp, 2)
        rs.append(([a[0]], [a[1]]))
        exact = False
    rnd.shuffle(rs)
    coeff = rnd.choice(["unit", "unit", "small", "big"])

    def c():
        return 1 if coeff == "unit" else rnd.randint(1, 3) if coeff == "small" else rnd.choice([1, 2] + BIG_COEFFS)
    ids = rnd.choice(["r_", "r_", "x", "R"])
    out = []
    for i, (R, P) in enumerate(rs):
        r, p = [[s, c()] for s in R], [[s, c()] for s in P]
        if kind == "trap":
            r, p = p, r
        out.append({"id": f"{ids}{i + 1}" if ids != "x" else f"x{len(rs) + 9 - i}", "rule": rnd.choice(["r", "R1", None]), "r": r, "p": p})
    used = {s for R, P in rs for s in R + P}
    return ({"reactions": out, "isolated": [s for s in sp if s not in used]},  # unconstrained singletons of F
            {"shape": shape, "kind": kind, "family": sorted(sorted(S) for S in F), "exact": exact, "coeff": coeff})


def planted_case(rnd, i):
    """A planted network handed over as CRNHyperGraph (half of the cases) or as a hand-built / exported bipartite graph in
    the renderings of the other structure streams; max_size mostly None, else around the sizes present in the family."""
    desc, plant = planted_desc(rnd, shape=PLANT_SHAPES[i % len(PLANT_SHAPES)])
    n = len(netio.to_net_json(desc)["species"])
    sizes = sorted({len(S) for S in plant["family"]})
    ms = None if rnd.random() < 0.7 else rnd.choice(sizes + [sizes[-1] - 1, sizes[-1] + 1, n, n + 1, 0])
    case = {"stream": "structure", "desc": desc, "max_size": None if ms is None else max(0, ms), "plant": plant}
    via = rnd.choice(["hypergraph", "hypergraph", "hypergraph", "raw", "render", "nx-hand", "nx-export", "nx-numeric"])
    if via == "raw":
        case["raw"] = True
    elif via == "render":
        case.update(raw=True, render=rnd.choice(["int-ids", "no-label"]))
    elif via in ("nx-hand", "nx-export"):
        spec = random_nx_spec(rnd, via[3:], rnd.choice(["DiGraph", "MultiDiGraph", "MultiGraph", "Graph"]))
        case.update(raw=True, nx=spec)  # planted reactions never have a species on both sides: fine for nx.Graph too
    elif via == "nx-numeric":
        case.update(raw=True, numeric={"cls": rnd.choice(NX_CLASSES), "rseed": rnd.randrange(1 << 30)})
    case["via"] = via
    return case


def dense_desc(rnd, n=None):
    """Every species is produced (or, reversed, consumed) by 1-3 reactions with 1-3 other species on the other side:
    no trivial singleton siphons (traps), families of mixed sizes."""
    sp = SPECIES_POOL[: n or rnd.choice([4, 5, 5, 6, 6, 7])]
    rs = []
    for p in sp:
        others = [s for s in sp if s != p]
        for _ in range(rnd.choice([1, 1, 2, 2, 3])):
            rs.append((rnd.sample(others, rnd.randint(1, min(3, len(others)))), [p]))
    rnd.shuffle(rs)
    rev = rnd.random() < 0.5
    big = rnd.random() < 0.2
    out = []
    for i, (R, P) in enumerate(rs):
        r = [[s, rnd.choice(BIG_COEFFS) if big and rnd.random() < 0.5 else 1] for s in R]
        p = [[s, rnd.choice(BIG_COEFFS) if big and rnd.random() < 0.5 else 1] for s in P]
        out.append({"id": f"r_{i + 1}", "rule": "r", "r": p if rev else r, "p": r if rev else p})
    return {"reactions": out, "isolated": []}


def clause_reactions(species):
    """Reactions R >> p with a non-empty R not containing p (4 species: 28)."""
    return [{"r": [[s, 1] for s in R], "p": [[p, 1]]} for p in species
            for k in range(1, len(species)) for R in itertools.combinations([s for s in species if s != p], k)]


# --------------------------------------------------------------- one network, numbers written in several Python types
# The arcs of a hand-built bipartite graph carry `stoich` as int, float, numpy.int32 / int64 / float64 - mixed within one
# graph - and library-default attribute names the code does not select (`weight`, `label`, `id`, `name`, `capacity`)
# with values that would change the answer if they were read instead of `stoich` / `role`; node ids 0 / 1 (falsy / truthy ints) and
# int species labels (reported as str).  All of these are EQUAL (==) to the plain int, so the network - and the Lean request - is the
# same.  bool is never used (the model keeps it apart).
def numeric_build(case):
    """-> (graph, effective description)."""
    import random as _random

    import numpy as np

    spec = case["numeric"]
    r0 = _random.Random(spec.get("rseed", 0))
    net = netio.to_net_json_raw(case["desc"])
    G = nx_class(spec.get("cls", "DiGraph"))()
    directed = G.is_directed()
    as_num = [int, float, np.int64, np.float64, np.int32]
    int_ids = r0.random() < 0.5
    sid = {s: (i if int_ids else "S:" + s) for i, s in enumerate(net["species"])}  # node id 0 is a species when int_ids
    rid = {r["id"]: (len(net["species"]) + i if int_ids else "R:" + r["id"]) for i, r in enumerate(net["reactions"])}
    int_labels = r0.random() < 0.3
    shown = {s: (str(10 * i) if int_labels else s) for i, s in enumerate(net["species"])}
    for s in net["species"]:
        a = {"kind": "species", "label": 10 * net["species"].index(s) if int_labels else s}
        if r0.random() < 0.5:
            a["bipartite"] = r0.choice([0, 0.0, np.int64(0)])
        if r0.random() < 0.3:
            a[r0.choice(["weight", "name", "id", "capacity"])] = r0.choice([0, 1, "", "reaction", None])
        G.add_node(sid[s], **a)
    for r in net["reactions"]:
        a = {"kind": "reaction", "label": r["rule"]}
        if r0.random() < 0.5:
            a["bipartite"] = r0.choice([1, 1.0, np.int64(1)])
        G.add_node(rid[r["id"]], **a)
    n_arcs = 0
    for r in net["reactions"]:
        for side, role in (("r", "reactant"), ("p", "product")):
            for s, c in r[side]:
                d = {"role": role, "stoich": r0.choice(as_num)(int(c))}
                for k in ("weight", "label", "id", "name", "capacity"):
                    if r0.random() < 0.25:
                        d[k] = r0.choice([0, 0.0, -1, "reactant", "product", "", None, 7])
                u, v = (sid[s], rid[r["id"]]) if role == "reactant" else (rid[r["id"]], sid[s])
                if not directed and r0.random() < 0.5:
                    u, v = v, u
                G.add_edge(u, v, **d)
                n_arcs += 1
    if G.number_of_edges() != n_arcs:
        raise AssertionError("harness: arcs collapsed while rendering " + json.dumps(case))
    eff = [dict(r, r=[[shown[s], c] for s, c in r["r"]], p=[[shown[s], c] for s, c in r["p"]]) for r in net["reactions"]]
    return G, {"reactions": eff, "isolated": [shown[s] for s in net["species"]]}


# =============================================================== firing rule
def impl_net_run(case):
    from synkit.CRN.Petri import PetriNet

    net = PetriNet()
    for t in case["transitions"]:
        net.add_transition(t["tid"], dict(map(tuple, t["pre"])), dict(map(tuple, t["post"])))
    res = []
    for q in case["queries"]:
        m = dict(map(tuple, q["marking"]))
        m_before = dict(m)
        try:
            en = bool(net.enabled(m, q["tid"]))
        except KeyError:
            en = "KeyError"
        try:
            f = net.fire(m, q["tid"])
            f = sorted([k, int(v)] for k, v in f.items())
        except KeyError:
            f = "KeyError"
        tup = net.marking_to_tuple(m)
        res.append({"enabled": en, "fire": f, "mutated": m != m_before,
                    "tuple": {p: int(tup[i]) for p, i in net._place_index.items()}})
    return {"places": sorted(net.places), "index_places": sorted(net._place_index),
            "index_values": sorted(net._place_index.values()),
            "transitions": list(net.transitions),
            "arcs": [{"tid": t.tid, "pre": sorted([k, int(v)] for k, v in t.pre.items()),
                      "post": sorted([k, int(v)] for k, v in t.post.items())} for t in net.transitions.values()],
            "results": res}


def net_run_diff(impl, model):
    if impl["places"] != model["places"] or impl["index_places"] != model["places"]:
        return f"places impl={impl['places']} model={model['places']}"
    if impl["index_values"] != list(range(len(model["places"]))):
        return f"_place_index is not a numbering 0..n-1: {impl['index_values']}"
    if impl["transitions"] != model["transitions"]:
        return f"transition order impl={impl['transitions']} model={model['transitions']}"
    if impl["arcs"] != model["arcs"]:
        return f"arcs impl={impl['arcs']} model={model['arcs']}"
    for i, (a, b) in enumerate(zip(impl["results"], model["results"])):
        if a["mutated"]:
            return f"query {i}: the marking passed in was mutated"
        if a["enabled"] != b["enabled"]:
            return f"query {i}: enabled impl={a['enabled']} model={b['enabled']}"
        if a["fire"] != b["fire"]:
            return f"query {i}: fire impl={a['fire']} model={b['fire']}"
        if b["enabled"] != "KeyError":
            mt = dict(zip(model["place_order"], b["tuple"]))
            if a["tuple"] != mt:
                return f"query {i}: marking_to_tuple impl={a['tuple']} model={mt}"
    return None


def random_net_case(rnd):
    places = ["p", "q", "r", "s", "A", "__ext__e"][: rnd.randint(1, 6)]
    tids = ["t1", "t2", "t3", "t1"]
    ts = []
    for _ in range(rnd.randint(1, 4)):
        def arcs():
            return [[p, rnd.choice([1, 1, 2, 3, 0, -1])] for p in rnd.sample(places, rnd.randint(0, min(3, len(places))))]
        ts.append({"tid": rnd.choice(tids), "pre": arcs(), "post": arcs()})
    qs = []
    for _ in range(rnd.randint(1, 5)):
        m = [[p, rnd.choice([0, 0, 1, 2, 3, 5, -1])] for p in places + ["zz"] if rnd.random() < 0.7]
        qs.append({"marking": m, "tid": rnd.choice(tids[:3] + ["nope"] if rnd.random() < 0.15 else tids[:3])})
    return {"transitions": ts, "queries": qs}


def fire_spec_check(case, impl):
    """The firing rule itself, evaluated on the implementation's answers (Python mirror of
    enabled_spec / fire_spec; dict arcs have one weight per place)."""
    cur = {}
    for t in case["transitions"]:
        cur[t["tid"]] = (dict(map(tuple, t["pre"])), dict(map(tuple, t["post"])))
    for q, res in zip(case["queries"], impl["results"]):
        if q["tid"] not in cur:
            if res["enabled"] != "KeyError" or res["fire"] != "KeyError":
                return f"unknown transition {q['tid']} did not raise KeyError"
            continue
        pre, post = cur[q["tid"]]
        m = dict(map(tuple, q["marking"]))
        want_en = all(m.get(p, 0) >= w for p, w in pre.items())
        if res["enabled"] != want_en:
            return f"enabled({q}) = {res['enabled']}, the marking {'covers' if want_en else 'does not cover'} the reactants"
        got = dict(map(tuple, res["fire"]))
        for p in set(m) | set(pre) | set(post) | set(got):
            if got.get(p, 0) != m.get(p, 0) - pre.get(p, 0) + post.get(p, 0):
                return f"fire({q}) changes place {p} by {got.get(p, 0) - m.get(p, 0)}, products - reactants = {post.get(p, 0) - pre.get(p, 0)}"
    return None


def run_firing(ctx, cases, tag):
    models = ctx.lean().ok([dict(c, cmd="petri.net.run") for c in cases], shards=8)
    for case, model in zip(cases, models):
        impl = impl_net_run(case)
        for r in impl["results"]:
            ctx.count("firing:enabled=" + str(r["enabled"]))
        ctx.case(["firing", case], any(r["enabled"] is True for r in impl["results"]),
                 sample={"stream": tag, **case} if len(case["transitions"]) == 1 and len(case["queries"]) == 1 else None)
        d = net_run_diff(impl, model)
        if d is None:
            continue
        s = fire_spec_check(case, impl)
        if s is not None:
            def fails(qs):
                c = dict(case, queries=qs)
                return bool(qs) and fire_spec_check(c, impl_net_run(c)) is not None
            small = dict(case, queries=shrink_seq(case["queries"], fails, budget=40))
            ctx.violation("PetriNet.enabled/fire do not follow the firing rule", small,
                          {"spec": fire_spec_check(small, impl_net_run(small)), "stream": tag})
        else:
            ctx.violation("correspondence firing: PetriNet differs from the model although the firing rule holds",
                          case, {"diff": d, "stream": tag}, no_input=True)
        if len(ctx.violations) >= 5:
            return


# =============================================================== realizability
def pathway_of(case):
    """-> vertices (list), edges (ordered list of rxn dicts with id/r/p), flow (list of pairs)."""
    rs = netio.reactions_of(case["desc"])
    order = case.get("edge_order")
    if order is not None:
        rs = [rs[i] for i in order]
    species = sorted({s for r in rs for s, _ in r["r"] + r["p"]} | set(case["desc"].get("isolated", [])))
    return species, rs, [[k, int(v)] for k, v in case["flow"]]


def pr_inputs(case):
    """-> (vertices, edges, flow) as handed to `load_hypergraph_and_flow` for a pathway description
    (keys desc, flow, edge_order / via_hypergraph)."""
    from synkit.CRN.Path.realizability import hypergraph_to_pr_inputs

    vertices, rs, flow = pathway_of(case)
    fl = dict(map(tuple, flow))
    if case.get("via_hypergraph"):
        H = netio.to_hypergraph(case["desc"])
        if case.get("flow_default"):  # documented: without a flow every edge gets flow 1
            if sorted(fl.items()) != sorted((r["id"], 1) for r in rs):
                raise AssertionError("harness: flow_default needs the all-ones flow in the case")
            return hypergraph_to_pr_inputs(H)
        return hypergraph_to_pr_inputs(H, flow={r["id"]: fl.get(r["id"], 0) for r in rs})
    v = list(vertices)
    e = {r["id"]: (dict(map(tuple, r["r"])), dict(map(tuple, r["p"]))) for r in rs}
    dec = case.get("decorate")
    if dec:
        # the same pathway written in a rarer but legal way (the model side never sees the decoration)
        for eid, side, sp in dec.get("zeros", []):  # explicit zero multiplicities
            if eid in e and sp not in e[eid][side]:
                e[eid][side][sp] = 0
        for k, val in dec.get("extra_flow", []):  # flow entries for edges that do not exist
            if k not in e:
                fl[k] = val
        shape = dec.get("vertices")
        if shape == "tuple":
            v = tuple(v)
        elif shape == "duplicates":
            v = v + v[::-1]
        elif shape == "generator":
            v = (x for x in list(v))
        elif shape == "set":
            v = set(v)
    return v, e, fl


def rxn_strings(case):
    """The reactions of the description as reaction strings, in the given order ('2 A + B>>C', '>>A', 'A>>')."""
    style = case["via_strings"].get("style", 0)

    def side(x):
        return " + ".join((s if c == 1 else (f"{c} {s}" if style else f"{c}{s}")) for s, c in x)
    return [side(r["r"]) + (" >> " if style == 2 else ">>") + side(r["p"]) for r in netio.reactions_of(case["desc"])]


def impl_realizable_strings(case):
    """`run_realizability_from_rxn_strings`: parse, load, build, Koenig + BFS with the default bounds.  The reactions are
    numbered r_1.. in the order given (id generation is C15's subject; checked here, reported as a harness assumption)."""
    import contextlib
    import io

    from synkit.CRN.Path.realizability import run_realizability_from_rxn_strings

    vs = case["via_strings"]
    rs = netio.reactions_of(case["desc"])
    flow = None if vs.get("flow_none") else dict(map(tuple, case["flow"]))
    buf = io.StringIO()
    with contextlib.redirect_stdout(buf):
        pr, info = run_realizability_from_rxn_strings(iter(rxn_strings(case)) if vs.get("iterator") else rxn_strings(case),
                                                      flow=flow, verbose=bool(vs.get("verbose")))
    want = {r["id"]: (dict(map(tuple, r["r"])), dict(map(tuple, r["p"]))) for r in rs}
    if {k: (dict(t), dict(h)) for k, (t, h) in pr.edges.items()} != want or list(pr.edges) != [r["id"] for r in rs]:
        return {"verdict": "parser-differs", "detail": f"edges {pr.edges} != {want}"}
    net = pr.petri
    return {"places": sorted(net.places), "transitions": list(net.transitions),
            "arcs": [{"tid": t.tid, "pre": sorted([k, int(w)] for k, w in t.pre.items()),
                      "post": sorted([k, int(w)] for k, w in t.post.items())} for t in net.transitions.values()],
            "M0": sorted([k, int(w)] for k, w in pr.initial_marking.items()),
            "MT": sorted([k, int(w)] for k, w in pr.target_marking.items()),
            "verdict": "found" if info["bfs"] else "notFound",
            "seq": None if info["certificate"] is None else list(info["certificate"]),
            "cert_attr": None if pr.certificate is None else list(pr.certificate),
            "printed": bool(buf.getvalue())}


def impl_realizable(case):
    from synkit.CRN.Path.realizability import PathwayRealizability, RealizabilityConfig

    if case.get("via_strings"):
        return impl_realizable_strings(case)
    ms, md = case["max_states"], case["max_depth"]
    v, e, f = pr_inputs(case)
    if case.get("via_config"):
        pr = PathwayRealizability(RealizabilityConfig(max_states=ms, max_depth=md))
    else:
        pr = PathwayRealizability()
    pr.load_hypergraph_and_flow(v, e, f)
    try:
        pr.build_petri_net_from_flow()
    except RuntimeError:
        return {"verdict": "RuntimeError"}
    net = pr.petri
    out = {"places": sorted(net.places), "transitions": list(net.transitions),
           "arcs": [{"tid": t.tid, "pre": sorted([k, int(w)] for k, w in t.pre.items()),
                     "post": sorted([k, int(w)] for k, w in t.post.items())} for t in net.transitions.values()],
           "M0": sorted([k, int(w)] for k, w in pr.initial_marking.items()),
           "MT": sorted([k, int(w)] for k, w in pr.target_marking.items())}
    ok, cert = pr.is_realizable() if case.get("via_config") else pr.is_realizable(max_states=ms, max_depth=md)
    out["verdict"] = "found" if ok else "notFound"
    out["seq"] = None if cert is None else list(cert)
    out["cert_attr"] = None if pr.certificate is None else list(pr.certificate)
    return out


def realizable_request(case, cmd="petri.realizable", **kw):
    vertices, rs, flow = pathway_of(case)
    if case.get("via_hypergraph"):
        # hypergraph_to_pr_inputs: edges in the store's insertion order, flow given for every edge
        rs = netio.reactions_of(case["desc"])
        fl = dict(map(tuple, flow))
        flow = [[r["id"], fl.get(r["id"], 0)] for r in rs]
    return {"cmd": cmd, "vertices": vertices, "edges": rs, "flow": flow, "max_states": case["max_states"],
            "max_depth": case["max_depth"], **kw}


def exhaustive(case, limit=SPEC_LIMIT):
    """Independent oracle: breadth-first search over ALL markings of the extended net reachable from
    M0 (species counts, remaining supply per edge).  -> (number of reachable markings or None when
    more than `limit`, length of a shortest firing sequence to MT or None)."""
    vertices, rs, flow = pathway_of(case)
    fl = dict(map(tuple, flow))
    if case.get("via_hypergraph"):
        rs = netio.reactions_of(case["desc"])
    idx = {s: i for i, s in enumerate(vertices)}
    n = len(vertices)
    supply = tuple(fl.get(r["id"], 0) for r in rs)
    start = (tuple([0] * n), supply)
    goal = (tuple([0] * n), tuple([0] * len(rs)))
    if any(x < 0 for x in supply):
        return 1, None  # a negative supply can never be brought to its target
    if start == goal:
        return 1, 0
    dist = {start: 0}
    q = deque([start])
    best = None
    while q:
        cur = q.popleft()
        sp, sup = cur
        for j, r in enumerate(rs):
            if sup[j] < 1 or any(sp[idx[s]] < c for s, c in r["r"]):
                continue
            new = list(sp)
            for s, c in r["r"]:
                new[idx[s]] -= c
            for s, c in r["p"]:
                new[idx[s]] += c
            nsup = list(sup)
            nsup[j] -= 1
            nxt = (tuple(new), tuple(nsup))
            if nxt not in dist:
                dist[nxt] = dist[cur] + 1
                if nxt == goal and best is None:
                    best = dist[nxt]
                if len(dist) > limit:
                    return None, best
                q.append(nxt)
    return len(dist), best


def realizable_spec(ctx, case, impl):
    """-> None when the implementation's answer satisfies C20's realizability clauses on this input,
    else a description.  Uses the Lean certificate check and the exhaustive oracle."""
    if impl["verdict"] == "RuntimeError":
        return None
    if impl["verdict"] == "found":
        if impl["seq"] is None:
            return "verdict True without a firing sequence"
        rep = ctx.lean().ok([realizable_request(case, "spec.petri.certificate", seq=impl["seq"])])[0]
        if not rep["valid"]:
            return f"returned sequence {impl['seq']} is not a valid firing sequence from M0 to MT (Lean validCertificate = false)"
        if not rep["counts_ok"]:
            return f"returned sequence {impl['seq']} does not fire every reaction flow(e) times"
        return None
    size, d = exhaustive(case)
    if size is not None and d is not None and d <= case["max_depth"] and size <= case["max_states"]:
        return (f"reported unrealizable although a firing sequence of length {d} <= max_depth={case['max_depth']} exists and "
                f"only {size} <= max_states={case['max_states']} markings are reachable")
    return None


def shrink_realizable(ctx, case):
    def bad(c):
        try:
            impl = impl_realizable(c)
            return impl["verdict"] != "parser-differs" and realizable_spec(ctx, c, impl) is not None
        except Exception:
            return False
    rs = case["desc"]["reactions"]

    def fails(cand):
        return bool(cand) and bad(dict(case, desc=dict(case["desc"], reactions=cand), edge_order=None))
    small_rs = shrink_seq(rs, fails, budget=60)
    out = dict(case, desc=dict(case["desc"], reactions=small_rs), edge_order=None)
    if not bad(out):
        return case
    ids = {r["id"] for r in small_rs}
    out["flow"] = [[k, v] for k, v in out["flow"] if k in ids]
    for ent in out["flow"]:
        while ent[1] > 0:
            ent[1] -= 1
            if not bad(out):
                ent[1] += 1
                break
    return out


def run_realizable(ctx, cases, tag):
    models = ctx.lean().ok([realizable_request(c) for c in cases], shards=8)
    for case, model in zip(cases, models):
        impl = impl_realizable(case)
        if impl["verdict"] == "parser-differs":
            ctx.violation("reaction-string parser / id generation differs from the harness encoding (harness assumption, not the property)",
                          case, {"detail": impl["detail"], "stream": tag}, no_input=True)
            return
        if case.get("via_strings"):
            ctx.count("realizable:strings:" + ("flow=None" if case["via_strings"].get("flow_none") else "flow given")
                      + (":verbose" if case["via_strings"].get("verbose") else ""))
        if case.get("flow_default"):
            ctx.count("realizable:hypergraph_to_pr_inputs without flow")
        if model["verdict"] == "fuelOut":
            ctx.violation("model BFS ran out of fuel (contradicts bfs_never_fuelOut)", case, None, no_input=True)
            return
        size, d = exhaustive(case)
        ctx.count(f"realizable[{tag}]")
        ctx.count("realizable:impl=" + impl["verdict"])
        ctx.count(f"realizable:flow-kind={case.get('kind')}:{impl['verdict']}")
        ctx.count("realizable:oracle=" + ("too-large" if size is None and d is None else "reachable" if d is not None else "unreachable"))
        if model["verdict"] == "notFound":
            ctx.count("realizable:notFound-bounds=" + (("states " if model["hit_states"] else "") + ("depth" if model["skipped_depth"] else "") or "untouched"))
        tot = sum(max(v, 0) for _, v in case["flow"])
        ctx.case(["realizable", case], tot >= 2 and len(case["desc"]["reactions"]) >= 2,
                 sample={"stream": tag, "net": netio.fmt(case["desc"]), "flow": case["flow"], "bounds": [case["max_states"], case["max_depth"]],
                         "impl": [impl["verdict"], impl.get("seq")], "oracle": [size, d]} if tot <= 4 else None)
        if model["verdict"] == "notFound" and not model["hit_states"] and not model["skipped_depth"] and d is not None:
            ctx.violation("oracle finds a firing sequence although the model search was exhaustive (contradicts bfs_complete_partial: "
                          "harness oracle or driver broken)", case, {"oracle": [size, d]}, no_input=True)
            return
        problem = None
        if impl["verdict"] != "RuntimeError" and model["verdict"] != "RuntimeError":
            for k in ("places", "transitions", "arcs", "M0", "MT"):
                if impl[k] != model[k]:
                    problem = f"extended net differs in {k}: impl={impl[k]} model={model[k]}"
                    break
        if problem is None and impl["verdict"] != model["verdict"]:
            problem = f"verdict impl={impl['verdict']} model={model['verdict']} with bounds {case['max_states']}/{case['max_depth']}"
        if problem is None and impl["verdict"] == "found":
            if impl["seq"] == model["seq"]:
                ctx.count("realizable:certificate_identical")
            else:
                ctx.count("realizable:certificate_differs(not gated)")
            if impl["cert_attr"] != impl["seq"]:
                problem = "the `certificate` attribute differs from the returned sequence"
        # specification on the implementation's own answer, on every case
        s = realizable_spec(ctx, case, impl)
        # sanity of the oracle itself: a valid certificate implies reachability
        if s is None and impl["verdict"] == "found" and size is not None and d is None:
            ctx.violation("exhaustive oracle says unreachable but the certificate is valid (harness oracle broken)", case,
                          {"impl": impl}, no_input=True)
            return
        if s is not None:
            small = shrink_realizable(ctx, case)
            simpl = impl_realizable(small)
            ctx.violation("pathway realizability answer violates its specification", small,
                          {"spec": realizable_spec(ctx, small, simpl) or s, "impl": [simpl["verdict"], simpl.get("seq")],
                           "net": netio.fmt(small["desc"]), "stream": tag})
        elif problem is not None:
            ctx.violation("correspondence realizability: impl and model differ although the specification holds",
                          case, {"diff": problem, "stream": tag}, no_input=True)
        if len(ctx.violations) >= 5:
            return


def simulate_flow(rnd, rs, species, max_steps, budget=400):
    """Random firing sequence from the zero marking that returns to it (randomised depth-first
    search over markings with at most 8 tokens); -> flow dict (edge id -> count) or None."""
    m = {s: 0 for s in species}
    seq = []
    left = [budget]

    def go():
        if left[0] <= 0:
            return False
        left[0] -= 1
        if len(seq) >= 2 and all(v == 0 for v in m.values()) and (len(seq) >= max_steps or rnd.random() < 0.5):
            return True
        if len(seq) >= max_steps:
            return False
        en = [r for r in rs if all(m[s] >= c for s, c in r["r"])]
        rnd.shuffle(en)
        if len(seq) >= max_steps // 2:
            en.sort(key=lambda r: sum(c for _, c in r["p"]) - sum(c for _, c in r["r"]))
        for r in en:
            for s, c in r["r"]:
                m[s] -= c
            for s, c in r["p"]:
                m[s] += c
            seq.append(r["id"])
            if sum(m.values()) <= 8 and go():
                return True
            seq.pop()
            for s, c in r["r"]:
                m[s] += c
            for s, c in r["p"]:
                m[s] -= c
        return False

    if not go():
        return None
    counts = {}
    for t in seq:
        counts[t] = counts.get(t, 0) + 1
    return counts


def planned_pathway(rnd, sp):
    """A network grown along a firing sequence that starts and ends at the zero marking (so the
    resulting flow is realizable by construction): -> (reactions, flow dict)."""
    m = {}
    rs, flow = [], {}

    def apply(r):
        for s, c in r["r"]:
            m[s] -= c
            if m[s] == 0:
                del m[s]
        for s, c in r["p"]:
            m[s] = m.get(s, 0) + c
        flow[r["id"]] = flow.get(r["id"], 0) + 1

    for _ in range(rnd.randint(1, 5)):
        en = [r for r in rs if all(m.get(s, 0) >= c for s, c in r["r"])]
        if en and rnd.random() < 0.3:
            apply(rnd.choice(en))
            continue
        if m and rnd.random() < 0.8:
            keys = rnd.sample(sorted(m), rnd.randint(1, min(2, len(m))))
            r = [[s, rnd.randint(1, min(3, m[s]))] for s in keys]
        else:
            r = []
        p = [[s, rnd.choice([1, 1, 2])] for s in rnd.sample(sp, rnd.randint(0 if r else 1, min(2, len(sp))))]
        if sum(m.values()) + sum(c for _, c in p) > 7:
            p = []
        if not r and not p:
            continue
        rx = {"id": f"r_{len(rs) + 1}", "rule": "r", "r": r, "p": p}
        rs.append(rx)
        apply(rx)
    while m:
        keys = rnd.sample(sorted(m), rnd.randint(1, min(2, len(m))))
        r = [[s, m[s] if m[s] <= 3 and rnd.random() < 0.5 else 1] for s in keys]
        same = [x for x in rs if sorted(x["r"]) == sorted(r) and not x["p"]]
        rx = same[0] if same else {"id": f"r_{len(rs) + 1}", "rule": "r", "r": r, "p": []}
        if not same:
            rs.append(rx)
        apply(rx)
    return rs, flow


def random_pathway_case(rnd, max_species=4, small=False):
    sp = list("ABCDEF")[: rnd.randint(2, max_species)]
    rs = []
    n = rnd.randint(2, 4 if small else 6)
    for i in range(n):
        k = rnd.random()

        def side(lo, hi):
            return [[s, rnd.choice([1, 1, 1, 2, 3])] for s in rnd.sample(sp, rnd.randint(lo, min(hi, len(sp))))]
        if i == 0 or k < 0.2:
            r, p = [], side(1, 2)
        elif i == 1 or k < 0.4:
            r, p = side(1, 2), []
        elif k < 0.55:
            r = side(1, 2)
            cat = rnd.choice(r)[0]
            p = [e for e in side(0, 2) if e[0] != cat] + [[cat, rnd.choice([1, 2])]]
        else:
            r, p = side(1, 2), side(1, 2)
        rs.append({"id": f"r_{i + 1}", "rule": "r", "r": r, "p": p})
    mode = rnd.random()
    flow = None
    kind = "arbitrary"
    if mode < 0.5:
        prs, flow = planned_pathway(rnd, sp)
        if prs:
            kind = "planned"
            if rnd.random() < 0.5:  # distractors: extra reactions with small or zero flow
                for r in rs[: rnd.randint(1, 2)]:
                    r = dict(r, id=f"r_{len(prs) + 1}")
                    prs.append(r)
                    if rnd.random() < 0.4:
                        flow[r["id"]] = 1
                        kind = "planned+distractor-flow"
            rs = prs
        else:
            flow = None
    rnd.shuffle(rs)
    desc = {"reactions": rs, "isolated": ["Z"] if rnd.random() < 0.1 else []}
    nrs = netio.reactions_of(desc)
    if flow is None and mode < 0.8:
        for _ in range(4):
            flow = simulate_flow(rnd, nrs, sp + desc["isolated"], rnd.randint(2, 7))
            if flow:
                kind = "simulated"
                break
    if flow and kind in ("simulated", "planned") and rnd.random() < 0.12:
        k = rnd.choice(sorted(flow))
        flow[k] += rnd.choice([1, -1])
        kind = "perturbed"
    if not flow:
        flow = {r["id"]: rnd.choice([0, 0, 1, 1, 2]) for r in nrs if rnd.random() < 0.8}
        if rnd.random() < 0.05:
            flow[rnd.choice(nrs)["id"]] = -1
    b = rnd.random()
    if b < 0.7:
        ms, md = 5000, 60
    elif b < 0.85:
        ms, md = rnd.choice([0, 1, 2, 3, 5, 10, 30]), 60
    else:
        ms, md = 5000, rnd.choice([0, 1, 2, 3, 4])
    case = {"desc": desc, "flow": sorted([k, v] for k, v in flow.items()), "max_states": ms, "max_depth": md,
            "via_hypergraph": rnd.random() < 0.3, "via_config": rnd.random() < 0.2, "kind": kind}
    if not case["via_hypergraph"]:
        order = list(range(len(rs)))
        rnd.shuffle(order)
        case["edge_order"] = order
    return case


def entry_point_case(rnd, i):
    """The same kind of pathway handed over through the other documented routes: `hypergraph_to_pr_inputs(H)` without
    a flow (every edge then has flow 1) and `run_realizability_from_rxn_strings` (flow given or None, default bounds)."""
    c = random_pathway_case(rnd, max_species=3 if i % 3 == 0 else 4, small=(i % 2 == 0))
    rs = c["desc"]["reactions"]
    ren = {r["id"]: f"r_{k + 1}" for k, r in enumerate(rs)}
    fl = {ren[k]: v for k, v in c["flow"] if k in ren}
    c["desc"] = {"reactions": [dict(r, id=ren[r["id"]], rule="r") for r in rs], "isolated": []}
    c.pop("edge_order", None)
    c.update(via_hypergraph=True, via_config=False)
    ones = i % 3 != 2
    c["flow"] = [[f"r_{k + 1}", 1 if ones else fl.get(f"r_{k + 1}", 0)] for k in range(len(rs))]
    if ones:
        c["kind"] = "all-ones"
    if i % 2 == 0:
        c["max_states"], c["max_depth"] = DEFAULT_BOUNDS
        c["via_strings"] = {"style": rnd.randrange(3), "flow_none": ones and rnd.random() < 0.7, "verbose": rnd.random() < 0.3,
                            "iterator": rnd.random() < 0.3}
    else:
        c["flow_default"] = True
        c["flow"] = [[f"r_{k + 1}", 1] for k in range(len(rs))]
        c["kind"] = "all-ones"
    return dict(c, stream="realizable")


# =============================================================== histories on ONE PathwayRealizability object
# Every public method of the class is called in random order on one (or two interleaved) objects.
# Nothing is modelled about the history: each `is_realizable` answer is judged by the pure Lean model /
# specification of the pathway that is loaded AT THAT MOMENT (the docstrings promise that
# `is_scaled_realizable` restores flow and net, that `is_borrow_realizable` restores the markings and that
# `load_hypergraph_and_flow` invalidates the net).
DEFAULT_BOUNDS = (100_000, 10_000)  # RealizabilityConfig defaults


def tokens_pathway(rnd, sp):
    """A network grown along a firing sequence that starts at a small NON-zero marking b and returns to b.
    The flow is conservative and realizable once b is borrowed; from the zero marking it is realizable
    only by luck (closed cycles, autocatalysis, catalysts needed in more copies than the feed supplies),
    sometimes after scaling (species of b fed by a source and drained by a sink).  -> (reactions, flow, b)"""
    b = {s: rnd.choice([1, 1, 2]) for s in rnd.sample(sp, rnd.randint(1, min(2, len(sp))))}
    m = dict(b)
    rs, flow = [], {}

    def apply(r):
        for s, c in r["r"]:
            m[s] -= c
            if m[s] == 0:
                del m[s]
        for s, c in r["p"]:
            m[s] = m.get(s, 0) + c
        flow[r["id"]] = flow.get(r["id"], 0) + 1

    def new(r, p, times=1):
        rx = {"id": f"r_{len(rs) + 1}", "rule": "r", "r": r, "p": p}
        rs.append(rx)
        for _ in range(times):
            apply(rx)

    if rnd.random() < 0.55:  # feed the borrowed species through sources (drained again when closing)
        for s in sorted(b):
            if rnd.random() < 0.8:
                new([], [[s, 1]], times=rnd.randint(1, b[s]))
    for step in range(rnd.randint(1, 4)):
        en = [r for r in rs if all(m.get(s, 0) >= c for s, c in r["r"])]
        if en and rnd.random() < 0.3:
            apply(rnd.choice(en))
            continue
        if step == 0 and rnd.random() < 0.6:  # needs every token present now (borrowed + fed) of one species
            s0 = rnd.choice(sorted(b))
            r = [[s0, min(3, m[s0])]]
        elif m and rnd.random() < 0.9:
            keys = rnd.sample(sorted(m), rnd.randint(1, min(2, len(m))))
            r = [[s, rnd.randint(1, min(3, m[s]))] for s in keys]
        else:
            r = []
        if r and rnd.random() < 0.45:  # catalytic / autocatalytic: a reactant comes back
            cat = rnd.choice(r)
            others = [x for x in sp if x != cat[0]]
            p = [[cat[0], cat[1] + rnd.choice([0, 0, 1])]] + [[s, 1] for s in rnd.sample(others, rnd.randint(0, min(1, len(others))))]
        else:
            p = [[s, rnd.choice([1, 1, 2])] for s in rnd.sample(sp, rnd.randint(0 if r else 1, min(2, len(sp))))]
        if sum(m.values()) + sum(c for _, c in p) > 8:
            p = []
        if not r and not p:
            continue
        new(r, p)
    surplus = sorted([s, m[s] - b.get(s, 0)] for s in m if m[s] > b.get(s, 0))
    deficit = sorted([s, b[s] - m.get(s, 0)] for s in b if b[s] > m.get(s, 0))
    if surplus or deficit:
        if rnd.random() < 0.5:
            new(surplus, deficit)
        else:
            for s, c in surplus:
                if rnd.random() < 0.5:
                    new([[s, c]], [])
                else:
                    new([[s, 1]], [], times=c)
            for s, c in deficit:
                new([], [[s, 1]], times=c)
    assert m == b, (m, b)
    return rs, flow, b


def random_pool_pathway(rnd, max_species):
    """One pathway description {desc, flow, edge_order | via_hypergraph, kind} for a history."""
    if rnd.random() < 0.6:
        sp = list("ABCDEF")[: rnd.randint(1, max_species)]
        rs, flow, _ = tokens_pathway(rnd, sp)
        if rs:
            rs = [dict(r) for r in rs]
            if rnd.random() < 0.25:  # an unused reaction
                rs.append({"id": f"r_{len(rs) + 1}", "rule": "r", "r": [[rnd.choice(sp), 1]], "p": [[rnd.choice(sp), 1]]})
            rnd.shuffle(rs)
            pw = {"desc": {"reactions": rs, "isolated": ["Z"] if rnd.random() < 0.08 else []},
                  "flow": sorted([k, v] for k, v in flow.items()), "kind": "needs-tokens",
                  "via_hypergraph": rnd.random() < 0.3}
            if not pw["via_hypergraph"]:
                order = list(range(len(rs)))
                rnd.shuffle(order)
                pw["edge_order"] = order
            return decorate_pathway(rnd, pw) if rnd.random() < 0.25 else pw
    c = random_pathway_case(rnd, max_species=max(2, max_species), small=rnd.random() < 0.5)
    pw = {k: c[k] for k in ("desc", "flow", "via_hypergraph", "kind", "edge_order") if k in c}
    return decorate_pathway(rnd, pw) if rnd.random() < 0.25 else pw


def decorate_pathway(rnd, pw):
    """Rare but legal ways of writing the same pathway for `load_hypergraph_and_flow`."""
    if pw.get("via_hypergraph"):
        return pw
    species, rs, _ = pathway_of(pw)
    dec = {}
    if rs and species and rnd.random() < 0.7:
        dec["zeros"] = [[rnd.choice(rs)["id"], rnd.choice([0, 1]), rnd.choice(species)] for _ in range(rnd.randint(1, 3))]
    if rnd.random() < 0.6:
        dec["extra_flow"] = [[rnd.choice(["zz", "r_0", "__ext__r_1", "r_99"]), rnd.choice([1, 2, -1])] for _ in range(rnd.randint(1, 2))]
    dec["vertices"] = rnd.choice(["tuple", "duplicates", "generator", "set", None])
    return dict(pw, decorate=dec)


def pathway_states_bound(pw, k=1):
    """Upper bound on the markings reachable in the extended net of k*flow (a marking is determined by
    the firing counts)."""
    n = 1
    for _, v in pw["flow"]:
        n *= k * max(int(v), 0) + 1
    return n


def random_pr_history(rnd, max_species=4):
    pws = [random_pool_pathway(rnd, max_species) for _ in range(rnd.choice([1, 1, 2, 3]))]
    nobj = 2 if rnd.random() < 0.3 else 1
    configs = []
    for _ in range(nobj):
        x = rnd.random()
        configs.append(None if x < 0.25 else [rnd.choice([300, 2000, 5000]), rnd.choice([60, 60, 12])] if x < 0.9
                       else [rnd.choice([3, 10, 40]), rnd.choice([60, 3])])
    loaded = [None] * nobj
    ops = []
    budget = 6000  # marking visits allowed per scaled / borrow call

    def add_load(o):
        i = rnd.randrange(len(pws))
        ops.append({"op": "load", "obj": o, "pw": i})
        loaded[o] = i
        if rnd.random() < 0.85:
            ops.append({"op": "build", "obj": o})

    for o in range(nobj):
        add_load(o)
    for _ in range(rnd.randint(4, 10)):
        o = rnd.randrange(nobj)
        pw = pws[loaded[o]]
        cap = (configs[o] or DEFAULT_BOUNDS)[0]
        x = rnd.random()
        if x < 0.36:
            y = rnd.random()
            if y < 0.45:
                ms, md = None, None
            elif y < 0.7:
                ms, md = 5000, 60
            elif y < 0.85:
                ms, md = rnd.choice([0, 1, 2, 3, 5, 10, 30]), rnd.choice([None, 60])
            else:
                ms, md = rnd.choice([None, 5000]), rnd.choice([0, 1, 2, 3, 4])
            ops.append({"op": "realizable", "obj": o, "ms": ms, "md": md})
        elif x < 0.52:
            ks = [k for k in (1, 2, 3, 4) if sum(min(cap, pathway_states_bound(pw, j)) for j in range(1, k + 1)) <= budget]
            ops.append({"op": "scaled", "obj": o, "k_max": rnd.choice(ks[-2:]) if ks else 1})
        elif x < 0.68:
            nv = len(pathway_of(pw)[0])
            per = min(cap, pathway_states_bound(pw))
            bs = [bb for bb in (0, 1, 2) if (bb + 1) ** nv * per <= budget]
            ops.append({"op": "borrow", "obj": o, "max_borrow_each": rnd.choice(bs[-2:]) if bs else 0})
        elif x < 0.75:
            ops.append({"op": "build", "obj": o})
        elif x < 0.83:
            add_load(o)
        elif x < 0.88:
            ops.append({"op": "konig", "obj": o})
        elif x < 0.92:
            ops.append({"op": "certificate", "obj": o})
        elif x < 0.96:
            ops.append({"op": "export", "obj": o})
        else:
            ops.append({"op": "markings", "obj": o})
    if not any(op["op"] == "realizable" for op in ops[-2:]):
        ops.append({"op": "realizable", "obj": rnd.randrange(nobj), "ms": None, "md": None})
    return {"stream": "pr-history", "pathways": pws, "configs": configs, "ops": ops}


def _pairs(d):
    return sorted([str(k), int(w)] for k, w in d.items())


def impl_pr_history(case):
    """Run the operations; -> one record per op.  `loaded` is the pathway the object holds at that
    moment, `built` whether a documented (re)build happened since the last load."""
    import os
    import tempfile

    from synkit.CRN.Path.realizability import PathwayRealizability, RealizabilityConfig

    objs = [PathwayRealizability() if c is None else PathwayRealizability(RealizabilityConfig(max_states=c[0], max_depth=c[1]))
            for c in case["configs"]]
    loaded = [None] * len(objs)
    built = [False] * len(objs)
    out = []
    with tempfile.TemporaryDirectory(prefix="c20_") as tmp:
        for n, op in enumerate(case["ops"]):
            o = op["obj"]
            if o >= len(objs):
                continue
            pr = objs[o]
            kind = op["op"]
            rec = {"n": n, "op": kind, "obj": o}
            try:
                if kind == "load":
                    if op["pw"] >= len(case["pathways"]):
                        continue
                    pr.load_hypergraph_and_flow(*pr_inputs(case["pathways"][op["pw"]]))
                    loaded[o], built[o] = op["pw"], False
                elif kind == "build":
                    pr.build_petri_net_from_flow()
                    built[o] = True
                elif kind == "realizable":
                    ok, cert = pr.is_realizable(max_states=op.get("ms"), max_depth=op.get("md"))
                    rec["verdict"] = "found" if ok else "notFound"
                    rec["seq"] = None if cert is None else list(cert)
                    rec["cert_attr"] = None if pr.certificate is None else list(pr.certificate)
                    rec["M0"], rec["MT"] = _pairs(pr.initial_marking), _pairs(pr.target_marking)
                    rec["flow_attr"] = _pairs(pr.flow)
                elif kind == "konig":
                    rec["konig"] = bool(pr.is_realizable_via_konig())
                elif kind == "scaled":
                    ok, k = pr.is_scaled_realizable(k_max=op["k_max"])
                    rec["result"] = [bool(ok), k]
                    built[o] = True
                elif kind == "borrow":
                    ok, b = pr.is_borrow_realizable(max_borrow_each=op["max_borrow_each"])
                    rec["result"] = [bool(ok), None if b is None else _pairs(b)]
                    built[o] = True
                elif kind == "certificate":
                    c = pr.certificate
                    rec["certificate"] = None if c is None else list(c)
                elif kind == "export":
                    fn = os.path.join(tmp, f"net{n}.json")
                    pr.export_pnml(fn)
                    built[o] = True
                    data = json.loads(open(fn).read())
                    rec["M0"], rec["MT"] = _pairs(data["initial"]), _pairs(data["target"])
                elif kind == "markings":
                    got = []
                    for name in ("target_marking", "initial_marking"):  # each accessor on its own (either may raise)
                        try:
                            got.append(_pairs(getattr(pr, name)))
                        except RuntimeError:
                            got.append(None)
                    if None in got:
                        raise RuntimeError("markings not available")
                    rec["MT"], rec["M0"] = got
            except RuntimeError:
                rec["error"] = "RuntimeError"
            rec["loaded"], rec["built"] = loaded[o], built[o]
            out.append(rec)
    return out


def pr_step_case(case, op, rec):
    """The one-shot realizability case (pathway loaded at that moment + effective bounds) of a step."""
    d = case["configs"][rec["obj"]] or DEFAULT_BOUNDS
    ms = op.get("ms") if op.get("ms") is not None else d[0]
    md = op.get("md") if op.get("md") is not None else d[1]
    return dict(case["pathways"][rec["loaded"]], max_states=ms, max_depth=md)


def pr_history_requests(case, steps):
    """Lean requests for the judged steps: -> list of (step position, what, request)."""
    reqs = []
    for i, rec in enumerate(steps):
        if rec["loaded"] is None:
            continue
        op = case["ops"][rec["n"]]
        if rec["op"] == "realizable" and "error" not in rec:
            sub = pr_step_case(case, op, rec)
            reqs.append((i, "model", realizable_request(sub)))
            if rec["verdict"] == "found" and rec["seq"] is not None and all(isinstance(t, str) for t in rec["seq"]):
                reqs.append((i, "cert", realizable_request(sub, "spec.petri.certificate", seq=rec["seq"])))
        elif rec["op"] == "realizable" and rec["built"]:
            reqs.append((i, "model", realizable_request(pr_step_case(case, op, rec))))
        elif rec["op"] in ("export", "markings") and "M0" in rec:
            sub = dict(case["pathways"][rec["loaded"]], max_states=0, max_depth=0)
            reqs.append((i, "model", realizable_request(sub)))
    return reqs


def judge_pr_history(case, steps, reqs, answers):
    """-> (spec failures, correspondence failures), each a list of (op number, message)."""
    spec, corr = [], []
    ans = {}
    for (i, what, _), a in zip(reqs, answers):
        ans[(i, what)] = a
    for i, rec in enumerate(steps):
        if rec["loaded"] is None:
            continue
        op = case["ops"][rec["n"]]
        model = ans.get((i, "model"))
        where = f"op {rec['n']} ({rec['op']} on object {rec['obj']}, pathway {rec['loaded']})"
        if rec["op"] == "realizable":
            if "error" in rec:
                if rec["built"] and model is not None and model["verdict"] != "RuntimeError":
                    corr.append((rec["n"], f"{where}: RuntimeError although the net was built; model verdict {model['verdict']}"))
                continue
            sub = pr_step_case(case, op, rec)
            s = None
            if rec["verdict"] == "found":
                c = ans.get((i, "cert"))
                if rec["seq"] is None:
                    s = "verdict True without a firing sequence"
                elif c is None:
                    s = f"returned sequence {rec['seq']!r} is not a list of transition ids"
                elif not c["valid"]:
                    s = (f"returned sequence {rec['seq']} is not a valid firing sequence from M0 to MT of the loaded pathway "
                         f"(Lean validCertificate = false)")
                elif not c["counts_ok"]:
                    s = f"returned sequence {rec['seq']} does not fire every reaction flow(e) times"
            else:
                size, d = exhaustive(sub)
                if size is not None and d is not None and d <= sub["max_depth"] and size <= sub["max_states"]:
                    s = (f"reported unrealizable although a firing sequence of length {d} <= max_depth={sub['max_depth']} exists "
                         f"and only {size} <= max_states={sub['max_states']} markings are reachable")
            if s is not None:
                spec.append((rec["n"], f"{where}: {s}"))
                continue
            if model is None or model["verdict"] in ("fuelOut",):
                continue
            if not rec["built"]:
                continue  # answered without a documented build: judged by the specification only
            if model["verdict"] != rec["verdict"]:
                corr.append((rec["n"], f"{where}: verdict impl={rec['verdict']} model={model['verdict']} with bounds "
                                       f"{sub['max_states']}/{sub['max_depth']}"))
            elif rec["verdict"] == "found" and rec["cert_attr"] != rec["seq"]:
                corr.append((rec["n"], f"{where}: the `certificate` attribute differs from the returned sequence"))
            elif model["verdict"] != "RuntimeError" and (rec["M0"] != model["M0"] or rec["MT"] != model["MT"]):
                corr.append((rec["n"], f"{where}: markings M0={rec['M0']} MT={rec['MT']} model M0={model['M0']} MT={model['MT']}"))
        elif rec["op"] in ("export", "markings") and "M0" in rec and model is not None and model["verdict"] != "RuntimeError":
            if rec["built"] and (rec["M0"] != model["M0"] or rec["MT"] != model["MT"]):
                corr.append((rec["n"], f"{where}: markings M0={rec['M0']} MT={rec['MT']} model M0={model['M0']} MT={model['MT']}"))
    return spec, corr


def pr_history_verdict(ctx, case):
    steps = impl_pr_history(case)
    reqs = pr_history_requests(case, steps)
    answers = ctx.lean().ok([r for _, _, r in reqs])
    return steps, judge_pr_history(case, steps, reqs, answers)


def shrink_pr_history(ctx, case):
    def fails(ops):
        try:
            return bool(ops) and bool(pr_history_verdict(ctx, dict(case, ops=ops))[1][0])
        except Exception:
            return False
    small = dict(case, ops=shrink_seq(case["ops"], fails, budget=60))
    # drop the pathways and objects that are no longer used
    used = sorted({op["pw"] for op in small["ops"] if op["op"] == "load"})
    cand = dict(small, pathways=[case["pathways"][i] for i in used],
                ops=[dict(op, pw=used.index(op["pw"])) if op["op"] == "load" else op for op in small["ops"]])
    try:
        if pr_history_verdict(ctx, cand)[1][0]:
            small = cand
    except Exception:
        pass
    # fewer reactions in the pathways that are left
    for i in range(len(small["pathways"])):
        pw = small["pathways"][i]

        def with_rs(rs):
            ids = {r["id"] for r in rs}
            q = dict(pw, desc=dict(pw["desc"], reactions=rs), flow=[[k, v] for k, v in pw["flow"] if k in ids])
            q.pop("edge_order", None)
            return dict(small, pathways=small["pathways"][:i] + [q] + small["pathways"][i + 1:])

        def fails_rs(rs):
            try:
                return bool(rs) and bool(pr_history_verdict(ctx, with_rs(rs))[1][0])
            except Exception:
                return False
        base = pw["desc"]["reactions"]
        if fails_rs(base):
            small = with_rs(shrink_seq(base, fails_rs, budget=25))
    return small


def flush_pending(ctx, reported, pending):
    """History streams judge every history before reporting: specification failures (with their minimised
    input) come first; correspondence differences are reported only when no history violated the specification."""
    if reported == 0:
        for what, case, detail in pending[:3]:
            ctx.violation(what, case, detail, no_input=True)
    elif pending:
        ctx.count("history:correspondence differences next to specification failures (not reported separately)", len(pending))


def summarize_pr_step(rec):
    keep = {k: rec[k] for k in ("n", "op", "obj", "loaded", "verdict", "seq", "result", "error", "konig") if k in rec}
    return keep


def run_pr_histories(ctx, cases, tag):
    runs = [impl_pr_history(c) for c in cases]
    reqs = [pr_history_requests(c, st) for c, st in zip(cases, runs)]
    flat = [r for rq in reqs for _, _, r in rq]
    answers = ctx.lean().ok(flat, shards=8)
    pos = 0
    reported, pending = 0, []
    for case, steps, rq in zip(cases, runs, reqs):
        ans = answers[pos: pos + len(rq)]
        pos += len(rq)
        spec, corr = judge_pr_history(case, steps, rq, ans)
        judged = 0
        dirty = [False] * len(case["configs"])  # a scaled / borrow call since the last documented (re)build or load
        for rec in steps:
            ctx.count("pr-history:op=" + rec["op"] + (":RuntimeError" if "error" in rec else ""))
            if rec["op"] == "realizable" and "error" not in rec and rec["loaded"] is not None:
                judged += 1
                kind = case["pathways"][rec["loaded"]].get("kind")
                ctx.count(f"pr-history:is_realizable:{kind}:{rec['verdict']}")
                if dirty[rec["obj"]]:
                    ctx.count("pr-history:is_realizable right after scaled/borrow (no rebuild)")
            if rec["op"] == "scaled" and "error" not in rec:
                ctx.count("pr-history:scaled=" + ("none" if not rec["result"][0] else "k=1" if rec["result"][1] == 1 else "k>=2"))
                dirty[rec["obj"]] = True
            elif rec["op"] == "borrow" and "error" not in rec:
                b = rec["result"][1]
                ctx.count("pr-history:borrow=" + ("none" if b is None else "zero-vector" if not any(v for _, v in b) else "non-zero"))
                dirty[rec["obj"]] = True
            elif rec["op"] in ("build", "load", "export"):
                dirty[rec["obj"]] = False
        ctx.count(f"pr-history[{tag}]")
        ctx.count("pr-history:objects=" + str(len(case["configs"])))
        ctx.case(["pr-history", case], judged >= 2,
                 sample={"stream": tag, "pathways": [[netio.fmt(p["desc"]), p["flow"]] for p in case["pathways"]],
                         "configs": case["configs"], "ops": case["ops"], "steps": [summarize_pr_step(r) for r in steps]}
                 if len(case["ops"]) <= 7 and len(case["pathways"]) == 1 else None)
        if spec:
            ctx.count("pr-history:histories with a specification failure")
        if spec and reported < 3:
            reported += 1
            small = shrink_pr_history(ctx, case)
            ssteps, (sspec, _) = pr_history_verdict(ctx, small)
            ctx.violation("pathway realizability answer violates its specification for the loaded pathway "
                          "(history of calls on one PathwayRealizability object)", small,
                          {"spec": [m for _, m in (sspec or spec)], "steps": [summarize_pr_step(r) for r in ssteps],
                           "pathways": [[netio.fmt(p["desc"]), p["flow"]] for p in small["pathways"]], "stream": tag})
        elif corr and not spec:
            pending.append(("correspondence realizability history: impl and model differ although the specification holds",
                            case, {"diff": [m for _, m in corr], "stream": tag}))
    flush_pending(ctx, reported, pending)


# =============================================================== histories on PetriNet objects
def random_net_history(rnd):
    places = ["p", "q", "r", "s", "A", "__ext__e"][: rnd.randint(1, 6)]
    tids = ["t1", "t2", "t3"]
    nnets = 2 if rnd.random() < 0.3 else 1
    ops = []

    def arcs():
        return [[p, rnd.choice([1, 1, 1, 2, 3, 0])] for p in rnd.sample(places, rnd.randint(0, min(3, len(places))))]

    def add_t(k):
        ops.append({"op": "add_transition", "net": k, "tid": rnd.choice(tids), "pre": arcs(), "post": arcs()})

    for k in range(nnets):
        add_t(k)
    nreg = 0
    for _ in range(rnd.randint(5, 14)):
        k = rnd.randrange(nnets)
        x = rnd.random()
        known = sorted({o["tid"] for o in ops if o["op"] == "add_transition" and o["net"] == k})
        if x < 0.22:
            add_t(k)  # mostly an overwrite: three ids only
        elif x < 0.27:
            ops.append({"op": "add_place", "net": k, "p": rnd.choice(places + ["zz"])})
        else:
            if nreg and rnd.random() < 0.6:
                mk = {"reg": rnd.randrange(nreg)}
            else:
                mk = [[p, rnd.choice([0, 0, 1, 2, 3, 5])] for p in places + ["zz"] if rnd.random() < 0.7]
            tid = rnd.choice(tids + ["nope"]) if rnd.random() < 0.1 else rnd.choice(known)
            if x < 0.45:
                ops.append({"op": "enabled", "net": k, "tid": tid, "marking": mk})
            elif x < 0.9:
                ops.append({"op": "fire", "net": k, "tid": tid, "marking": mk, "if_enabled": rnd.random() < 0.6})
                nreg += 1
            else:
                ops.append({"op": "tuple", "net": k, "marking": mk})
    return {"stream": "net-history", "nets": nnets, "ops": ops}


def impl_net_history(case):
    """Interleaved add_place / add_transition (overwrites) / enabled / fire / marking_to_tuple on one or two
    nets; markings returned by `fire` are kept (the same dict object) and passed in again later."""
    from synkit.CRN.Petri import PetriNet

    nets = [PetriNet() for _ in range(case["nets"])]
    defs = [[] for _ in nets]  # add_transition calls so far, per net
    regs = []
    out = []
    for n, op in enumerate(case["ops"]):
        k = op["net"]
        net = nets[k]
        kind = op["op"]
        if kind == "add_transition":
            net.add_transition(op["tid"], dict(map(tuple, op["pre"])), dict(map(tuple, op["post"])))
            defs[k].append({"tid": op["tid"], "pre": op["pre"], "post": op["post"]})
            continue
        if kind == "add_place":
            net.add_place(op["p"])
            continue
        mk = op["marking"]
        if isinstance(mk, dict):
            m = regs[mk["reg"] % len(regs)] if regs else {}
        else:
            m = dict(map(tuple, mk))
        before = dict(m)
        rec = {"n": n, "op": kind, "net": k, "tid": op.get("tid"), "marking": _pairs(before), "defs": list(defs[k])}
        if kind == "tuple":
            tup = net.marking_to_tuple(m)
            rec["tuple_ok"] = (len(tup) == len(net._place_index) == len(net.places)
                               and sorted(net._place_index.values()) == list(range(len(tup)))
                               and all(int(tup[i]) == int(m.get(p, 0)) for p, i in net._place_index.items()))
            rec["tuple"] = [int(x) for x in tup]
        else:
            try:
                rec["enabled"] = bool(net.enabled(m, op["tid"]))
            except KeyError:
                rec["enabled"] = "KeyError"
            if kind == "fire":
                try:
                    f = net.fire(m, op["tid"])
                    rec["fire"] = _pairs(f)
                    if not op.get("if_enabled") or rec["enabled"] is True:
                        regs.append(f)
                    else:
                        regs.append(m)
                except KeyError:
                    rec["fire"] = "KeyError"
                    regs.append(m)
        rec["mutated"] = m != before
        out.append(rec)
    return out


def net_history_requests(steps):
    return [{"cmd": "petri.net.run", "transitions": rec["defs"], "queries": [{"marking": rec["marking"], "tid": rec["tid"]}]}
            for rec in steps if rec["op"] != "tuple"]


def judge_net_history(steps, answers):
    """-> (spec failures, correspondence failures); every query is judged against the transitions defined
    on ITS net at that moment and the marking it was handed, nothing else."""
    spec, corr = [], []
    it = iter(answers)
    for rec in steps:
        where = f"op {rec['n']} ({rec['op']} {rec.get('tid')} on net {rec['net']}, marking {rec['marking']})"
        if rec["op"] == "tuple":
            if not rec["tuple_ok"]:
                corr.append((rec["n"], f"{where}: marking_to_tuple = {rec['tuple']} is not the marking in _place_index order"))
            continue
        model = next(it)["results"][0]
        one = {"transitions": rec["defs"], "queries": [{"marking": rec["marking"], "tid": rec["tid"]}]}
        res = {"enabled": rec["enabled"], "fire": rec.get("fire", model["fire"])}
        s = fire_spec_check(one, {"results": [res]})
        if s is not None:
            spec.append((rec["n"], f"{where}: {s}"))
        elif rec["mutated"]:
            corr.append((rec["n"], f"{where}: the marking passed in was mutated"))
        elif res["enabled"] != model["enabled"] or res["fire"] != model["fire"]:
            corr.append((rec["n"], f"{where}: impl={res} model={model}"))
    return spec, corr


def net_history_verdict(ctx, case):
    steps = impl_net_history(case)
    return steps, judge_net_history(steps, ctx.lean().ok(net_history_requests(steps)))


def run_net_histories(ctx, cases, tag):
    runs = [impl_net_history(c) for c in cases]
    reqs = [net_history_requests(st) for st in runs]
    answers = ctx.lean().ok([r for rq in reqs for r in rq], shards=8)
    pos = 0
    reported, pending = 0, []
    for case, steps, rq in zip(cases, runs, reqs):
        ans = answers[pos: pos + len(rq)]
        pos += len(rq)
        spec, corr = judge_net_history(steps, ans)
        for rec in steps:
            ctx.count("net-history:op=" + rec["op"] + ("" if rec["op"] == "tuple" else ":enabled=" + str(rec["enabled"])))
        ctx.count(f"net-history[{tag}]")
        over = len([o for o in case["ops"] if o["op"] == "add_transition"]) > len({(o["net"], o["tid"]) for o in case["ops"] if o["op"] == "add_transition"})
        ctx.count("net-history:overwrites=" + str(over))
        ctx.case(["net-history", case], any(r.get("enabled") is True for r in steps),
                 sample={"stream": tag, **case} if len(case["ops"]) <= 6 else None)
        if spec and reported < 3:
            reported += 1

            def fails(ops):
                try:
                    return bool(ops) and bool(net_history_verdict(ctx, dict(case, ops=ops))[1][0])
                except Exception:
                    return False
            small = dict(case, ops=shrink_seq(case["ops"], fails, budget=60))
            ssteps, (sspec, _) = net_history_verdict(ctx, small)
            ctx.violation("PetriNet.enabled/fire do not follow the firing rule (history of calls on one PetriNet object)", small,
                          {"spec": [m for _, m in (sspec or spec)], "stream": tag})
        elif corr and not spec:
            pending.append(("correspondence firing history: PetriNet differs from the model although the firing rule holds",
                            case, {"diff": [m for _, m in corr], "stream": tag}))
    flush_pending(ctx, reported, pending)


# =============================================================== analyser objects reused across edited networks
def desc_of_hypergraph(H):
    """The network a CRNHyperGraph holds NOW, read from its public store (ids, rules, sides, species)."""
    rs = [{"id": eid, "rule": e.rule, "r": sorted([s, int(c)] for s, c in e.reactants.items()),
           "p": sorted([s, int(c)] for s, c in e.products.items())} for eid, e in H.edges.items()]
    used = {s for r in rs for s, _ in r["r"] + r["p"]}
    return {"reactions": rs, "isolated": sorted(set(H.species) - used)}


def random_analyzer_history(rnd):
    raw = rnd.random() < 0.3
    desc = random_desc(rnd, max_species=5, max_rxn=4)
    if rnd.random() < 0.25:  # start from a network with a planted family of mixed sizes (see PLANT_SHAPES)
        desc = planted_desc(rnd, n=rnd.choice([4, 5]))[0]
    if raw:
        desc["isolated"] = []
    sp = sorted({s for r in desc["reactions"] for s, _ in r["r"] + r["p"]}) + ["F"]
    nan = 2 if rnd.random() < 0.3 else 1
    sizes = [rnd.choice([None, None, None, 1, 2, 3]) for _ in range(nan)]
    ids = [r["id"] for r in desc["reactions"]]
    ops = []
    fresh = 0
    for _ in range(rnd.randint(4, 9)):
        x = rnd.random()
        if x < 0.34:
            ops.append({"op": "compute", "an": rnd.randrange(nan), "how": rnd.choice(["siphons_traps", "siphons_traps", "all"]),
                        "read": rnd.choice(["attr", "attr", "as_dict"])})
        elif x < 0.5:
            ops.append({"op": "find", "max_size": rnd.choice([None, None, 1, 2]), "copy": rnd.random() < 0.3})
        elif x < 0.72:
            def side(lo, hi):
                return [[s, rnd.choice([1, 1, 2, 0] if raw else [1, 1, 2])] for s in rnd.sample(sp, rnd.randint(lo, hi))]
            r, p = side(0, 2), side(0, 2)
            if not [e for e in r if e[1] > 0] and not [e for e in p if e[1] > 0]:
                p = [[rnd.choice(sp), 1]]
            fresh += 1
            rid = f"n_{fresh}"
            ops.append({"op": "add", "rxn": {"id": rid, "rule": rnd.choice(["r", "R1"]), "r": r, "p": p}})
            ids.append(rid)
        elif x < 0.9:
            if len(ids) > 1:
                rid = rnd.choice(ids)
                ids.remove(rid)
                ops.append({"op": "remove", "id": rid})
        elif x < 0.95:
            ops.append({"op": "persistence", "an": rnd.randrange(nan)})
        else:
            ops.append({"op": "remove_species", "s": rnd.choice(sp)})
    ops.append({"op": "compute", "an": rnd.randrange(nan), "how": "siphons_traps", "read": "attr"})
    return {"stream": "analyzer-history", "raw": raw, "desc": desc, "max_sizes": sizes, "ops": ops}


def impl_analyzer_history(case):
    """One or two `PetriAnalyzer` objects built ONCE on a network object that is then edited in place
    (CRNHyperGraph through add_rxn / remove_rxn / remove_species, or a hand-built bipartite DiGraph through
    node/arc insertion and removal); `find_siphons` / `find_traps` called on the same object in between."""
    import copy

    from synkit.CRN.Petri import PetriAnalyzer, find_siphons, find_traps

    raw = bool(case.get("raw"))
    desc = copy.deepcopy(case["desc"])
    if raw:
        crn = netio.to_bipartite_raw(desc)
        desc["isolated"] = sorted({s for r in desc["reactions"] for s, _ in r["r"] + r["p"]})
    else:
        crn = netio.to_hypergraph(desc)
    ans = [PetriAnalyzer(crn, max_siphon_size=ms) for ms in case["max_sizes"]]
    out = []

    def now():
        return copy.deepcopy(desc) if raw else desc_of_hypergraph(crn)

    for n, op in enumerate(case["ops"]):
        kind = op["op"]
        rec = {"n": n, "op": kind}
        try:
            if kind == "add":
                rx = op["rxn"]
                if raw:
                    if any(r["id"] == rx["id"] for r in desc["reactions"]):
                        continue
                    rn = "R:" + rx["id"]
                    for s, _ in rx["r"] + rx["p"]:
                        if "S:" + s not in crn:
                            crn.add_node("S:" + s, kind="species", bipartite=0, label=s)
                            desc["isolated"] = sorted(set(desc["isolated"]) | {s})
                    crn.add_node(rn, kind="reaction", bipartite=1, label=rx["rule"])
                    for s, c in rx["r"]:
                        crn.add_edge("S:" + s, rn, role="reactant", stoich=int(c))
                    for s, c in rx["p"]:
                        crn.add_edge(rn, "S:" + s, role="product", stoich=int(c))
                    desc["reactions"].append(copy.deepcopy(rx))
                else:
                    if rx["id"] in crn.edges:
                        continue
                    crn.add_rxn(dict(map(tuple, rx["r"])), dict(map(tuple, rx["p"])), rule=rx["rule"], edge_id=rx["id"])
                continue
            if kind == "remove":
                if raw:
                    if len(desc["reactions"]) <= 1 or not any(r["id"] == op["id"] for r in desc["reactions"]):
                        continue
                    crn.remove_node("R:" + op["id"])
                    desc["reactions"] = [r for r in desc["reactions"] if r["id"] != op["id"]]
                else:
                    if len(crn.edges) <= 1 or op["id"] not in crn.edges:
                        continue
                    crn.remove_rxn(op["id"])
                continue
            if kind == "remove_species":
                if raw or op["s"] not in crn.species:
                    continue
                keep = [e for e in crn.edges.values() if set(e.reactants.keys()) | set(e.products.keys()) != {op["s"]}]
                if not keep:
                    continue
                crn.remove_species(op["s"])
                continue
            if kind == "persistence":
                ans[op["an"] % len(ans)].check_persistence()
                continue
            if kind == "compute":
                an = ans[op["an"] % len(ans)]
                if op["how"] == "all":
                    try:
                        an.compute_all()
                    except Exception:
                        an.compute_siphons_traps()
                else:
                    an.compute_siphons_traps()
                if op.get("read") == "as_dict":
                    d = an.as_dict()
                    rec["siphons"], rec["traps"] = fam(d["siphons"]), fam(d["traps"])
                else:
                    rec["siphons"], rec["traps"] = fam(an.siphons), fam(an.traps)
                rec["max_size"] = case["max_sizes"][op["an"] % len(ans)]
            elif kind == "find":
                target = crn.copy() if op.get("copy") else crn
                rec["siphons"] = fam(find_siphons(target, max_size=op["max_size"]))
                rec["traps"] = fam(find_traps(target, max_size=op["max_size"]))
                rec["max_size"] = op["max_size"]
            rec["desc"] = now()
            if raw:  # the live graph as the implementation saw it at this query
                rec["bip"] = bip_graph_request(crn)
            if not raw:
                rec["enc"] = netio.check_encoding(rec["desc"], crn)
        except ValueError as e:  # a network without reaction (or species) nodes is rejected
            rec["error"] = f"ValueError: {e}"
        out.append(rec)
    return out


def analyzer_history_requests(case, steps):
    reqs = []
    for rec in steps:
        if "siphons" in rec:
            c = {"desc": rec["desc"], "max_size": rec["max_size"], "raw": case.get("raw")}
            reqs.append(structure_request(c))
    return reqs


def judge_analyzer_history(ctx, case, steps, answers):
    spec, corr = [], []
    it = iter(answers)
    for rec in steps:
        if "siphons" not in rec:
            continue
        model = next(it)
        where = f"op {rec['n']} ({rec['op']}, max_size {rec['max_size']}) on {netio.fmt(rec['desc'])}"
        if rec.get("enc") is not None:
            corr.append((rec["n"], f"{where}: network encoder and bipartite view disagree (harness assumption): {rec['enc']}"))
            continue
        impl = {"siphons": rec["siphons"], "traps": rec["traps"]}
        d = structure_diff(impl, {"siphons": fam(model["siphons"]), "traps": fam(model["traps"])})
        if d is None:
            continue
        c = {"desc": rec["desc"], "max_size": rec["max_size"], "raw": case.get("raw")}
        sp = spec_structure(ctx, c, impl)
        if not (sp["siphons"]["holds"] and sp["traps"]["holds"]):
            spec.append((rec["n"], f"{where}: reported siphons={impl['siphons']} traps={impl['traps']}; specification: {sp}"))
        else:
            corr.append((rec["n"], f"{where}: {d}"))
    return spec, corr


def analyzer_history_verdict(ctx, case):
    steps = impl_analyzer_history(case)
    return steps, judge_analyzer_history(ctx, case, steps, ctx.lean().ok(analyzer_history_requests(case, steps)))


def run_analyzer_histories(ctx, cases, tag):
    runs = [impl_analyzer_history(c) for c in cases]
    reqs = [analyzer_history_requests(c, st) for c, st in zip(cases, runs)]
    answers = ctx.lean().ok([r for rq in reqs for r in rq], shards=8)
    # bipartite-graph histories: the expected families come from the Lean model of the graph reading applied to the live graph
    where, entries, start = [], [], 0
    for steps, rq in zip(runs, reqs):
        gated = [rec for rec in steps if "siphons" in rec]
        for k, rec in enumerate(gated):
            if "bip" in rec:
                where.append(start + k)
                entries.append((rec["bip"], rq[k]["net"], rec["max_size"]))
        start += len(rq)
    for idx, m in zip(where, lean_graph_structure(ctx, entries, tag)):
        if m is None:
            continue
        if fam(m["siphons"]) != fam(answers[idx]["siphons"]) or fam(m["traps"]) != fam(answers[idx]["traps"]):
            raise Infra("analyzer history: the model families of netOfGraph differ from those of the described network although the networks agree")
        answers[idx] = m
        ctx.count(f"bip:expected families from the Lean model of the graph reading[{tag}]")
    pos = 0
    reported, pending = 0, []
    for case, steps, rq in zip(cases, runs, reqs):
        ans = answers[pos: pos + len(rq)]
        pos += len(rq)
        spec, corr = judge_analyzer_history(ctx, case, steps, ans)
        judged = 0
        for rec in steps:
            ctx.count("analyzer-history:op=" + rec["op"] + (":ValueError" if "error" in rec else ""))
            judged += "siphons" in rec
        ctx.count(f"analyzer-history[{tag}]:" + ("bipartite-graph" if case.get("raw") else "hypergraph"))
        edits = len([o for o in case["ops"] if o["op"] in ("add", "remove", "remove_species")])
        ctx.case(["analyzer-history", case], judged >= 2 and edits >= 1,
                 sample={"stream": tag, "net": netio.fmt(case["desc"]), "ops": case["ops"],
                         "answers": [[r["n"], r.get("siphons"), r.get("traps")] for r in steps]} if len(case["ops"]) <= 5 else None)
        if spec and reported < 3:
            reported += 1

            def fails(ops):
                try:
                    return bool(ops) and bool(analyzer_history_verdict(ctx, dict(case, ops=ops))[1][0])
                except Exception:
                    return False
            small = dict(case, ops=shrink_seq(case["ops"], fails, budget=40))
            _, (sspec, _) = analyzer_history_verdict(ctx, small)
            ctx.violation("reported siphons/traps are not exactly the inclusion-minimal closed sets of the CURRENT network "
                          "(analyser / network object reused across edits)", small,
                          {"spec": [m for _, m in (sspec or spec)], "net": netio.fmt(small["desc"]), "stream": tag})
        elif corr and not spec:
            pending.append(("correspondence structure history: impl and model families differ although the specification holds",
                            case, {"diff": [m for _, m in corr], "stream": tag}))
    flush_pending(ctx, reported, pending)


# =============================================================== driver
def load_regress():
    d = ROOT / "regress" / "C20"
    return [json.loads(f.read_text()) for f in sorted(d.glob("*.json"))] if d.exists() else []


def dispatch(ctx, case, tag):
    k = case.get("stream", "structure")
    if k == "structure":
        run_structure(ctx, [{x: y for x, y in case.items() if x != "analyzer"}], tag, spec_all=True)
        if case.get("analyzer") and not ctx.violations:
            analyzer_consistent(ctx, {x: y for x, y in case.items() if x != "analyzer"}, how=case["analyzer"])
    elif k == "structure-degenerate":
        run_structure_degenerate(ctx, [case], tag)
    elif k == "firing":
        run_firing(ctx, [case], tag)
    elif k == "pr-history":
        run_pr_histories(ctx, [case], tag)
    elif k == "net-history":
        run_net_histories(ctx, [case], tag)
    elif k == "analyzer-history":
        run_analyzer_histories(ctx, [case], tag)
    else:
        run_realizable(ctx, [case], tag)


def run(ctx):
    ctx.trusted = [
        "Lean 4.33 kernel; axioms of the property theorems as listed in obligation_list",
        "hand-written model SynKitModel/Petri.lean (+ Net.lean) tied to /repo by this correspondence run (not by translation)",
        "Driver/Petri.lean, Driver/NetJson.lean JSON codecs; harness/netio.py encoder (checked against the bipartite view on every case); "
        "harness/props/c20.py adapters, canonicalisation (families as sorted lists of sorted label lists) and its exhaustive reachability oracle",
        "modelled: find_siphons, find_traps (incl. max_size), _minimal_sets, PetriNet.add_place/add_transition/enabled/fire/marking_to_tuple, "
        "build_petri_net_from_flow, is_realizable; not modelled: semiflows and the persistence test (numerical), Koenig test, scaled/borrow variants",
        "graph inputs (every structure case / analyzer history that hands over a NetworkX graph): hand-written model SynKitModel/BipGraph.lean + "
        "BipGraphViews.lean of the graph reading (_as_bipartite, _split_species_reactions, _species_order, _incident_edges, _is_siphon_indices, "
        "_is_trap_indices), Driver/BipGraph.lean (bip.structure), the serialiser c17.bip_request (NumPy scalars unwrapped by bip_graph_request); "
        "the expected families are petri.structure of the network that model reads off the live graph, which is asserted to be the described "
        "network (self-test; not modelled: the ValueError of a graph without species or reaction nodes, see the degenerate stream)",
    ]
    ctx.assumptions = [
        "species labels are distinct strings that do not start with '__ext__' or '__target__' (the code builds place names by concatenation)",
        "reaction ids are distinct (dict keys), sides are dicts with positive integer coefficients (RXNSide normalisation; C15/C16 cover the store)",
        "max_size, max_states, max_depth are non-negative integers or None",
        "plain NetworkX inputs: every node is typed by kind and/or the bipartite flag (0 species, 1 reaction; other marker values only "
        "next to kind), every arc carries role; a missing stoich is coefficient 1; a species without label is reported as str(node id); "
        "the direction an arc is written in carries no meaning (role does); the expected families are the Lean model's on the network so "
        "described (species renamed to the reported labels) - the rendering code nx_build is trusted, the code under test is not consulted",
        "numeric-types stream: a stoich written as int, float or a numpy integer / float of the same value is the same coefficient; arc / node "
        "attributes other than kind, bipartite, label, role, stoich carry no meaning; a non-string species label is reported as str(label)",
        "planted families: the construction (one reaction per choice function) is not trusted - the expected family is the Lean model's, and an "
        "exact plant that differs from the model is reported as a generator / model fault (no_input), never as a property violation",
        "an exception raised by find_siphons / find_traps on such a well-formed network is reported as a violation (no family is reported "
        "although C20 fixes it); on inputs that are no species/reaction graph (degenerate stream) a rejection is recorded, not gated",
        "run_realizability_from_rxn_strings: reactions are numbered r_1.. in the order given and parsed into the sides written (C15 / parser "
        "properties; checked on every case and reported as a harness assumption when it fails)",
        "C20 'within the search bounds' (DESIGN 5a): a firing sequence of length <= max_depth exists and at most max_states markings are reachable",
        "history streams: the pathway an is_realizable answer is judged against is the one passed to the LAST load_hypergraph_and_flow on that object "
        "(attributes are never assigned from outside); effective bounds = argument, else the object's RealizabilityConfig, else 100000/10000; "
        "an answer given before any documented (re)build (build / scaled / borrow / export) is judged by the specification only, RuntimeError is "
        "no answer; results of is_realizable_via_konig / is_scaled_realizable / is_borrow_realizable themselves are recorded, not gated "
        "(C20 does not speak about them)",
    ]
    ctx.gen_rule = (
        "regression corpus first. STRUCTURE: all networks over {A,B,C} with <=2 (quick) / <=3 (thorough) distinct unit-coefficient reactions "
        "(any reactant/product subsets incl. empty sides and catalysts), each with max_size None and one of {1,2}; random networks <=6 species, "
        "<=6 reactions, coefficients <=3, catalysts, sources, sinks, isolated species, max_size in {None,0..n+1}; hand-built bipartite graphs with "
        "zero coefficients. FIRING: random PetriNets (<=6 places, <=4 add_transition calls incl. overwritten ids, weights in -1..3), markings with "
        "missing/extra places, unknown ids. REALIZABILITY: random pathways (<=4 species quick / <=5 thorough, 2-6 reactions with a source and a sink), "
        "flows from a simulated firing sequence returning to the zero marking, perturbed flows, arbitrary small flows, negative flow; bounds generous "
        "or deliberately tight; edges in shuffled dict order or through hypergraph_to_pr_inputs; bounds via arguments or RealizabilityConfig. "
        "HISTORIES (hidden state): PR-HISTORY = 1-2 PathwayRealizability objects (default config, RealizabilityConfig generous or tight), a pool "
        "of 1-3 pathways (half of them grown along a firing sequence from a NON-zero marking back to it: closed cycles, autocatalysis, catalysts "
        "needed in several copies, borrowed species fed/drained by sources/sinks - realizable only with borrowed tokens or after scaling; the "
        "rest from the realizability generator above), 5-14 calls drawn from load, build, is_realizable (default / generous / tight bounds), "
        "is_realizable_via_konig, is_scaled_realizable(k_max<=4), is_borrow_realizable(max_borrow_each<=2), certificate, export_pnml, "
        "initial_marking/target_marking, ending in is_realizable; NET-HISTORY = 1-2 PetriNets, 6-15 interleaved add_transition (3 ids, so mostly "
        "overwrites) / add_place / enabled / fire / marking_to_tuple, markings fresh or a dict returned by an earlier fire; ANALYZER-HISTORY = "
        "1-2 PetriAnalyzers (max_siphon_size None/1/2/3) built once on a CRNHyperGraph or a hand-built bipartite DiGraph that is then edited "
        "in place (add / remove reaction, remove species, zero-coefficient arcs), compute_siphons_traps / compute_all / as_dict / "
        "check_persistence and find_siphons/find_traps (on the object or a copy) in between. "
        "PLAIN NETWORKX INPUTS (counters nx:*): random networks (<=5 species, <=4 reactions, coefficients 0..3, isolated species, a reaction "
        "node without arcs) rendered as a bipartite graph, 80 (quick) / 400 per graph class DiGraph / MultiDiGraph / Graph / MultiGraph "
        "(undirected simple graphs: no species on both sides of a reaction; multigraphs: parallel reactant + product edges), HAND-BUILT with "
        "independent uniform choices of node typing (kind / bipartite / both / per node), stoich attribute (all / none / per arc; a missing "
        "stoich counts as 1), arc direction (species->reaction for reactants / the other way round / per arc; role is the convention), node "
        "ids (prefixed strings / integers / both / bare labels), species label attribute (all / none / per node; unlabelled species are "
        "reported as str(node id)), insertion order (given / reversed / shuffled / nodes created by their arcs first), unrelated attributes; "
        "EXPORTED by hypergraph_to_bipartite with each of integer_ids, species_prefix, reaction_prefix, include_stoich, "
        "include_isolated_species, include_edge_id_attr, include_mol, bipartite_values in {(0,1),(5,7)} set with probability 1/2 to a "
        "uniform value, copied into the graph class with given or shuffled order; every 4th of these also through PetriAnalyzer "
        "(compute_siphons_traps, or compute_all + summary). DEGENERATE inputs (species only, reactions only, empty graph / hypergraph, "
        "untyped nodes, None, a list): rejection recorded, a returned family gated. At the very end 2 x 16 (quick) exported graphs whose "
        "bipartite markers reuse 0/1 with the other meaning ((1,2),(1,1) | (1,0),(2,0)), one reported input per group, class "
        "nonstandard-bipartite-markers. REALIZABILITY, other entry points: 120 (quick) pathways through hypergraph_to_pr_inputs(H) without a "
        "flow (all-ones flow) and through run_realizability_from_rxn_strings (three spellings of the reaction strings, list or iterator, flow "
        "None or given for every edge, verbose on/off, default bounds 100000/10000). "
        "PLANTED FAMILIES (counters plant:*, structure:siphons:* / structure:traps:*): 420 (quick) / 4200 networks over 4-7 species whose "
        "minimal siphons (or, reversed, traps) are a chosen antichain, 1/7 each of the shapes random (2-6 sets of mixed sizes), "
        "cover+larger (sets of one size k touching every species + 1-2 larger sets containing none of them), star ({c,x} for all x + "
        "the rest), layer (half or more of the k-subsets), staircase (disjoint sets of sizes 1,2,3..), only-large (nothing below size "
        "n-1), gap (a singleton and sets of size >=3); one reaction per choice function (<=24 per species, else sampled), clauses with "
        "one reactant set merged into a multi-product reaction or not, 15% a duplicated reaction, 15% an unrelated reaction, "
        "coefficients unit / 1..3 / from {1,2,10,12,25,50,100,2500}, max_size None (70%) or around the sizes of the family; handed over as "
        "CRNHyperGraph (3/8) or as raw / re-rendered / hand-built / exported / numeric-typed NetworkX graph (1/8 each); every 7th also "
        "through PetriAnalyzer; a quarter of the ANALYZER-HISTORY networks start from such a network (4-5 species). DENSE: 250 / 2500 "
        "networks over 4-7 species where every species is produced (or, reversed, consumed) by 1-3 reactions with 1-3 other species. "
        "FOUR SPECIES: reactions R >> p over {A,B,C,D} (R non-empty, p not in R: 28) - quick 300 random 4-sets in a random orientation, "
        "thorough ALL sets of <=4 of them and all sets of their reverses. NUMERIC TYPES: 160 / 1600 hand-built graphs (all four classes), "
        "half planted, half random with coefficients up to 3 / 12 / 2500, stoich written as int / float / numpy.int32 / int64 / float64 "
        "mixed within one graph, unselected arc attributes weight / label / id / name / capacity with misleading values, node "
        "attributes weight / name / id / capacity, bipartite flag as 0 / 0.0 / numpy.int64(0) next to kind, integer node ids from 0, "
        "integer species labels (reported as str).")
    ctx.nontrivial_rule = ("structure: >=2 reactions and at least one siphon or trap; firing: some query enabled; "
                           "realizability: total flow >=2 on >=2 reactions; pr-history: >=2 judged is_realizable answers; net-history: some "
                           "query enabled; analyzer-history: >=2 judged families and >=1 edit; distinct as JSON values")
    build_and_audit_scoped(ctx, "SynKitProofs.Props.C20", "SynKitProofs/Audit/C20.lean", THEOREMS)

    for c in load_regress():
        dispatch(ctx, c["case"] if "case" in c else c, "regress")
        ctx.count("regress_cases")
        if c.get("expect") and c["case"].get("stream") == "structure":
            # the answer written into the corpus file by hand: impl and model must both give it
            want = {k: fam(c["expect"][k]) for k in ("siphons", "traps")}
            model = ctx.lean().ok([structure_request(c["case"])])[0]
            if {k: fam(model[k]) for k in ("siphons", "traps")} != want:
                ctx.violation("model answer differs from the answer recorded in the regression corpus (model / driver / encoder drift)",
                              c["case"], {"model": model, "expect": want}, no_input=True)
            elif impl_structure(c["case"]) != want and not ctx.violations:
                ctx.violation("reported siphons/traps are not exactly the inclusion-minimal closed sets", c["case"],
                              {"impl": impl_structure(c["case"]), "expect": want, "stream": "regress"})
    if ctx.violations:
        ctx.obligation("correspondence: regression inputs", False)
        return

    # ---- structure
    rnd = ctx.rnd
    unit = unit_reactions(["A", "B", "C"])
    depth = 2 if ctx.quick else 3
    cases = []
    for k in range(1, depth + 1):
        for combo in itertools.combinations(range(len(unit)), k):
            desc = {"reactions": with_ids([unit[i] for i in combo])}
            cases.append({"stream": "structure", "desc": desc, "max_size": None})
            if k >= 2 and (ctx.quick or rnd.random() < 0.25):
                cases.append({"stream": "structure", "desc": desc, "max_size": rnd.choice([1, 2])})
    if ctx.quick:
        for _ in range(1500):
            combo = rnd.sample(range(len(unit)), 3)
            cases.append({"stream": "structure", "desc": {"reactions": with_ids([unit[i] for i in combo])},
                          "max_size": rnd.choice([None, None, 1, 2])})
    run_structure(ctx, cases, "exhaustive-3-species")
    ctx.extra["exhaustive"] = True
    ctx.extra["exhaustive_part"] = f"structure stream: all sets of <= {depth} distinct unit-coefficient reactions over 3 species ({len(unit)} reactions)"
    if not ctx.violations:
        nrand = 400 if ctx.quick else 4000
        rc = []
        for _ in range(nrand):
            desc = random_desc(rnd)
            n = len(netio.to_net_json(desc)["species"])
            rc.append({"stream": "structure", "desc": desc, "max_size": rnd.choice([None, None, None, 0, 1, 2, 3, n + 1])})
        run_structure(ctx, rc, "random", spec_all=True)
        for c in rc[: 60 if ctx.quick else 400]:
            analyzer_consistent(ctx, c)
    if not ctx.violations:
        raw = []
        for _ in range(100 if ctx.quick else 800):
            desc = random_desc(rnd, max_species=4, max_rxn=4)
            for r in desc["reactions"]:
                for side in ("r", "p"):
                    for ent in r[side]:
                        if rnd.random() < 0.25:
                            ent[1] = 0
            desc["isolated"] = []
            raw.append({"stream": "structure", "desc": desc, "max_size": rnd.choice([None, None, 2]), "raw": True})
        run_structure(ctx, raw, "raw-bipartite-zero-coefficients", spec_all=True)
    if not ctx.violations:
        # the same kind of hand-built graphs in the other documented renderings (option / input-shape variation)
        var = []
        for i in range(240 if ctx.quick else 1600):
            desc = random_desc(rnd, max_species=5, max_rxn=4)
            render = ["int-ids", "no-label", "undirected"][i % 3]
            if render == "undirected":
                for r in desc["reactions"]:
                    on_r = {sp for sp, _ in r["r"]}
                    r["p"] = [e for e in r["p"] if e[0] not in on_r]
                desc["reactions"] = [r for r in desc["reactions"] if r["r"] or r["p"]] or [{"id": "r_1", "rule": "r", "r": [["A", 1]], "p": []}]
            for r in desc["reactions"]:
                for side in ("r", "p"):
                    for ent in r[side]:
                        if rnd.random() < 0.1:
                            ent[1] = 0
            desc["isolated"] = ["Z"] if rnd.random() < 0.15 else []
            var.append({"stream": "structure", "desc": desc, "max_size": rnd.choice([None, None, 1, 2, 3]), "raw": True, "render": render})
        run_structure(ctx, var, "raw-bipartite-renderings", spec_all=True)
    if not ctx.violations:
        # plain NetworkX inputs in every documented variation (see the table above `nx_build`)
        n_each = 80 if ctx.quick else 400
        hand = [random_nx_case(rnd, "hand", cls) for cls in NX_CLASSES for _ in range(n_each)]
        run_structure(ctx, hand, "networkx-hand-built", spec_all=True)
        if not ctx.violations:
            exp = [random_nx_case(rnd, "export", cls) for cls in NX_CLASSES for _ in range(n_each)]
            run_structure(ctx, exp, "networkx-exported", spec_all=True)
            for i, c in enumerate((hand + exp)[:: 4 if ctx.quick else 8]):
                if not ctx.violations:
                    analyzer_consistent(ctx, c, how="summary" if i % 2 else "siphons_traps")
    if not ctx.violations:
        for i, c in enumerate(rc[60: 90 if ctx.quick else 400]):
            analyzer_consistent(ctx, c, how="summary")
        run_structure_degenerate(ctx, degenerate_cases(rnd), "degenerate")
    if not ctx.violations:
        # families of every shape (see PLANT_SHAPES): the subset search has to get through mixed sizes, covers, gaps, late hits
        pc = [planted_case(rnd, i) for i in range(420 if ctx.quick else 4200)]
        run_structure(ctx, pc, "planted-family", spec_all=True)
        for i, c in enumerate(pc[:: 7 if ctx.quick else 14]):
            if not ctx.violations:
                analyzer_consistent(ctx, {k: v for k, v in c.items() if k not in ("plant", "via")}, how="summary" if i % 2 else "siphons_traps")
    if not ctx.violations:
        dc = []
        for _ in range(250 if ctx.quick else 2500):
            desc = dense_desc(rnd)
            dc.append({"stream": "structure", "desc": desc, "max_size": rnd.choice([None, None, None, 2, 3, len(desc["reactions"])])})
        run_structure(ctx, dc, "dense-every-species-produced", spec_all=True)
    if not ctx.violations:
        # one species more than the exhaustive stream: {A,B,C,D}, reactions R >> p (R non-empty, p not in R; 28 of them) and their
        # reverses; thorough: ALL sets of <= 4 such reactions in both orientations, quick: a sample of the 4-sets
        cl = clause_reactions(["A", "B", "C", "D"])
        combos = []
        if ctx.quick:
            combos = [sorted(rnd.sample(range(len(cl)), 4)) for _ in range(300)]
        else:
            for k in range(1, 5):
                combos.extend(itertools.combinations(range(len(cl)), k))
        four = []
        for j, combo in enumerate(combos):
            for rev in ((rnd.random() < 0.5,) if ctx.quick else (False, True)):
                rs = [dict(r=cl[i]["p"], p=cl[i]["r"]) if rev else cl[i] for i in combo]
                four.append({"stream": "structure", "desc": {"reactions": with_ids(rs)}, "max_size": None})
        run_structure(ctx, four, "four-species-clause-reactions")
        if not ctx.quick:
            ctx.extra["exhaustive_part"] += (f"; all sets of <= 4 distinct reactions R >> p (and all sets of their reverses) over 4 species "
                                             f"({len(cl)} reactions, {len(four)} networks)")
    if not ctx.violations:
        # equal numbers in several Python types, unselected library-default attributes, falsy ids (see `numeric_build`)
        nc = []
        for i in range(160 if ctx.quick else 1600):
            if i % 2:
                desc, plant = planted_desc(rnd)
                c = {"stream": "structure", "desc": desc, "max_size": None, "plant": plant, "via": "nx-numeric"}
            else:
                desc = random_desc(rnd, max_species=5, max_rxn=4, cmax=rnd.choice([3, 3, 12, 2500]))
                c = {"stream": "structure", "desc": desc, "max_size": rnd.choice([None, None, 1, 2, 3])}
            cls = NX_CLASSES[(i // 2) % 4]
            if cls == "Graph":
                c["desc"] = strip_catalysts(c["desc"])
            c.update(raw=True, numeric={"cls": cls, "rseed": rnd.randrange(1 << 30)})
            nc.append(c)
        run_structure(ctx, nc, "networkx-numeric-types", spec_all=True)
        for i, c in enumerate(nc[::8]):
            if not ctx.violations:
                analyzer_consistent(ctx, {k: v for k, v in c.items() if k not in ("plant", "via")}, how="summary" if i % 2 else "siphons_traps")
    ctx.obligation("correspondence: find_siphons / find_traps / PetriAnalyzer == model, families as sets of label sets",
                   not ctx.violations)

    # ---- firing
    nv = len(ctx.violations)
    run_firing(ctx, [random_net_case(rnd) for _ in range(400 if ctx.quick else 4000)], "random")
    ctx.obligation("correspondence: PetriNet add_transition/enabled/fire/marking_to_tuple == model", len(ctx.violations) == nv)

    # ---- realizability
    nv = len(ctx.violations)
    pcs = [dict(random_pathway_case(rnd, max_species=3 if i % 3 == 0 else (4 if ctx.quick else 5), small=(i % 3 == 0)), stream="realizable")
           for i in range(500 if ctx.quick else 5000)]
    pcs.append({"stream": "realizable", "desc": {"reactions": []}, "flow": [], "max_states": 10, "max_depth": 10, "kind": "empty"})
    run_realizable(ctx, pcs, "random")
    if len(ctx.violations) == nv:
        rare = []
        for i in range(150 if ctx.quick else 1500):
            c = random_pathway_case(rnd, max_species=3 if i % 3 == 0 else 4, small=(i % 3 == 0))
            c["via_hypergraph"] = False
            if "edge_order" not in c:
                c["edge_order"] = list(range(len(c["desc"]["reactions"])))
            rare.append(dict(decorate_pathway(rnd, c), stream="realizable"))
        run_realizable(ctx, rare, "rare-input-shapes")
    if len(ctx.violations) == nv:
        run_realizable(ctx, [entry_point_case(rnd, i) for i in range(120 if ctx.quick else 1200)], "other-entry-points")
    ctx.obligation("correspondence: extended net, verdict under equal bounds == model; certificate valid (Lean spec); "
                   "verdict consistent with exhaustive reachability", len(ctx.violations) == nv)

    # ---- histories: objects reused across queries (answers judged per query, independent of the history)
    nv = len(ctx.violations)
    run_pr_histories(ctx, [random_pr_history(rnd, max_species=3 if i % 2 == 0 else 4) for i in range(600 if ctx.quick else 5000)], "history")
    ctx.obligation("histories on PathwayRealizability objects (all public methods, random order, one or two objects): every is_realizable "
                   "answer satisfies the specification of the pathway loaded at that moment and equals the model verdict", len(ctx.violations) == nv)
    nv = len(ctx.violations)
    run_net_histories(ctx, [random_net_history(rnd) for _ in range(300 if ctx.quick else 3000)], "history")
    ctx.obligation("histories on PetriNet objects (overwritten transitions, markings returned by fire passed in again, two nets interleaved): "
                   "every enabled/fire answer follows the firing rule of the transition as defined at that moment", len(ctx.violations) == nv)
    nv = len(ctx.violations)
    run_analyzer_histories(ctx, [random_analyzer_history(rnd) for _ in range(200 if ctx.quick else 2000)], "history")
    ctx.obligation("histories on PetriAnalyzer / network objects edited in place: every computed siphon/trap family is that of the "
                   "network as it is at that moment", len(ctx.violations) == nv)

    # ---- last, so that nothing above is cut short by it: exported graphs whose `bipartite` markers reuse 0 / 1 with the other
    # meaning (one reported input per group: species marker 1 / reaction marker 0); violations carry MARKER_CLASS
    for group in (NX_CONFLICTING_MARKERS[::3], NX_CONFLICTING_MARKERS[1:3]):
        mk = []
        for i in range(16 if ctx.quick else 160):
            c = random_nx_case(rnd, "export", NX_CLASSES[i % 4])
            c["nx"]["opts"]["bipartite_values"] = group[(i // 4) % 2]
            mk.append(c)
        run_structure(ctx, mk, "networkx-exported-marker-values", spec_all=True, max_new=1)


def replay(ctx, case):
    dispatch(ctx, case["case"], "replay")

"""C20 — siphons, traps, Petri firing and pathway realizability match their Petri-net definitions.

Three correspondence streams tie `lean/SynKitModel/Petri.lean` (about which Props/C20.lean proves
the property) to the working tree:

* structure: `find_siphons` / `find_traps` (and `PetriAnalyzer`) vs the model, families compared as
  sets of label sets; on a difference the Lean command `spec.petri.minimal` evaluates the right-hand
  side of `siphons_spec` / `traps_spec` on what the implementation returned;
* firing: `PetriNet.add_transition / enabled / fire / marking_to_tuple` vs the model on random nets,
  markings (with missing places) and ids (unknown id -> KeyError);
* realizability: the extended net (`M0`, `MT`, arcs), the verdict with the same bounds, validity of
  the implementation's own certificate (`spec.petri.certificate`, the hypothesis of the proved
  `certificate_check_sound`), and the verdict against an exhaustive reachability search written here.
"""
import itertools
import json
from collections import deque

from ..core import ROOT
from ..leanscope import build_and_audit_scoped
from ..shrink import shrink_seq
from .. import netio

THEOREMS = [
    "SynKit.Petri.minimalSets_spec",
    "SynKit.Petri.closure_predicates_spec",
    "SynKit.Petri.siphons_spec",
    "SynKit.Petri.traps_spec",
    "SynKit.Petri.siphons_traps_spec_unbounded",
    "SynKit.Petri.findSiphons_labels",
    "SynKit.Petri.enabled_spec",
    "SynKit.Petri.fire_spec",
    "SynKit.Petri.realizable_sound",
    "SynKit.Petri.certificate_check_sound",
    "SynKit.Petri.bfs_never_fuelOut",
    "SynKit.Petri.bfs_complete_partial",
]

SPEC_LIMIT = 10_000  # markings explored by the exhaustive oracle


# =============================================================== structure (siphons / traps)
def fam(x):
    return sorted(sorted(s) for s in x)


def impl_structure(case):
    from synkit.CRN.Petri import find_siphons, find_traps

    if case.get("raw"):
        crn = netio.to_bipartite_raw(case["desc"])
    else:
        crn = netio.to_hypergraph(case["desc"])
    ms = case.get("max_size")
    return {"siphons": fam(find_siphons(crn, max_size=ms)), "traps": fam(find_traps(crn, max_size=ms))}


def net_json(case):
    return netio.to_net_json_raw(case["desc"]) if case.get("raw") else netio.to_net_json(case["desc"])


def structure_request(case):
    return {"cmd": "petri.structure", "net": net_json(case), "max_size": case.get("max_size")}


def structure_diff(impl, model):
    for k in ("siphons", "traps"):
        if impl[k] != model[k]:
            return f"{k}: impl={impl[k]} model={model[k]}"
    return None


def spec_structure(ctx, case, impl):
    """Lean verdict of the specification on the implementation's own answer."""
    reqs = [{"cmd": "spec.petri.minimal", "net": net_json(case), "max_size": case.get("max_size"), "kind": kind,
             "family": impl[key]} for kind, key in (("siphon", "siphons"), ("trap", "traps"))]
    a, b = ctx.lean().ok(reqs)
    return {"siphons": a, "traps": b}


def structure_fails(ctx, case):
    """True when the implementation's answer violates the specification on this input."""
    try:
        impl = impl_structure(case)
    except Exception:
        return False
    sp = spec_structure(ctx, case, impl)
    return not (sp["siphons"]["holds"] and sp["traps"]["holds"])


def shrink_structure(ctx, case):
    rs = case["desc"]["reactions"]

    def fails(cand):
        return bool(cand) and structure_fails(ctx, dict(case, desc=dict(case["desc"], reactions=cand)))
    small = shrink_seq(rs, fails, budget=120)
    out = dict(case, desc=dict(case["desc"], reactions=small))
    # lower coefficients
    for r in out["desc"]["reactions"]:
        for side in ("r", "p"):
            for ent in r[side]:
                if ent[1] > 1:
                    old = ent[1]
                    ent[1] = 1
                    if not structure_fails(ctx, out):
                        ent[1] = old
    return out


def run_structure(ctx, cases, tag, spec_all=False):
    if not cases:
        return
    models = ctx.lean().ok([structure_request(c) for c in cases], shards=8)
    pending_spec = []
    for case, model in zip(cases, models):
        if not case.get("raw"):
            msg = netio.check_encoding(case["desc"])
            if msg is not None:
                ctx.violation("network encoder and bipartite view disagree (harness assumption, not the property)",
                              case, {"detail": msg, "stream": tag}, no_input=True)
                continue
        impl = impl_structure(case)
        n_sp = len(net_json(case)["species"])
        ctx.count(f"structure[{tag}]")
        ctx.count(f"structure:species={n_sp}")
        ctx.count(f"structure:siphons={min(len(impl['siphons']), 3)}{'+' if len(impl['siphons']) >= 3 else ''}")
        ctx.count(f"structure:traps={min(len(impl['traps']), 3)}{'+' if len(impl['traps']) >= 3 else ''}")
        ctx.count("structure:max_size=" + ("None" if case.get("max_size") is None else "given"))
        nontrivial = bool(model["siphons"] or model["traps"]) and len(case["desc"]["reactions"]) >= 2
        ctx.case(["structure", case], nontrivial,
                 sample={"stream": tag, "net": netio.fmt(case["desc"]), "max_size": case.get("max_size"),
                         "siphons": impl["siphons"], "traps": impl["traps"]} if len(case["desc"]["reactions"]) <= 3 else None)
        d = structure_diff(impl, {"siphons": fam(model["siphons"]), "traps": fam(model["traps"])})
        if d is None:
            if spec_all:
                pending_spec.append((case, impl))
            continue
        sp = spec_structure(ctx, case, impl)
        if not (sp["siphons"]["holds"] and sp["traps"]["holds"]):
            small = shrink_structure(ctx, case)
            simpl = impl_structure(small)
            ctx.violation("reported siphons/traps are not exactly the inclusion-minimal closed sets",
                          small, {"impl": simpl, "spec": spec_structure(ctx, small, simpl), "stream": tag,
                                  "net": netio.fmt(small["desc"]), "original": netio.fmt(case["desc"])})
        else:
            ctx.violation("correspondence structure: impl and model families differ although the specification holds",
                          case, {"diff": d, "stream": tag}, no_input=True)
        if len(ctx.violations) >= 5:
            return
    # independent spec evaluation on the implementation's answers (brute force, not `_minimal_sets`)
    if pending_spec:
        reqs = []
        for case, impl in pending_spec:
            for kind, key in (("siphon", "siphons"), ("trap", "traps")):
                reqs.append({"cmd": "spec.petri.minimal", "net": net_json(case), "max_size": case.get("max_size"),
                             "kind": kind, "family": impl[key]})
        reps = ctx.lean().ok(reqs, shards=8)
        for i, (case, impl) in enumerate(pending_spec):
            if not (reps[2 * i]["holds"] and reps[2 * i + 1]["holds"]):
                ctx.violation("brute-force specification rejects an answer on which impl and model agree (model/spec mismatch)",
                              case, {"impl": impl, "spec": [reps[2 * i], reps[2 * i + 1]]}, no_input=True)
                return
            ctx.count("structure:spec_checked")


def analyzer_consistent(ctx, case):
    """`PetriAnalyzer` must hand out what `find_siphons` / `find_traps` return."""
    from synkit.CRN.Petri import PetriAnalyzer

    H = netio.to_hypergraph(case["desc"])
    an = PetriAnalyzer(H, max_siphon_size=case.get("max_size")).compute_siphons_traps()
    got = {"siphons": fam(an.siphons), "traps": fam(an.traps)}
    want = impl_structure(case)
    ctx.count("structure:analyzer_checked")
    if got != want:
        ctx.violation("PetriAnalyzer reports other siphons/traps than find_siphons/find_traps", case,
                      {"analyzer": got, "functions": want})


def unit_reactions(species):
    subs = [list(c) for k in range(len(species) + 1) for c in itertools.combinations(species, k)]
    out = []
    for r in subs:
        for p in subs:
            if r or p:
                out.append({"r": [[s, 1] for s in r], "p": [[s, 1] for s in p]})
    return out


def with_ids(rs):
    return [dict(r, id=f"r_{i + 1}") for i, r in enumerate(rs)]


def random_desc(rnd, max_species=6, max_rxn=6, cmax=3):
    sp = list("ABCDEF")[: rnd.randint(2, max_species)]
    n = rnd.randint(1, max_rxn)
    rs = []
    for i in range(n):
        kind = rnd.random()

        def side(lo, hi):
            k = rnd.randint(lo, min(hi, len(sp)))
            return [[s, rnd.randint(1, cmax) if rnd.random() < 0.4 else 1] for s in rnd.sample(sp, k)]
        if kind < 0.12:
            r, p = [], side(1, 2)  # source
        elif kind < 0.24:
            r, p = side(1, 2), []  # sink
        elif kind < 0.45:
            r = side(1, 2)  # catalyst: a reactant reappears among the products
            cat = rnd.choice(r)[0]
            p = [e for e in side(0, 2) if e[0] != cat] + [[cat, rnd.randint(1, cmax)]]
        else:
            r, p = side(1, 3), side(1, 3)
        rid = rnd.choice([f"r_{i + 1}", f"R{i}", f"x{9 - i}", f"r_{10 + i}"])
        rs.append({"id": rid, "rule": rnd.choice(["r", "R1", None]), "r": r, "p": p})
    if len({r["id"] for r in rs}) < len(rs):
        rs = with_ids(rs)
    iso = ["Z"] if rnd.random() < 0.1 else []
    return {"reactions": rs, "isolated": iso}


# =============================================================== firing rule
def impl_net_run(case):
    from synkit.CRN.Petri import PetriNet

    net = PetriNet()
    for t in case["transitions"]:
        net.add_transition(t["tid"], dict(map(tuple, t["pre"])), dict(map(tuple, t["post"])))
    res = []
    for q in case["queries"]:
        m = dict(map(tuple, q["marking"]))
        m_before = dict(m)
        try:
            en = bool(net.enabled(m, q["tid"]))
        except KeyError:
            en = "KeyError"
        try:
            f = net.fire(m, q["tid"])
            f = sorted([k, int(v)] for k, v in f.items())
        except KeyError:
            f = "KeyError"
        tup = net.marking_to_tuple(m)
        res.append({"enabled": en, "fire": f, "mutated": m != m_before,
                    "tuple": {p: int(tup[i]) for p, i in net._place_index.items()}})
    return {"places": sorted(net.places), "index_places": sorted(net._place_index),
            "index_values": sorted(net._place_index.values()),
            "transitions": list(net.transitions),
            "arcs": [{"tid": t.tid, "pre": sorted([k, int(v)] for k, v in t.pre.items()),
                      "post": sorted([k, int(v)] for k, v in t.post.items())} for t in net.transitions.values()],
            "results": res}


def net_run_diff(impl, model):
    if impl["places"] != model["places"] or impl["index_places"] != model["places"]:
        return f"places impl={impl['places']} model={model['places']}"
    if impl["index_values"] != list(range(len(model["places"]))):
        return f"_place_index is not a numbering 0..n-1: {impl['index_values']}"
    if impl["transitions"] != model["transitions"]:
        return f"transition order impl={impl['transitions']} model={model['transitions']}"
    if impl["arcs"] != model["arcs"]:
        return f"arcs impl={impl['arcs']} model={model['arcs']}"
    for i, (a, b) in enumerate(zip(impl["results"], model["results"])):
        if a["mutated"]:
            return f"query {i}: the marking passed in was mutated"
        if a["enabled"] != b["enabled"]:
            return f"query {i}: enabled impl={a['enabled']} model={b['enabled']}"
        if a["fire"] != b["fire"]:
            return f"query {i}: fire impl={a['fire']} model={b['fire']}"
        if b["enabled"] != "KeyError":
            mt = dict(zip(model["place_order"], b["tuple"]))
            if a["tuple"] != mt:
                return f"query {i}: marking_to_tuple impl={a['tuple']} model={mt}"
    return None


def random_net_case(rnd):
    places = ["p", "q", "r", "s", "A", "__ext__e"][: rnd.randint(1, 6)]
    tids = ["t1", "t2", "t3", "t1"]
    ts = []
    for _ in range(rnd.randint(1, 4)):
        def arcs():
            return [[p, rnd.choice([1, 1, 2, 3, 0, -1])] for p in rnd.sample(places, rnd.randint(0, min(3, len(places))))]
        ts.append({"tid": rnd.choice(tids), "pre": arcs(), "post": arcs()})
    qs = []
    for _ in range(rnd.randint(1, 5)):
        m = [[p, rnd.choice([0, 0, 1, 2, 3, 5, -1])] for p in places + ["zz"] if rnd.random() < 0.7]
        qs.append({"marking": m, "tid": rnd.choice(tids[:3] + ["nope"] if rnd.random() < 0.15 else tids[:3])})
    return {"transitions": ts, "queries": qs}


def fire_spec_check(case, impl):
    """The firing rule itself, evaluated on the implementation's answers (Python mirror of
    enabled_spec / fire_spec; dict arcs have one weight per place)."""
    cur = {}
    for t in case["transitions"]:
        cur[t["tid"]] = (dict(map(tuple, t["pre"])), dict(map(tuple, t["post"])))
    for q, res in zip(case["queries"], impl["results"]):
        if q["tid"] not in cur:
            if res["enabled"] != "KeyError" or res["fire"] != "KeyError":
                return f"unknown transition {q['tid']} did not raise KeyError"
            continue
        pre, post = cur[q["tid"]]
        m = dict(map(tuple, q["marking"]))
        want_en = all(m.get(p, 0) >= w for p, w in pre.items())
        if res["enabled"] != want_en:
            return f"enabled({q}) = {res['enabled']}, the marking {'covers' if want_en else 'does not cover'} the reactants"
        got = dict(map(tuple, res["fire"]))
        for p in set(m) | set(pre) | set(post) | set(got):
            if got.get(p, 0) != m.get(p, 0) - pre.get(p, 0) + post.get(p, 0):
                return f"fire({q}) changes place {p} by {got.get(p, 0) - m.get(p, 0)}, products - reactants = {post.get(p, 0) - pre.get(p, 0)}"
    return None


def run_firing(ctx, cases, tag):
    models = ctx.lean().ok([dict(c, cmd="petri.net.run") for c in cases], shards=8)
    for case, model in zip(cases, models):
        impl = impl_net_run(case)
        for r in impl["results"]:
            ctx.count("firing:enabled=" + str(r["enabled"]))
        ctx.case(["firing", case], any(r["enabled"] is True for r in impl["results"]),
                 sample={"stream": tag, **case} if len(case["transitions"]) == 1 and len(case["queries"]) == 1 else None)
        d = net_run_diff(impl, model)
        if d is None:
            continue
        s = fire_spec_check(case, impl)
        if s is not None:
            def fails(qs):
                c = dict(case, queries=qs)
                return bool(qs) and fire_spec_check(c, impl_net_run(c)) is not None
            small = dict(case, queries=shrink_seq(case["queries"], fails, budget=40))
            ctx.violation("PetriNet.enabled/fire do not follow the firing rule", small,
                          {"spec": fire_spec_check(small, impl_net_run(small)), "stream": tag})
        else:
            ctx.violation("correspondence firing: PetriNet differs from the model although the firing rule holds",
                          case, {"diff": d, "stream": tag}, no_input=True)
        if len(ctx.violations) >= 5:
            return


# =============================================================== realizability
def pathway_of(case):
    """-> vertices (list), edges (ordered list of rxn dicts with id/r/p), flow (list of pairs)."""
    rs = netio.reactions_of(case["desc"])
    order = case.get("edge_order")
    if order is not None:
        rs = [rs[i] for i in order]
    species = sorted({s for r in rs for s, _ in r["r"] + r["p"]} | set(case["desc"].get("isolated", [])))
    return species, rs, [[k, int(v)] for k, v in case["flow"]]


def impl_realizable(case):
    from synkit.CRN.Path.realizability import PathwayRealizability, RealizabilityConfig, hypergraph_to_pr_inputs

    vertices, rs, flow = pathway_of(case)
    fl = dict(map(tuple, flow))
    ms, md = case["max_states"], case["max_depth"]
    if case.get("via_hypergraph"):
        H = netio.to_hypergraph(case["desc"])
        v, e, f = hypergraph_to_pr_inputs(H, flow={r["id"]: fl.get(r["id"], 0) for r in rs})
    else:
        v = list(vertices)
        e = {r["id"]: (dict(map(tuple, r["r"])), dict(map(tuple, r["p"]))) for r in rs}
        f = fl
    if case.get("via_config"):
        pr = PathwayRealizability(RealizabilityConfig(max_states=ms, max_depth=md))
    else:
        pr = PathwayRealizability()
    pr.load_hypergraph_and_flow(v, e, f)
    try:
        pr.build_petri_net_from_flow()
    except RuntimeError:
        return {"verdict": "RuntimeError"}
    net = pr.petri
    out = {"places": sorted(net.places), "transitions": list(net.transitions),
           "arcs": [{"tid": t.tid, "pre": sorted([k, int(w)] for k, w in t.pre.items()),
                     "post": sorted([k, int(w)] for k, w in t.post.items())} for t in net.transitions.values()],
           "M0": sorted([k, int(w)] for k, w in pr.initial_marking.items()),
           "MT": sorted([k, int(w)] for k, w in pr.target_marking.items())}
    ok, cert = pr.is_realizable() if case.get("via_config") else pr.is_realizable(max_states=ms, max_depth=md)
    out["verdict"] = "found" if ok else "notFound"
    out["seq"] = None if cert is None else list(cert)
    out["cert_attr"] = None if pr.certificate is None else list(pr.certificate)
    return out


def realizable_request(case, cmd="petri.realizable", **kw):
    vertices, rs, flow = pathway_of(case)
    if case.get("via_hypergraph"):
        # hypergraph_to_pr_inputs: edges in the store's insertion order, flow given for every edge
        rs = netio.reactions_of(case["desc"])
        fl = dict(map(tuple, flow))
        flow = [[r["id"], fl.get(r["id"], 0)] for r in rs]
    return {"cmd": cmd, "vertices": vertices, "edges": rs, "flow": flow, "max_states": case["max_states"],
            "max_depth": case["max_depth"], **kw}


def exhaustive(case, limit=SPEC_LIMIT):
    """Independent oracle: breadth-first search over ALL markings of the extended net reachable from
    M0 (species counts, remaining supply per edge).  -> (number of reachable markings or None when
    more than `limit`, length of a shortest firing sequence to MT or None)."""
    vertices, rs, flow = pathway_of(case)
    fl = dict(map(tuple, flow))
    if case.get("via_hypergraph"):
        rs = netio.reactions_of(case["desc"])
    idx = {s: i for i, s in enumerate(vertices)}
    n = len(vertices)
    supply = tuple(fl.get(r["id"], 0) for r in rs)
    start = (tuple([0] * n), supply)
    goal = (tuple([0] * n), tuple([0] * len(rs)))
    if any(x < 0 for x in supply):
        return 1, None  # a negative supply can never be brought to its target
    if start == goal:
        return 1, 0
    dist = {start: 0}
    q = deque([start])
    best = None
    while q:
        cur = q.popleft()
        sp, sup = cur
        for j, r in enumerate(rs):
            if sup[j] < 1 or any(sp[idx[s]] < c for s, c in r["r"]):
                continue
            new = list(sp)
            for s, c in r["r"]:
                new[idx[s]] -= c
            for s, c in r["p"]:
                new[idx[s]] += c
            nsup = list(sup)
            nsup[j] -= 1
            nxt = (tuple(new), tuple(nsup))
            if nxt not in dist:
                dist[nxt] = dist[cur] + 1
                if nxt == goal and best is None:
                    best = dist[nxt]
                if len(dist) > limit:
                    return None, best
                q.append(nxt)
    return len(dist), best


def realizable_spec(ctx, case, impl):
    """-> None when the implementation's answer satisfies C20's realizability clauses on this input,
    else a description.  Uses the Lean certificate check and the exhaustive oracle."""
    if impl["verdict"] == "RuntimeError":
        return None
    if impl["verdict"] == "found":
        if impl["seq"] is None:
            return "verdict True without a firing sequence"
        rep = ctx.lean().ok([realizable_request(case, "spec.petri.certificate", seq=impl["seq"])])[0]
        if not rep["valid"]:
            return f"returned sequence {impl['seq']} is not a valid firing sequence from M0 to MT (Lean validCertificate = false)"
        if not rep["counts_ok"]:
            return f"returned sequence {impl['seq']} does not fire every reaction flow(e) times"
        return None
    size, d = exhaustive(case)
    if size is not None and d is not None and d <= case["max_depth"] and size <= case["max_states"]:
        return (f"reported unrealizable although a firing sequence of length {d} <= max_depth={case['max_depth']} exists and "
                f"only {size} <= max_states={case['max_states']} markings are reachable")
    return None


def shrink_realizable(ctx, case):
    def bad(c):
        try:
            return realizable_spec(ctx, c, impl_realizable(c)) is not None
        except Exception:
            return False
    rs = case["desc"]["reactions"]

    def fails(cand):
        return bool(cand) and bad(dict(case, desc=dict(case["desc"], reactions=cand), edge_order=None))
    small_rs = shrink_seq(rs, fails, budget=60)
    out = dict(case, desc=dict(case["desc"], reactions=small_rs), edge_order=None)
    if not bad(out):
        return case
    ids = {r["id"] for r in small_rs}
    out["flow"] = [[k, v] for k, v in out["flow"] if k in ids]
    for ent in out["flow"]:
        while ent[1] > 0:
            ent[1] -= 1
            if not bad(out):
                ent[1] += 1
                break
    return out


def run_realizable(ctx, cases, tag):
    models = ctx.lean().ok([realizable_request(c) for c in cases], shards=8)
    for case, model in zip(cases, models):
        impl = impl_realizable(case)
        if model["verdict"] == "fuelOut":
            ctx.violation("model BFS ran out of fuel (contradicts bfs_never_fuelOut)", case, None, no_input=True)
            return
        size, d = exhaustive(case)
        ctx.count(f"realizable[{tag}]")
        ctx.count("realizable:impl=" + impl["verdict"])
        ctx.count(f"realizable:flow-kind={case.get('kind')}:{impl['verdict']}")
        ctx.count("realizable:oracle=" + ("too-large" if size is None and d is None else "reachable" if d is not None else "unreachable"))
        if model["verdict"] == "notFound":
            ctx.count("realizable:notFound-bounds=" + (("states " if model["hit_states"] else "") + ("depth" if model["skipped_depth"] else "") or "untouched"))
        tot = sum(max(v, 0) for _, v in case["flow"])
        ctx.case(["realizable", case], tot >= 2 and len(case["desc"]["reactions"]) >= 2,
                 sample={"stream": tag, "net": netio.fmt(case["desc"]), "flow": case["flow"], "bounds": [case["max_states"], case["max_depth"]],
                         "impl": [impl["verdict"], impl.get("seq")], "oracle": [size, d]} if tot <= 4 else None)
        if model["verdict"] == "notFound" and not model["hit_states"] and not model["skipped_depth"] and d is not None:
            ctx.violation("oracle finds a firing sequence although the model search was exhaustive (contradicts bfs_complete_partial: "
                          "harness oracle or driver broken)", case, {"oracle": [size, d]}, no_input=True)
            return
        problem = None
        if impl["verdict"] != "RuntimeError" and model["verdict"] != "RuntimeError":
            for k in ("places", "transitions", "arcs", "M0", "MT"):
                if impl[k] != model[k]:
                    problem = f"extended net differs in {k}: impl={impl[k]} model={model[k]}"
                    break
        if problem is None and impl["verdict"] != model["verdict"]:
            problem = f"verdict impl={impl['verdict']} model={model['verdict']} with bounds {case['max_states']}/{case['max_depth']}"
        if problem is None and impl["verdict"] == "found":
            if impl["seq"] == model["seq"]:
                ctx.count("realizable:certificate_identical")
            else:
                ctx.count("realizable:certificate_differs(not gated)")
            if impl["cert_attr"] != impl["seq"]:
                problem = "the `certificate` attribute differs from the returned sequence"
        # specification on the implementation's own answer, on every case
        s = realizable_spec(ctx, case, impl)
        # sanity of the oracle itself: a valid certificate implies reachability
        if s is None and impl["verdict"] == "found" and size is not None and d is None:
            ctx.violation("exhaustive oracle says unreachable but the certificate is valid (harness oracle broken)", case,
                          {"impl": impl}, no_input=True)
            return
        if s is not None:
            small = shrink_realizable(ctx, case)
            simpl = impl_realizable(small)
            ctx.violation("pathway realizability answer violates its specification", small,
                          {"spec": realizable_spec(ctx, small, simpl) or s, "impl": [simpl["verdict"], simpl.get("seq")],
                           "net": netio.fmt(small["desc"]), "stream": tag})
        elif problem is not None:
            ctx.violation("correspondence realizability: impl and model differ although the specification holds",
                          case, {"diff": problem, "stream": tag}, no_input=True)
        if len(ctx.violations) >= 5:
            return


def simulate_flow(rnd, rs, species, max_steps, budget=400):
    """Random firing sequence from the zero marking that returns to it (randomised depth-first
    search over markings with at most 8 tokens); -> flow dict (edge id -> count) or None."""
    m = {s: 0 for s in species}
    seq = []
    left = [budget]

    def go():
        if left[0] <= 0:
            return False
        left[0] -= 1
        if len(seq) >= 2 and all(v == 0 for v in m.values()) and (len(seq) >= max_steps or rnd.random() < 0.5):
            return True
        if len(seq) >= max_steps:
            return False
        en = [r for r in rs if all(m[s] >= c for s, c in r["r"])]
        rnd.shuffle(en)
        if len(seq) >= max_steps // 2:
            en.sort(key=lambda r: sum(c for _, c in r["p"]) - sum(c for _, c in r["r"]))
        for r in en:
            for s, c in r["r"]:
                m[s] -= c
            for s, c in r["p"]:
                m[s] += c
            seq.append(r["id"])
            if sum(m.values()) <= 8 and go():
                return True
            seq.pop()
            for s, c in r["r"]:
                m[s] += c
            for s, c in r["p"]:
                m[s] -= c
        return False

    if not go():
        return None
    counts = {}
    for t in seq:
        counts[t] = counts.get(t, 0) + 1
    return counts


def planned_pathway(rnd, sp):
    """A network grown along a firing sequence that starts and ends at the zero marking (so the
    resulting flow is realizable by construction): -> (reactions, flow dict)."""
    m = {}
    rs, flow = [], {}

    def apply(r):
        for s, c in r["r"]:
            m[s] -= c
            if m[s] == 0:
                del m[s]
        for s, c in r["p"]:
            m[s] = m.get(s, 0) + c
        flow[r["id"]] = flow.get(r["id"], 0) + 1

    for _ in range(rnd.randint(1, 5)):
        en = [r for r in rs if all(m.get(s, 0) >= c for s, c in r["r"])]
        if en and rnd.random() < 0.3:
            apply(rnd.choice(en))
            continue
        if m and rnd.random() < 0.8:
            keys = rnd.sample(sorted(m), rnd.randint(1, min(2, len(m))))
            r = [[s, rnd.randint(1, min(3, m[s]))] for s in keys]
        else:
            r = []
        p = [[s, rnd.choice([1, 1, 2])] for s in rnd.sample(sp, rnd.randint(0 if r else 1, min(2, len(sp))))]
        if sum(m.values()) + sum(c for _, c in p) > 7:
            p = []
        if not r and not p:
            continue
        rx = {"id": f"r_{len(rs) + 1}", "rule": "r", "r": r, "p": p}
        rs.append(rx)
        apply(rx)
    while m:
        keys = rnd.sample(sorted(m), rnd.randint(1, min(2, len(m))))
        r = [[s, m[s] if m[s] <= 3 and rnd.random() < 0.5 else 1] for s in keys]
        same = [x for x in rs if sorted(x["r"]) == sorted(r) and not x["p"]]
        rx = same[0] if same else {"id": f"r_{len(rs) + 1}", "rule": "r", "r": r, "p": []}
        if not same:
            rs.append(rx)
        apply(rx)
    return rs, flow


def random_pathway_case(rnd, max_species=4, small=False):
    sp = list("ABCDEF")[: rnd.randint(2, max_species)]
    rs = []
    n = rnd.randint(2, 4 if small else 6)
    for i in range(n):
        k = rnd.random()

        def side(lo, hi):
            return [[s, rnd.choice([1, 1, 1, 2, 3])] for s in rnd.sample(sp, rnd.randint(lo, min(hi, len(sp))))]
        if i == 0 or k < 0.2:
            r, p = [], side(1, 2)
        elif i == 1 or k < 0.4:
            r, p = side(1, 2), []
        elif k < 0.55:
            r = side(1, 2)
            cat = rnd.choice(r)[0]
            p = [e for e in side(0, 2) if e[0] != cat] + [[cat, rnd.choice([1, 2])]]
        else:
            r, p = side(1, 2), side(1, 2)
        rs.append({"id": f"r_{i + 1}", "rule": "r", "r": r, "p": p})
    mode = rnd.random()
    flow = None
    kind = "arbitrary"
    if mode < 0.5:
        prs, flow = planned_pathway(rnd, sp)
        if prs:
            kind = "planned"
            if rnd.random() < 0.5:  # distractors: extra reactions with small or zero flow
                for r in rs[: rnd.randint(1, 2)]:
                    r = dict(r, id=f"r_{len(prs) + 1}")
                    prs.append(r)
                    if rnd.random() < 0.4:
                        flow[r["id"]] = 1
                        kind = "planned+distractor-flow"
            rs = prs
        else:
            flow = None
    rnd.shuffle(rs)
    desc = {"reactions": rs, "isolated": ["Z"] if rnd.random() < 0.1 else []}
    nrs = netio.reactions_of(desc)
    if flow is None and mode < 0.8:
        for _ in range(4):
            flow = simulate_flow(rnd, nrs, sp + desc["isolated"], rnd.randint(2, 7))
            if flow:
                kind = "simulated"
                break
    if flow and kind in ("simulated", "planned") and rnd.random() < 0.12:
        k = rnd.choice(sorted(flow))
        flow[k] += rnd.choice([1, -1])
        kind = "perturbed"
    if not flow:
        flow = {r["id"]: rnd.choice([0, 0, 1, 1, 2]) for r in nrs if rnd.random() < 0.8}
        if rnd.random() < 0.05:
            flow[rnd.choice(nrs)["id"]] = -1
    b = rnd.random()
    if b < 0.7:
        ms, md = 5000, 60
    elif b < 0.85:
        ms, md = rnd.choice([0, 1, 2, 3, 5, 10, 30]), 60
    else:
        ms, md = 5000, rnd.choice([0, 1, 2, 3, 4])
    case = {"desc": desc, "flow": sorted([k, v] for k, v in flow.items()), "max_states": ms, "max_depth": md,
            "via_hypergraph": rnd.random() < 0.3, "via_config": rnd.random() < 0.2, "kind": kind}
    if not case["via_hypergraph"]:
        order = list(range(len(rs)))
        rnd.shuffle(order)
        case["edge_order"] = order
    return case


# =============================================================== driver
def load_regress():
    d = ROOT / "regress" / "C20"
    return [json.loads(f.read_text()) for f in sorted(d.glob("*.json"))] if d.exists() else []


def dispatch(ctx, case, tag):
    k = case.get("stream", "structure")
    if k == "structure":
        run_structure(ctx, [case], tag, spec_all=True)
    elif k == "firing":
        run_firing(ctx, [case], tag)
    else:
        run_realizable(ctx, [case], tag)


def run(ctx):
    ctx.trusted = [
        "Lean 4.33 kernel; axioms of the property theorems as listed in obligation_list",
        "hand-written model SynKitModel/Petri.lean (+ Net.lean) tied to /repo by this correspondence run (not by translation)",
        "Driver/Petri.lean, Driver/NetJson.lean JSON codecs; harness/netio.py encoder (checked against the bipartite view on every case); "
        "harness/props/c20.py adapters, canonicalisation (families as sorted lists of sorted label lists) and its exhaustive reachability oracle",
        "modelled: find_siphons, find_traps (incl. max_size), _minimal_sets, PetriNet.add_place/add_transition/enabled/fire/marking_to_tuple, "
        "build_petri_net_from_flow, is_realizable; not modelled: semiflows and the persistence test (numerical), Koenig test, scaled/borrow variants",
    ]
    ctx.assumptions = [
        "species labels are distinct strings that do not start with '__ext__' or '__target__' (the code builds place names by concatenation)",
        "reaction ids are distinct (dict keys), sides are dicts with positive integer coefficients (RXNSide normalisation; C15/C16 cover the store)",
        "max_size, max_states, max_depth are non-negative integers or None",
        "C20 'within the search bounds' (DESIGN 5a): a firing sequence of length <= max_depth exists and at most max_states markings are reachable",
    ]
    ctx.gen_rule = (
        "regression corpus first. STRUCTURE: all networks over {A,B,C} with <=2 (quick) / <=3 (thorough) distinct unit-coefficient reactions "
        "(any reactant/product subsets incl. empty sides and catalysts), each with max_size None and one of {1,2}; random networks <=6 species, "
        "<=6 reactions, coefficients <=3, catalysts, sources, sinks, isolated species, max_size in {None,0..n+1}; hand-built bipartite graphs with "
        "zero coefficients. FIRING: random PetriNets (<=6 places, <=4 add_transition calls incl. overwritten ids, weights in -1..3), markings with "
        "missing/extra places, unknown ids. REALIZABILITY: random pathways (<=4 species quick / <=5 thorough, 2-6 reactions with a source and a sink), "
        "flows from a simulated firing sequence returning to the zero marking, perturbed flows, arbitrary small flows, negative flow; bounds generous "
        "or deliberately tight; edges in shuffled dict order or through hypergraph_to_pr_inputs; bounds via arguments or RealizabilityConfig.")
    ctx.nontrivial_rule = ("structure: >=2 reactions and at least one siphon or trap; firing: some query enabled; "
                           "realizability: total flow >=2 on >=2 reactions; distinct as JSON values")
    build_and_audit_scoped(ctx, "SynKitProofs.Props.C20", "SynKitProofs/Audit/C20.lean", THEOREMS)

    for c in load_regress():
        dispatch(ctx, c["case"] if "case" in c else c, "regress")
        ctx.count("regress_cases")
    if ctx.violations:
        ctx.obligation("correspondence: regression inputs", False)
        return

    # ---- structure
    rnd = ctx.rnd
    unit = unit_reactions(["A", "B", "C"])
    depth = 2 if ctx.quick else 3
    cases = []
    for k in range(1, depth + 1):
        for combo in itertools.combinations(range(len(unit)), k):
            desc = {"reactions": with_ids([unit[i] for i in combo])}
            cases.append({"stream": "structure", "desc": desc, "max_size": None})
            if k >= 2 and (ctx.quick or rnd.random() < 0.25):
                cases.append({"stream": "structure", "desc": desc, "max_size": rnd.choice([1, 2])})
    if ctx.quick:
        for _ in range(1500):
            combo = rnd.sample(range(len(unit)), 3)
            cases.append({"stream": "structure", "desc": {"reactions": with_ids([unit[i] for i in combo])},
                          "max_size": rnd.choice([None, None, 1, 2])})
    run_structure(ctx, cases, "exhaustive-3-species")
    ctx.extra["exhaustive"] = True
    ctx.extra["exhaustive_part"] = f"structure stream: all sets of <= {depth} distinct unit-coefficient reactions over 3 species ({len(unit)} reactions)"
    if not ctx.violations:
        nrand = 400 if ctx.quick else 4000
        rc = []
        for _ in range(nrand):
            desc = random_desc(rnd)
            n = len(netio.to_net_json(desc)["species"])
            rc.append({"stream": "structure", "desc": desc, "max_size": rnd.choice([None, None, None, 0, 1, 2, 3, n + 1])})
        run_structure(ctx, rc, "random", spec_all=True)
        for c in rc[: 60 if ctx.quick else 400]:
            analyzer_consistent(ctx, c)
    if not ctx.violations:
        raw = []
        for _ in range(100 if ctx.quick else 800):
            desc = random_desc(rnd, max_species=4, max_rxn=4)
            for r in desc["reactions"]:
                for side in ("r", "p"):
                    for ent in r[side]:
                        if rnd.random() < 0.25:
                            ent[1] = 0
            desc["isolated"] = []
            raw.append({"stream": "structure", "desc": desc, "max_size": rnd.choice([None, None, 2]), "raw": True})
        run_structure(ctx, raw, "raw-bipartite-zero-coefficients", spec_all=True)
    ctx.obligation("correspondence: find_siphons / find_traps / PetriAnalyzer == model, families as sets of label sets", not ctx.violations)

    # ---- firing
    nv = len(ctx.violations)
    run_firing(ctx, [random_net_case(rnd) for _ in range(400 if ctx.quick else 4000)], "random")
    ctx.obligation("correspondence: PetriNet add_transition/enabled/fire/marking_to_tuple == model", len(ctx.violations) == nv)

    # ---- realizability
    nv = len(ctx.violations)
    pcs = [dict(random_pathway_case(rnd, max_species=3 if i % 3 == 0 else (4 if ctx.quick else 5), small=(i % 3 == 0)), stream="realizable")
           for i in range(500 if ctx.quick else 5000)]
    pcs.append({"stream": "realizable", "desc": {"reactions": []}, "flow": [], "max_states": 10, "max_depth": 10, "kind": "empty"})
    run_realizable(ctx, pcs, "random")
    ctx.obligation("correspondence: extended net, verdict under equal bounds == model; certificate valid (Lean spec); "
                   "verdict consistent with exhaustive reachability", len(ctx.violations) == nv)


def replay(ctx, case):
    dispatch(ctx, case["case"], "replay")
